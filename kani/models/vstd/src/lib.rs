extern crate std as real_std;
pub use real_std::*;
pub mod collections {
    pub use real_std::collections::*;
    use real_std::borrow::Borrow;
    use real_std::vec::Vec;
    use real_std::iter::FromIterator;

    #[derive(Debug, Clone)]
    pub struct HashMap<K, V> { entries: Vec<(K, V)> }
    impl<K, V> HashMap<K, V> {
        pub fn new() -> Self { HashMap { entries: Vec::with_capacity(8) } }
        pub fn len(&self) -> usize { self.entries.len() }
        pub fn is_empty(&self) -> bool { self.entries.is_empty() }
        /// Iteration order of a hash map is unspecified: under Kani it starts at a solver-chosen entry (a rotation), so
        /// code whose result depends on the order becomes nondeterministic and any comparison with a reference fails.
        fn order_start(&self) -> usize {
            #[cfg(kani)]
            {
                if self.entries.len() > 1 {
                    let k: usize = kani::any();
                    kani::assume(k < self.entries.len());
                    return k;
                }
            }
            0
        }
        pub fn iter(&self) -> impl Iterator<Item = (&K, &V)> {
            let s = self.order_start();
            self.entries[s..].iter().chain(self.entries[..s].iter()).map(|e| (&e.0, &e.1))
        }
        pub fn keys(&self) -> impl Iterator<Item = &K> { self.iter().map(|e| e.0) }
        pub fn values(&self) -> impl Iterator<Item = &V> { self.iter().map(|e| e.1) }
        pub fn clear(&mut self) { self.entries.clear() }
    }
    impl<'a, K, V> IntoIterator for &'a HashMap<K, V> {
        type Item = (&'a K, &'a V);
        type IntoIter = real_std::vec::IntoIter<(&'a K, &'a V)>;
        fn into_iter(self) -> Self::IntoIter { self.iter().collect::<Vec<_>>().into_iter() }
    }
    impl<K: Eq, V> HashMap<K, V> {
        pub fn get<Q: ?Sized + Eq>(&self, k: &Q) -> Option<&V> where K: Borrow<Q> {
            let mut i = 0;
            while i < self.entries.len() {
                if self.entries[i].0.borrow() == k { return Some(&self.entries[i].1); }
                i += 1;
            }
            None
        }
        pub fn contains_key<Q: ?Sized + Eq>(&self, k: &Q) -> bool where K: Borrow<Q> { self.get(k).is_some() }
        pub fn get_mut<Q: ?Sized + Eq>(&mut self, k: &Q) -> Option<&mut V> where K: Borrow<Q> {
            let mut i = 0;
            while i < self.entries.len() {
                if self.entries[i].0.borrow() == k { return Some(&mut self.entries[i].1); }
                i += 1;
            }
            None
        }
        pub fn remove<Q: ?Sized + Eq>(&mut self, k: &Q) -> Option<V> where K: Borrow<Q> {
            let mut i = 0;
            while i < self.entries.len() {
                if self.entries[i].0.borrow() == k { return Some(self.entries.remove(i).1); }
                i += 1;
            }
            None
        }
        pub fn insert(&mut self, k: K, v: V) -> Option<V> {
            let mut i = 0;
            while i < self.entries.len() {
                if self.entries[i].0 == k { return Some(real_std::mem::replace(&mut self.entries[i].1, v)); }
                i += 1;
            }
            self.entries.push((k, v));
            None
        }
    }
    impl<K: Eq, V: PartialEq> PartialEq for HashMap<K, V> {
        fn eq(&self, other: &Self) -> bool {
            if self.len() != other.len() { return false; }
            self.entries.iter().all(|(k, v)| other.get(k).map_or(false, |w| v == w))
        }
    }
    impl<K: Eq, V: Eq> Eq for HashMap<K, V> {}
    impl<K: Eq, V> FromIterator<(K, V)> for HashMap<K, V> {
        fn from_iter<I: IntoIterator<Item = (K, V)>>(iter: I) -> Self {
            let mut m = HashMap::new();
            for (k, v) in iter { m.insert(k, v); }
            m
        }
    }

    #[derive(Debug, Clone)]
    pub struct HashSet<K> { entries: Vec<K> }
    impl<K: Eq> HashSet<K> {
        pub fn new() -> Self { HashSet { entries: Vec::with_capacity(8) } }
        pub fn contains<Q: ?Sized + Eq>(&self, k: &Q) -> bool where K: Borrow<Q> {
            let mut i = 0;
            while i < self.entries.len() { if self.entries[i].borrow() == k { return true; } i += 1; }
            false
        }
        pub fn insert(&mut self, k: K) -> bool {
            if self.contains(&k) { false } else { self.entries.push(k); true }
        }
        pub fn len(&self) -> usize { self.entries.len() }
        pub fn is_empty(&self) -> bool { self.entries.is_empty() }
        pub fn remove<Q: ?Sized + Eq>(&mut self, k: &Q) -> bool where K: Borrow<Q> {
            let mut i = 0;
            while i < self.entries.len() { if self.entries[i].borrow() == k { self.entries.remove(i); return true; } i += 1; }
            false
        }
        pub fn iter(&self) -> impl Iterator<Item = &K> { self.entries.iter() }
    }
}
