extern crate std as real_std;
pub use real_std::*;
pub mod collections {
    pub use real_std::collections::*;
    use real_std::borrow::Borrow;
    use real_std::vec::Vec;
    use real_std::iter::FromIterator;

    #[derive(Debug, Clone)]
    pub struct HashMap<K, V> { entries: Vec<(K, V)> }
    impl<K, V> HashMap<K, V> {
        pub fn new() -> Self { HashMap { entries: Vec::with_capacity(8) } }
        pub fn len(&self) -> usize { self.entries.len() }
        pub fn is_empty(&self) -> bool { self.entries.is_empty() }
        pub fn iter(&self) -> impl Iterator<Item = (&K, &V)> { self.entries.iter().map(|e| (&e.0, &e.1)) }
    }
    impl<K: Eq, V> HashMap<K, V> {
        pub fn get<Q: ?Sized + Eq>(&self, k: &Q) -> Option<&V> where K: Borrow<Q> {
            let mut i = 0;
            while i < self.entries.len() {
                if self.entries[i].0.borrow() == k { return Some(&self.entries[i].1); }
                i += 1;
            }
            None
        }
        pub fn contains_key<Q: ?Sized + Eq>(&self, k: &Q) -> bool where K: Borrow<Q> { self.get(k).is_some() }
        pub fn insert(&mut self, k: K, v: V) -> Option<V> {
            let mut i = 0;
            while i < self.entries.len() {
                if self.entries[i].0 == k { return Some(real_std::mem::replace(&mut self.entries[i].1, v)); }
                i += 1;
            }
            self.entries.push((k, v));
            None
        }
    }
    impl<K: Eq, V: PartialEq> PartialEq for HashMap<K, V> {
        fn eq(&self, other: &Self) -> bool {
            if self.len() != other.len() { return false; }
            self.entries.iter().all(|(k, v)| other.get(k).map_or(false, |w| v == w))
        }
    }
    impl<K: Eq, V: Eq> Eq for HashMap<K, V> {}
    impl<K: Eq, V> FromIterator<(K, V)> for HashMap<K, V> {
        fn from_iter<I: IntoIterator<Item = (K, V)>>(iter: I) -> Self {
            let mut m = HashMap::new();
            for (k, v) in iter { m.insert(k, v); }
            m
        }
    }

    #[derive(Debug, Clone)]
    pub struct HashSet<K> { entries: Vec<K> }
    impl<K: Eq> HashSet<K> {
        pub fn new() -> Self { HashSet { entries: Vec::with_capacity(8) } }
        pub fn contains<Q: ?Sized + Eq>(&self, k: &Q) -> bool where K: Borrow<Q> {
            let mut i = 0;
            while i < self.entries.len() { if self.entries[i].borrow() == k { return true; } i += 1; }
            false
        }
        pub fn insert(&mut self, k: K) -> bool {
            if self.contains(&k) { false } else { self.entries.push(k); true }
        }
    }
}
