pub mod map { pub use crate::IndexMap; }
use std::borrow::Borrow;
use std::iter::FromIterator;
#[derive(Debug, Clone, PartialEq, Eq)]
pub struct IndexMap<K, V> { entries: Vec<(K, V)> }
impl<K, V> IndexMap<K, V> {
    pub fn new() -> Self { IndexMap { entries: Vec::with_capacity(8) } }
    pub fn len(&self) -> usize { self.entries.len() }
    pub fn iter(&self) -> impl DoubleEndedIterator<Item = (&K, &V)> { self.entries.iter().map(|e| (&e.0, &e.1)) }
    pub fn keys(&self) -> impl DoubleEndedIterator<Item = &K> { self.entries.iter().map(|e| &e.0) }
    pub fn values(&self) -> impl DoubleEndedIterator<Item = &V> { self.entries.iter().map(|e| &e.1) }
    pub fn is_empty(&self) -> bool { self.entries.is_empty() }
    pub fn get_index(&self, i: usize) -> Option<(&K, &V)> { self.entries.get(i).map(|e| (&e.0, &e.1)) }
}
impl<K: Eq, V> IndexMap<K, V> {
    pub fn get<Q: ?Sized + Eq>(&self, k: &Q) -> Option<&V> where K: Borrow<Q> {
        let mut i = 0;
        while i < self.entries.len() {
            if self.entries[i].0.borrow() == k { return Some(&self.entries[i].1); }
            i += 1;
        }
        None
    }
    pub fn contains_key<Q: ?Sized + Eq>(&self, k: &Q) -> bool where K: Borrow<Q> { self.get(k).is_some() }
    pub fn get_mut<Q: ?Sized + Eq>(&mut self, k: &Q) -> Option<&mut V> where K: Borrow<Q> {
        let mut i = 0;
        while i < self.entries.len() {
            if self.entries[i].0.borrow() == k { return Some(&mut self.entries[i].1); }
            i += 1;
        }
        None
    }
    pub fn insert(&mut self, k: K, v: V) -> Option<V> {
        let mut i = 0;
        while i < self.entries.len() {
            if self.entries[i].0 == k { return Some(std::mem::replace(&mut self.entries[i].1, v)); }
            i += 1;
        }
        self.entries.push((k, v));
        None
    }
}
impl<K, V> IntoIterator for IndexMap<K, V> {
    type Item = (K, V);
    type IntoIter = std::vec::IntoIter<(K, V)>;
    fn into_iter(self) -> Self::IntoIter { self.entries.into_iter() }
}
impl<K: Eq, V> FromIterator<(K, V)> for IndexMap<K, V> {
    fn from_iter<I: IntoIterator<Item = (K, V)>>(iter: I) -> Self {
        let mut m = IndexMap::new();
        for (k, v) in iter { m.insert(k, v); }
        m
    }
}
