//! C16 — allocation accounting of `Heap::allocate`, read through the guarded accessor `Heap::verif_size`
//! (`--cfg kondziu_fml_verif`, switched on by this crate's build script only).
use crate::bytecode::heap::*;
use crate::bytecode::program::*;
use crate::util::*;
use indexmap::IndexMap;
use std::mem::forget;

fn array_of(n: usize) -> HeapObject {
    let mut e = Vec::with_capacity(2);
    let mut i = 0;
    while i < n { e.push(any_pointer(2)); i += 1; }
    HeapObject::from_pointers(e)
}

fn allocate_array(n: usize) {
    let existing = any_u8_below(2) as usize; // heap of 0 or 1 cells before
    let mut mem = Vec::with_capacity(3);
    if existing == 1 { mem.push(array_of(1)); }
    let mut heap = Heap::from(mem);
    let mb: usize = kani::any();
    kani::assume(mb < (1usize << 40));
    heap.set_size(mb);
    let before = heap.verif_size();
    let cell = array_of(n);
    let twin = array_of(n); // same shape, independent payload
    let size = cell.size();
    witness!(existing == 1, "W: allocation into a non-empty heap");
    assert!(size > 0, "C16: a created value has size 0 (the cumulative size would not strictly increase)");
    assert!(twin.size() == size, "C16: the size of an array depends on its contents, not only on its shape");
    let index = heap.allocate(cell);
    assert!(index.as_usize() == existing, "C16: allocate did not return the next free index");
    assert!(heap.dereference(&HeapIndex::from(existing)).is_ok() && heap.dereference(&HeapIndex::from(existing + 1)).is_err(),
            "C16: allocate did not append exactly one cell");
    assert!(heap.verif_size() == before + size, "C16: the cumulative size did not grow by exactly the value's size");
    forget(heap); forget(twin);
}

/// Two allocations in a row: every created value gets its own cell and its own size increment, also when an equal
/// (even empty) value was created before — one record per created array, in creation order.
fn allocate_twice(n1: usize, n2: usize) {
    let mut heap = Heap::from(Vec::with_capacity(3));
    let s0 = heap.verif_size();
    let (first, second) = (array_of(n1), array_of(n2));
    let (size1, size2) = (first.size(), second.size());
    let i1 = heap.allocate(first);
    let s1 = heap.verif_size();
    let i2 = heap.allocate(second);
    let s2 = heap.verif_size();
    witness!(i2.as_usize() == 1, "W: second allocation got the next index");
    assert!(i1.as_usize() == 0 && i2.as_usize() == 1, "C16: consecutive allocations did not get consecutive indices (one cell per created value)");
    assert!(s1 == s0 + size1 && s2 == s1 + size2 && s2 > s1 && s1 > s0, "C16: the cumulative size is not strictly increasing by each value's size");
    assert!(heap.dereference(&HeapIndex::from(1usize)).is_ok() && heap.dereference(&HeapIndex::from(2usize)).is_err(),
            "C16: two created values did not yield exactly two cells");
    forget(heap);
}

harness!(heap_allocate_twice_empty, unwind = 4, { allocate_twice(0, 0) });
harness!(heap_allocate_twice_mixed, unwind = 4, { allocate_twice(1, 0) });
harness!(heap_allocate_array0, unwind = 4, { allocate_array(0) });
harness!(heap_allocate_array2, unwind = 4, { allocate_array(2) });

/// An object with one field (1-byte symbolic name) and one method (1-byte symbolic name): the size depends on the
/// counts and name lengths only, not on the field value, the parent, or the method's header.
fn object_of() -> HeapObject {
    let mut fields = IndexMap::new();
    let f: u8 = kani::any();
    kani::assume(f >= b'a' && f <= b'z');
    let mut fname = Vec::with_capacity(1);
    fname.push(f);
    fields.insert(unsafe { String::from_utf8_unchecked(fname) }, any_pointer(2));
    let mut methods = IndexMap::new();
    let m: u8 = kani::any();
    kani::assume(m >= b'a' && m <= b'z');
    let mut mname = Vec::with_capacity(1);
    mname.push(m);
    methods.insert(unsafe { String::from_utf8_unchecked(mname) },
                   ProgramObject::Method { name: ConstantPoolIndex::new(kani::any()), parameters: Arity::new(kani::any()), locals: Size::new(kani::any()),
                                           code: AddressRange::from(kani::any::<u16>() as usize, kani::any::<u8>() as usize) });
    HeapObject::new_object(any_pointer(2), fields, methods)
}

harness!(heap_allocate_object, unwind = 4, {
    let mut heap = Heap::from(Vec::with_capacity(2));
    let before = heap.verif_size();
    let cell = object_of();
    let twin = object_of();
    let size = cell.size();
    witness!(size > 0, "W: object sized");
    assert!(size > 0, "C16: a created object has size 0");
    assert!(twin.size() == size, "C16: the size of an object depends on more than its shape (member counts and name lengths)");
    let index = heap.allocate(cell);
    assert!(index.as_usize() == 0 && heap.dereference(&HeapIndex::from(1usize)).is_err(), "C16: allocate did not append exactly one cell");
    assert!(heap.verif_size() == before + size, "C16: the cumulative size did not grow by exactly the value's size");
    forget(heap); forget(twin);
});
