//! Shared harness plumbing: stubs (R4), presized builders (R3), the harness macro.

pub use crate::bytecode::bytecode::OpCode;
use crate::bytecode::heap::*;
use crate::bytecode::program::*;
use crate::bytecode::state::*;

/// R4: stands in for `std::fmt::format` on harnesses whose subject is not message text.
pub fn fmt_stub(_args: std::fmt::Arguments<'_>) -> String {
    String::new()
}

/// R4: `anyhow::Error`'s drop glue walks a vtable and `dyn Error::source`; not a subject of any property.
pub use anyhow::Error as AnyErr;
pub fn drop_stub(_e: &mut AnyErr) {}

/// A harness with the two standard stubs.
#[macro_export]
macro_rules! harness {
    ($(#[$m:meta])* $name:ident, unwind = $u:expr, $body:block) => {
        $(#[$m])*
        #[cfg_attr(kani, kani::proof)]
        #[cfg_attr(kani, kani::unwind($u))]
        #[cfg_attr(kani, kani::stub(std::fmt::format, crate::util::fmt_stub))]
        #[cfg_attr(kani, kani::stub(<crate::util::AnyErr as std::ops::Drop>::drop, crate::util::drop_stub))]
        pub fn $name() $body
    };
}

/// A harness that keeps the real `fmt` machinery (formatting is the subject).
#[macro_export]
macro_rules! harness_realfmt {
    ($(#[$m:meta])* $name:ident, unwind = $u:expr, $body:block) => {
        $(#[$m])*
        #[cfg_attr(kani, kani::proof)]
        #[cfg_attr(kani, kani::unwind($u))]
        #[cfg_attr(kani, kani::stub(<crate::util::AnyErr as std::ops::Drop>::drop, crate::util::drop_stub))]
        pub fn $name() $body
    };
}

/// Vacuity witness (R8). Under Kani this is a cover property; natively it does nothing.
#[macro_export]
macro_rules! witness {
    ($cond:expr, $msg:literal) => {
        #[cfg(kani)]
        kani::cover!($cond, $msg);
    };
}

pub fn any_u8_below(n: u8) -> u8 {
    let k: u8 = kani::any();
    kani::assume(k < n);
    k
}

pub fn prog(code: Vec<OpCode>, constants: Vec<ProgramObject>) -> Program {
    Program {
        constant_pool: ConstantPool::from(constants),
        labels: Labels::new(),
        code: Code::from(code),
        globals: Globals::new(),
        entry: Entry::new(),
    }
}

/// `n` filler instructions, so that instruction-pointer bumps are observable.
pub fn filler_code(n: usize) -> Vec<OpCode> {
    let mut code = Vec::with_capacity(n);
    let mut i = 0;
    while i < n {
        code.push(OpCode::Return);
        i += 1;
    }
    code
}

/// State with a presized operand stack, one frame with the given locals, ip = 0.
pub fn mk_state(globals: Vec<String>, functions: Vec<(String, ConstantPoolIndex)>, entry_locals: Vec<Pointer>, heap: Vec<HeapObject>) -> State {
    let gf = GlobalFrame::from(globals, Pointer::Null).unwrap();
    let ff = GlobalFunctions::from(functions).unwrap();
    let mut fs = FrameStack::from((gf, ff));
    fs.push(Frame::from(None, entry_locals));
    State {
        operand_stack: OperandStack::from(Vec::with_capacity(8)),
        frame_stack: fs,
        instruction_pointer: InstructionPointer::from(Address::from_usize(0)),
        heap: Heap::from(heap),
    }
}

/// Cheapest state: no globals, no functions, one empty frame, ip = 0, presized operand stack.
pub fn plain_state() -> State {
    State {
        operand_stack: OperandStack::from(Vec::with_capacity(8)),
        frame_stack: FrameStack::from(Frame::from(None, Vec::with_capacity(1))),
        instruction_pointer: InstructionPointer::from(Address::from_usize(0)),
        heap: Heap::from(Vec::with_capacity(1)),
    }
}

/// An arbitrary pointer: kind and payload symbolic, references range over `0..cells` plus one dangling index.
pub fn any_pointer(cells: usize) -> Pointer {
    let k = any_u8_below(4);
    match k {
        0 => Pointer::Null,
        1 => Pointer::Integer(kani::any()),
        2 => Pointer::Boolean(kani::any()),
        _ => {
            let i: usize = kani::any();
            kani::assume(i <= cells);
            Pointer::Reference(HeapIndex::from(i))
        }
    }
}

pub fn ip_of(state: &State) -> Option<usize> {
    state.instruction_pointer.get().map(|a| a.value_usize())
}

/// The return address of a frame (the field is crate-visible; the native replay binaries are separate crates).
pub fn frame_return_address(f: &Frame) -> Option<u32> {
    f.return_address.map(|a| a.value_u32())
}
