//! C15 / C10 / C13 — `eval_print`: the format-string state machine against the README's description, for every
//! format string of a concrete byte length (contents symbolic) and no arguments. Prints *with* arguments do not fit
//! CBMC: the argument is popped from a `Vec`, its kind is then solver-unknown, and rendering it explores the whole
//! recursive array/object renderer (`format!`, `join`, std's stable sort) — 12 GB exhausted with one concrete
//! integer argument. Argument substitution order is therefore not decided here (see not_covered).
//!   * `~` is replaced by the next argument in order (C13: left to right), the six escapes are decoded, every other
//!     character is copied, null is pushed, the instruction pointer advances;
//!   * failure exactly on an unknown escape, too few or too many arguments (C10), and a failing print writes
//!     nothing at all to the output (C10: stdout holds exactly the output produced before the fault).
//! A lone trailing backslash is outside the quantifier (DESIGN 4.1): either outcome is accepted.
use crate::bytecode::heap::*;
use crate::bytecode::interpreter::*;
use crate::bytecode::program::*;
use crate::bytecode::state::*;
use crate::util::*;
use std::mem::forget;

pub const OUT_CAP: usize = 16;

/// Output sink with a fixed buffer (R3): records every character written.
pub struct Sink {
    pub chars: [char; OUT_CAP],
    pub n: usize,
    pub calls: usize,
}

impl Sink {
    pub fn new() -> Self { Sink { chars: ['\0'; OUT_CAP], n: 0, calls: 0 } }
}

impl std::fmt::Write for Sink {
    fn write_str(&mut self, s: &str) -> std::fmt::Result {
        self.calls += 1;
        for c in s.chars() {
            if self.n < OUT_CAP { self.chars[self.n] = c; }
            self.n += 1;
        }
        Ok(())
    }
}

/// Reference rendering of the argument kinds used here: null, and the integers 0..9 (one digit: R1 keeps the
/// rendered length concrete; other values are rendered by concrete-instance harnesses only).
fn ref_render(p: &Pointer, out: &mut [char; OUT_CAP], n: &mut usize) {
    match p {
        Pointer::Integer(i) => { out[*n] = (b'0' + (*i as u8)) as char; *n += 1; }
        _ => { out[*n] = 'n'; out[*n + 1] = 'u'; out[*n + 2] = 'l'; out[*n + 3] = 'l'; *n += 4; }
    }
}

/// The documented machine over ASCII bytes. Returns Some(length) and fills `out`, or None where print must fail.
/// `dont_care` is set for a lone trailing backslash.
fn ref_format(fmt: &[u8], args: &[Pointer], out: &mut [char; OUT_CAP], dont_care: &mut bool) -> Option<usize> {
    let mut n = 0;
    let mut next = 0;
    let mut i = 0;
    while i < fmt.len() {
        let b = fmt[i];
        if b == b'\\' {
            if i + 1 == fmt.len() { *dont_care = true; return None; }
            let e = fmt[i + 1];
            let decoded = if e == b'n' { '\n' } else if e == b't' { '\t' } else if e == b'r' { '\r' }
                else if e == b'\\' { '\\' } else if e == b'"' { '"' } else if e == b'~' { '~' } else { return None; };
            out[n] = decoded;
            n += 1;
            i += 2;
        } else if b == b'~' {
            if next >= args.len() { return None; }
            ref_render(&args[next], out, &mut n);
            next += 1;
            i += 1;
        } else {
            out[n] = b as char;
            n += 1;
            i += 1;
        }
    }
    if next != args.len() { return None; }
    Some(n)
}

/// Arguments are concrete and pairwise distinct (the integers 1, 2): a symbolic argument makes the length of its
/// rendering symbolic, which exhausted 12 GB (R1); substitution order does not depend on the values.
fn arg_at(i: usize) -> Pointer {
    Pointer::Integer(i as i32 + 1)
}

/// Loop-free comparison of the first n <= 12 characters (the longest output of the shapes below).
fn same_prefix(a: &[char; OUT_CAP], b: &[char; OUT_CAP], n: usize) -> bool {
    (0 >= n || a[0] == b[0]) && (1 >= n || a[1] == b[1]) && (2 >= n || a[2] == b[2]) && (3 >= n || a[3] == b[3]) && (4 >= n || a[4] == b[4]) && (5 >= n || a[5] == b[5]) && (6 >= n || a[6] == b[6]) && (7 >= n || a[7] == b[7]) && (8 >= n || a[8] == b[8]) && (9 >= n || a[9] == b[9]) && (10 >= n || a[10] == b[10]) && (11 >= n || a[11] == b[11])
}

fn print_body(len: usize, nargs: usize) {
    let mut bytes = Vec::with_capacity(5);
    let mut fmt = [0u8; 5];
    let mut i = 0;
    while i < len {
        let b: u8 = kani::any();
        kani::assume(b < 0x80);
        fmt[i] = b;
        bytes.push(b);
        i += 1;
    }
    let mut cp = Vec::with_capacity(1);
    cp.push(ProgramObject::String(unsafe { String::from_utf8_unchecked(bytes) }));
    let program = prog(filler_code(2), cp);
    let mut state = plain_state();
    let sentinel: i32 = kani::any();
    state.operand_stack.push(Pointer::Integer(sentinel));
    let mut args = [Pointer::Null; 2];
    i = 0;
    while i < nargs {
        args[i] = arg_at(i);
        state.operand_stack.push(args[i]); // pushed in call order: first argument deepest
        i += 1;
    }
    let mut expected = ['\0'; OUT_CAP];
    let mut dont_care = false;
    let want = ref_format(&fmt[..len], &args[..nargs], &mut expected, &mut dont_care);
    kani::assume(!dont_care);

    let mut sink = Sink::new();
    let r = eval_print(&program, &mut state, &mut sink, &ConstantPoolIndex::new(0), &Arity::new(nargs as u8));

    witness!(r.is_ok() && sink.n > 0, "W!len0: something printed");
    witness!(r.is_err(), "W!len0: print rejected");
    match want {
        Some(n) => {
            assert!(r.is_ok(), "C15: print defined by the README failed");
            assert!(sink.n == n, "C15: printed text has a different length");
            assert!(n <= 12 && same_prefix(&sink.chars, &expected, n), "C15: printed text differs (substitution order, escapes or copied characters)");
            assert!(state.operand_stack.pop().unwrap() == Pointer::Null, "C15: print must yield null");
            assert!(state.operand_stack.pop().unwrap() == Pointer::Integer(sentinel), "C13: print must pop exactly its arguments");
            assert!(state.operand_stack.pop().is_err(), "C15: stack deeper than expected");
            assert!(ip_of(&state) == Some(1), "C05: instruction pointer");
        }
        None => {
            assert!(r.is_err(), "C10: print with an unknown escape or a placeholder/argument mismatch did not fail");
            assert!(sink.n == 0, "C10: a failing print wrote part of its output");
        }
    }
    forget(r); forget(state); forget(program);
}

harness!(print_len0_args0, unwind = 6, { print_body(0, 0) });
harness!(print_len1_args0, unwind = 6, { print_body(1, 0) });
harness!(print_len2_args0, unwind = 6, { print_body(2, 0) });
harness!(print_len3_args0, unwind = 6, { print_body(3, 0) });
harness!(print_len4_args0, unwind = 7, { print_body(4, 0) });
harness!(print_len5_args0, unwind = 8, { print_body(5, 0) });

/// Non-ASCII characters are copied unchanged: one two-byte character between two ASCII bytes.
harness!(print_two_byte_character, unwind = 6, {
    let (a, lead, cont, z): (u8, u8, u8, u8) = (kani::any(), kani::any(), kani::any(), kani::any());
    kani::assume(a < 0x80 && a != b'\\' && a != b'~' && z < 0x80 && z != b'\\' && z != b'~');
    kani::assume(lead >= 0xC2 && lead <= 0xDF && cont >= 0x80 && cont <= 0xBF);
    let mut bytes = Vec::with_capacity(4);
    bytes.push(a); bytes.push(lead); bytes.push(cont); bytes.push(z);
    let mut cp = Vec::with_capacity(1);
    cp.push(ProgramObject::String(unsafe { String::from_utf8_unchecked(bytes) }));
    let program = prog(filler_code(2), cp);
    let mut state = plain_state();
    let mut sink = Sink::new();
    let r = eval_print(&program, &mut state, &mut sink, &ConstantPoolIndex::new(0), &Arity::new(0));
    witness!(r.is_ok(), "W: non-ASCII text printed");
    assert!(r.is_ok(), "C15: print of plain text with a non-ASCII character failed");
    let code = (((lead & 0x1F) as u32) << 6) | ((cont & 0x3F) as u32);
    assert!(sink.n == 3 && sink.chars[0] == a as char && sink.chars[1] as u32 == code && sink.chars[2] == z as char,
            "C15: a non-ASCII character was not copied unchanged");
    forget(r); forget(state); forget(program);
});

/// The format constant is not a string, or does not exist.
harness!(print_bad_constant, unwind = 6, {
    let mut cp = Vec::with_capacity(2);
    cp.push(ProgramObject::String("x".to_string()));
    cp.push(ProgramObject::Integer(1));
    let program = prog(filler_code(2), cp);
    let mut state = plain_state();
    let index = 1 + any_u8_below(3) as u16; // 1: an integer constant, 2 and 3: no such constant
    let mut sink = Sink::new();
    let r = eval_print(&program, &mut state, &mut sink, &ConstantPoolIndex::new(index), &Arity::new(0));
    witness!(r.is_err() && index == 1, "W: non-string format constant rejected");
    assert!(r.is_err(), "C10: print with a wrong or missing format constant did not fail");
    assert!(sink.n == 0, "C10: a failing print wrote output");
    forget(r); forget(state); forget(program);
});

/// The operand stack holds fewer values than the instruction's argument count.
harness!(print_short_stack, unwind = 6, {
    let mut cp = Vec::with_capacity(1);
    cp.push(ProgramObject::String("~".to_string()));
    let program = prog(filler_code(2), cp);
    let mut state = plain_state();
    let mut sink = Sink::new();
    let r = eval_print(&program, &mut state, &mut sink, &ConstantPoolIndex::new(0), &Arity::new(1));
    witness!(r.is_err(), "W: short stack rejected");
    assert!(r.is_err(), "C10: print with too few operands did not fail");
    assert!(sink.n == 0, "C10: a failing print wrote output");
    forget(r); forget(state); forget(program);
});
