//! C05 / C10 / C13 / C14 / C16 — one VM step from an arbitrary small state, per kernel, against the documented
//! instruction semantics (doc comments of bytecode.rs, README). Every `Pointer` in the pre-state is symbolic
//! (kind and payload, references ranging over the heap shape plus one dangling index); operands select right
//! kind / wrong kind / out of range symbolically. Each harness asserts
//!   * success exactly when the documentation defines the step (C05, C10: failure is an Err, never a panic),
//!   * the exact post-state on success: operand stack (with a sentinel below), instruction pointer, frame, globals,
//!     heap contents, heap length (C16: only array / object creation allocate),
//!   * on failure: nothing was written to the output sink (no kernel here writes; print is h_print.rs).
use crate::bytecode::bytecode::OpCode;
use crate::bytecode::heap::*;
use crate::bytecode::interpreter::*;
use crate::bytecode::program::*;
use crate::bytecode::state::*;
use crate::refmodel::builtin::*;
use crate::util::*;
use indexmap::IndexMap;
use std::mem::forget;

fn cpi(i: u16) -> ConstantPoolIndex { ConstantPoolIndex::new(i) }
fn lfi(i: u16) -> LocalFrameIndex { LocalFrameIndex::new(i) }

/// State: stack [sentinel], one frame with two symbolic locals, ip = 0, heap of `cells` one-element arrays.
fn base_state(cells: usize) -> (State, i32, Pointer, Pointer) {
    let sentinel: i32 = kani::any();
    let l0 = any_pointer(cells);
    let l1 = any_pointer(cells);
    let mut locals = Vec::with_capacity(2);
    locals.push(l0);
    locals.push(l1);
    let mut mem = Vec::with_capacity(4);
    let mut i = 0;
    while i < cells {
        let mut e = Vec::with_capacity(1);
        e.push(Pointer::Integer(i as i32));
        mem.push(HeapObject::from_pointers(e));
        i += 1;
    }
    let mut state = State {
        operand_stack: OperandStack::from(Vec::with_capacity(8)),
        frame_stack: FrameStack::from(Frame::from(None, locals)),
        instruction_pointer: InstructionPointer::from(Address::from_usize(0)),
        heap: Heap::from(mem),
    };
    state.heap.set_size(any_heap_limit());
    state.operand_stack.push(Pointer::Integer(sentinel));
    (state, sentinel, l0, l1)
}

/// C16: the memory flags are inert — every kernel harness runs under an arbitrary `--heap-size` (below the
/// 2^44 MB at which `set_size`'s own multiplication overflows; recorded as outside).
fn any_heap_limit() -> usize {
    let mb: usize = kani::any();
    kani::assume(mb < (1usize << 40));
    mb
}

fn heap_len(state: &State, upto: usize) -> usize {
    let mut n = 0;
    while n <= upto && state.heap.dereference(&HeapIndex::from(n)).is_ok() { n += 1; }
    n
}

fn stack_is(state: &mut State, expected: &[Pointer]) -> bool {
    let mut ok = true;
    let mut i = expected.len();
    while i > 0 {
        i -= 1;
        match state.operand_stack.pop() {
            Ok(p) => { if p != expected[i] { ok = false; } }
            Err(e) => { ok = false; forget(e); }
        }
    }
    match state.operand_stack.pop() {
        Ok(_) => { ok = false; }
        Err(e) => { forget(e); }
    }
    ok
}

fn locals_are(state: &State, l0: Pointer, l1: Pointer) -> bool {
    match state.frame_stack.get_locals() {
        Ok(f) => {
            let a = f.get(&lfi(0)).map(|p| *p == l0).unwrap_or(false);
            let b = f.get(&lfi(1)).map(|p| *p == l1).unwrap_or(false);
            let c = f.get(&lfi(2)).is_err();
            a && b && c
        }
        Err(e) => { forget(e); false }
    }
}

// ---------------------------------------------------------------------------------------------
// Literal: pushes integer / boolean / null constants; any other constant kind or index fails.

harness!(vm_literal, unwind = 4, {
    let (i, b): (i32, bool) = (kani::any(), kani::any());
    let mut cp = Vec::with_capacity(4);
    cp.push(ProgramObject::Integer(i));
    cp.push(ProgramObject::Boolean(b));
    cp.push(ProgramObject::Null);
    cp.push(ProgramObject::Slot { name: cpi(0) });
    let program = prog(filler_code(2), cp);
    let (mut state, sentinel, l0, l1) = base_state(0);
    let index: u16 = kani::any();
    let r = eval_literal(&program, &mut state, &cpi(index));
    witness!(r.is_ok() && index == 1, "W: boolean literal pushed");
    witness!(r.is_err(), "W: literal rejected");
    if index <= 2 {
        assert!(r.is_ok(), "C05: literal of a primitive constant failed");
        let v = if index == 0 { Pointer::Integer(i) } else if index == 1 { Pointer::Boolean(b) } else { Pointer::Null };
        assert!(stack_is(&mut state, &[Pointer::Integer(sentinel), v]), "C05: literal did not push exactly its constant");
        assert!(ip_of(&state) == Some(1), "C05: instruction pointer");
    } else {
        assert!(r.is_err(), "C10: literal of a non-primitive or missing constant did not fail");
    }
    assert!(locals_are(&state, l0, l1) && heap_len(&state, 1) == 0, "C05/C16: literal touched frame or heap");
    forget(r); forget(state); forget(program);
});

// ---------------------------------------------------------------------------------------------
// GetLocal / SetLocal

harness!(vm_get_local, unwind = 4, {
    let program = prog(filler_code(2), Vec::with_capacity(1));
    let (mut state, sentinel, l0, l1) = base_state(1);
    let index: u16 = kani::any();
    let r = eval_get_local(&program, &mut state, &lfi(index));
    witness!(r.is_ok() && index == 1, "W: second local read");
    witness!(r.is_err(), "W: local index rejected");
    if index < 2 {
        assert!(r.is_ok(), "C05: get local of an existing slot failed");
        assert!(stack_is(&mut state, &[Pointer::Integer(sentinel), if index == 0 { l0 } else { l1 }]), "C05: get local pushed a different value");
        assert!(ip_of(&state) == Some(1), "C05: instruction pointer");
    } else {
        assert!(r.is_err(), "C10: get local outside the frame did not fail");
    }
    assert!(locals_are(&state, l0, l1) && heap_len(&state, 2) == 1, "C05/C16: get local touched frame or heap");
    forget(r); forget(state); forget(program);
});

harness!(vm_set_local, unwind = 4, {
    let program = prog(filler_code(2), Vec::with_capacity(1));
    let (mut state, sentinel, l0, l1) = base_state(1);
    let v = any_pointer(1);
    let with_value: bool = kani::any();
    if with_value { state.operand_stack.push(v); } else { forget(state.operand_stack.pop()); }
    let index: u16 = kani::any();
    let r = eval_set_local(&program, &mut state, &lfi(index));
    witness!(r.is_ok() && index == 0, "W: first local written");
    witness!(r.is_err() && with_value, "W: local index rejected");
    if with_value && index < 2 {
        assert!(r.is_ok(), "C05: set local of an existing slot failed");
        assert!(locals_are(&state, if index == 0 { v } else { l0 }, if index == 1 { v } else { l1 }), "C05: set local wrote a different slot or value");
        assert!(stack_is(&mut state, &[Pointer::Integer(sentinel), v]), "C05: set local must leave the value on the stack");
        assert!(ip_of(&state) == Some(1), "C05: instruction pointer");
    } else {
        assert!(r.is_err(), "C10: set local outside the frame / on an empty stack did not fail");
    }
    assert!(heap_len(&state, 2) == 1, "C16: set local allocated");
    forget(r); forget(state); forget(program);
});

// ---------------------------------------------------------------------------------------------
// GetGlobal / SetGlobal: one defined global (1-byte name), constant = its name / another name / not a string

fn global_setup() -> (Program, State, i32, Pointer) {
    let mut cp = Vec::with_capacity(3);
    cp.push(ProgramObject::String("g".to_string()));
    cp.push(ProgramObject::String("h".to_string()));
    cp.push(ProgramObject::Null);
    let program = prog(filler_code(2), cp);
    let (mut state, sentinel, _l0, _l1) = base_state(1);
    let mut names = Vec::with_capacity(1);
    names.push("g".to_string());
    state.frame_stack.globals = GlobalFrame::from(names, Pointer::Null).unwrap();
    let g = any_pointer(1);
    let u = state.frame_stack.globals.update("g".to_string(), g);
    forget(u);
    (program, state, sentinel, g)
}

harness!(vm_get_global, unwind = 4, {
    let (program, mut state, sentinel, g) = global_setup();
    let index = any_u8_below(5) as u16;
    let r = eval_get_global(&program, &mut state, &cpi(index));
    witness!(r.is_ok(), "W: global read");
    witness!(r.is_err() && index == 1, "W: unknown global rejected");
    if index == 0 {
        assert!(r.is_ok(), "C05: get global of a defined global failed");
        assert!(stack_is(&mut state, &[Pointer::Integer(sentinel), g]), "C05: get global pushed a different value");
        assert!(ip_of(&state) == Some(1), "C05: instruction pointer");
    } else {
        assert!(r.is_err(), "C10: get global of an unknown name / non-string constant did not fail");
    }
    assert!(heap_len(&state, 2) == 1, "C16: get global allocated");
    forget(r); forget(state); forget(program);
});

harness!(vm_set_global, unwind = 4, {
    let (program, mut state, sentinel, g) = global_setup();
    let v = any_pointer(1);
    state.operand_stack.push(v);
    let index = any_u8_below(5) as u16;
    let r = eval_set_global(&program, &mut state, &cpi(index));
    witness!(r.is_ok(), "W: global written");
    witness!(r.is_err() && index == 1, "W: unknown global rejected");
    if index == 0 {
        assert!(r.is_ok(), "C05: set global of a defined global failed");
        assert!(*state.frame_stack.globals.get("g").unwrap() == v, "C05: set global stored a different value");
        assert!(stack_is(&mut state, &[Pointer::Integer(sentinel), v]), "C05: set global must leave the value on the stack");
        assert!(ip_of(&state) == Some(1), "C05: instruction pointer");
    } else {
        assert!(r.is_err(), "C10: set global of an undefined name / non-string constant did not fail");
    }
    assert!(heap_len(&state, 2) == 1, "C16: set global allocated");
    forget(r); forget(state); forget(program);
});

// ---------------------------------------------------------------------------------------------
// Drop, Label

harness!(vm_drop_label, unwind = 4, {
    let program = prog(filler_code(2), Vec::with_capacity(1));
    let (mut state, sentinel, l0, l1) = base_state(0);
    let v = any_pointer(0);
    let depth = any_u8_below(3); // 0: empty stack, 1: sentinel only, 2: sentinel + v
    if depth == 0 { forget(state.operand_stack.pop()); }
    if depth == 2 { state.operand_stack.push(v); }
    let which: bool = kani::any();
    let r = if which { eval_drop(&program, &mut state) } else { eval_label(&program, &mut state) };
    witness!(r.is_ok() && which && depth == 2, "W: value dropped");
    witness!(r.is_err(), "W: drop on empty stack rejected");
    if which && depth == 0 {
        assert!(r.is_err(), "C10: drop on an empty stack did not fail");
    } else {
        assert!(r.is_ok(), "C05: drop / label failed");
        assert!(ip_of(&state) == Some(1), "C05: instruction pointer");
        let remaining = if which { depth - 1 } else { depth };
        if remaining == 0 { assert!(stack_is(&mut state, &[]), "C05: stack after drop/label"); }
        else if remaining == 1 { assert!(stack_is(&mut state, &[Pointer::Integer(sentinel)]), "C05: stack after drop/label"); }
        else { assert!(stack_is(&mut state, &[Pointer::Integer(sentinel), v]), "C05: stack after drop/label"); }
    }
    assert!(locals_are(&state, l0, l1), "C05: drop / label touched the frame");
    forget(r); forget(state); forget(program);
});

// ---------------------------------------------------------------------------------------------
// Jump / Branch: one label "L" at a symbolic address; constant = "L" / unregistered name / not a string.
// Branch jumps on every value except null and false (DESIGN 4.1).

fn label_program() -> (Program, u32) {
    let mut cp = Vec::with_capacity(3);
    cp.push(ProgramObject::String("L".to_string()));
    cp.push(ProgramObject::String("M".to_string()));
    cp.push(ProgramObject::Integer(1));
    let target: u32 = kani::any();
    let mut program = prog(filler_code(2), cp);
    let name = ProgramObject::String("L".to_string());
    let mut pairs = Vec::with_capacity(1);
    pairs.push((&name, Address::from_u32(target)));
    program.labels = Labels::from(pairs).unwrap();
    forget(name);
    (program, target)
}

harness!(vm_jump, unwind = 4, {
    let (program, target) = label_program();
    let (mut state, sentinel, l0, l1) = base_state(0);
    let index = any_u8_below(5) as u16;
    let r = eval_jump(&program, &mut state, &cpi(index));
    witness!(r.is_ok(), "W: jump taken");
    witness!(r.is_err() && index == 1, "W: unregistered label rejected");
    if index == 0 {
        assert!(r.is_ok(), "C05: goto a registered label failed");
        assert!(ip_of(&state) == Some(target as usize), "C05: goto did not land on the label's address");
    } else {
        assert!(r.is_err(), "C10: goto an unregistered label / non-string constant did not fail");
    }
    assert!(stack_is(&mut state, &[Pointer::Integer(sentinel)]) && locals_are(&state, l0, l1), "C05: goto touched stack or frame");
    forget(r); forget(state); forget(program);
});

harness!(vm_branch, unwind = 4, {
    let (program, target) = label_program();
    let (mut state, sentinel, l0, l1) = base_state(1);
    let c = any_pointer(1);
    let has_condition: bool = kani::any();
    if has_condition { state.operand_stack.push(c); } else { forget(state.operand_stack.pop()); }
    let index = any_u8_below(5) as u16;
    let r = eval_branch(&program, &mut state, &cpi(index));
    let truthy = !(c == Pointer::Null || c == Pointer::Boolean(false));
    witness!(r.is_ok() && truthy, "W: branch taken");
    witness!(r.is_ok() && !truthy, "W: branch fell through");
    witness!(r.is_err(), "W: branch rejected");
    if !has_condition || index >= 2 || (truthy && index == 1) {
        assert!(r.is_err(), "C10: branch without a condition / on a non-string constant / to an unregistered label did not fail");
    } else if truthy {
        assert!(r.is_ok() && ip_of(&state) == Some(target as usize), "C05: branch on a true value did not jump to the label");
        assert!(stack_is(&mut state, &[Pointer::Integer(sentinel)]), "C13: branch must pop its condition exactly once");
    } else if index == 0 {
        assert!(r.is_ok() && ip_of(&state) == Some(1), "C05: branch on null/false did not fall through");
        assert!(stack_is(&mut state, &[Pointer::Integer(sentinel)]), "C13: branch must pop its condition exactly once");
    }
    assert!(locals_are(&state, l0, l1) && heap_len(&state, 2) == 1, "C05/C16: branch touched frame or heap");
    forget(r); forget(state); forget(program);
});

// ---------------------------------------------------------------------------------------------
// Return: pops the current frame and continues at its return address.

harness!(vm_return, unwind = 4, {
    let program = prog(filler_code(2), Vec::with_capacity(1));
    let (mut state, sentinel, l0, l1) = base_state(0);
    let frames = any_u8_below(3); // 0: no frame, 1: the base frame, 2: base frame + callee frame
    let ret: Option<u32> = if kani::any() { Some(kani::any()) } else { None };
    let c0 = any_pointer(0);
    if frames == 0 { forget(state.frame_stack.pop()); }
    if frames == 2 {
        let mut callee = Vec::with_capacity(1);
        callee.push(c0);
        state.frame_stack.push(Frame::from(ret.map(Address::from_u32), callee));
    }
    let v = any_pointer(0);
    state.operand_stack.push(v);
    let r = eval_return(&program, &mut state);
    witness!(r.is_ok() && frames == 2 && ret.is_some(), "W: returned to a caller");
    witness!(r.is_err(), "W: return without a frame rejected");
    if frames == 0 {
        assert!(r.is_err(), "C10: return without a frame did not fail");
    } else {
        assert!(r.is_ok(), "C05: return failed");
        if frames == 2 {
            assert!(ip_of(&state) == ret.map(|a| a as usize), "C05: return did not continue at the frame's return address");
            assert!(locals_are(&state, l0, l1), "C05: caller's frame is not current (or was modified) after return");
        } else {
            assert!(ip_of(&state) == None, "C05: return from the entry frame must end execution");
            assert!(state.frame_stack.get_locals().is_err(), "C05: entry frame still present after return");
        }
        assert!(stack_is(&mut state, &[Pointer::Integer(sentinel), v]), "C05: return must leave the result on the operand stack");
    }
    forget(r); forget(state); forget(program);
});

// ---------------------------------------------------------------------------------------------
// Array: pops initializer then size; size must be a non-negative integer; allocates exactly one cell (C16).

fn vm_array_body(max: i32) {
    let program = prog(filler_code(2), Vec::with_capacity(1));
    let (mut state, sentinel, l0, l1) = base_state(1);
    let size = any_pointer(1);
    let init = any_pointer(1);
    if let Pointer::Integer(n) = size { kani::assume(n <= max); }
    state.operand_stack.push(size);
    state.operand_stack.push(init);
    let r = eval_array(&program, &mut state);
    witness!(r.is_ok(), "W: array created");
    witness!(r.is_err(), "W: array rejected");
    match size {
        Pointer::Integer(n) if n >= 0 => {
            assert!(r.is_ok(), "C05: array of a non-negative size failed");
            assert!(heap_len(&state, 3) == 2, "C16: array creation must allocate exactly one cell");
            match state.heap.dereference(&HeapIndex::from(1usize)) {
                Ok(HeapObject::Array(a)) => {
                    assert!(a.length() == n as usize, "C05: array length differs from the size operand");
                    let mut i = 0;
                    while i < n as usize {
                        assert!(*a.get_element(i).unwrap() == init, "C05: array element differs from the initializer");
                        i += 1;
                    }
                }
                _ => { assert!(false, "C05: array instruction did not create an array"); }
            }
            assert!(stack_is(&mut state, &[Pointer::Integer(sentinel), Pointer::Reference(HeapIndex::from(1usize))]), "C13: array must pop initializer and size once and push the new reference");
            assert!(ip_of(&state) == Some(1), "C05: instruction pointer");
        }
        _ => {
            assert!(r.is_err(), "C10: array with a negative or non-integer size did not fail");
            assert!(heap_len(&state, 3) == 1, "C16: a failing array instruction allocated");
        }
    }
    assert!(locals_are(&state, l0, l1), "C05: array touched the frame");
    forget(r); forget(state); forget(program);
}

harness!(vm_array, unwind = 5, { vm_array_body(2) });

// ---------------------------------------------------------------------------------------------
// GetField / SetField on a heap of [object {f: x}, array]; receiver any pointer; name "f" / "g" / non-string

fn field_heap(x: Pointer) -> Vec<HeapObject> {
    let mut fields = IndexMap::new();
    fields.insert("f".to_string(), x);
    let mut mem = Vec::with_capacity(3);
    mem.push(HeapObject::new_object(Pointer::Null, fields, IndexMap::new()));
    let mut e = Vec::with_capacity(1);
    e.push(Pointer::Integer(7));
    mem.push(HeapObject::from_pointers(e));
    mem
}

fn field_program() -> Program {
    let mut cp = Vec::with_capacity(3);
    cp.push(ProgramObject::String("f".to_string()));
    cp.push(ProgramObject::String("g".to_string()));
    cp.push(ProgramObject::Boolean(true));
    prog(filler_code(2), cp)
}

fn field_of(state: &State) -> Option<Pointer> {
    match state.heap.dereference(&HeapIndex::from(0usize)) {
        Ok(HeapObject::Object(o)) => o.get_field("f").ok().map(|p| *p),
        _ => None,
    }
}

harness!(vm_get_field, unwind = 4, {
    let program = field_program();
    let x = any_pointer(2);
    let (mut state, sentinel, _l0, _l1) = base_state(0);
    state.heap = Heap::from(field_heap(x));
    let recv = any_pointer(2);
    state.operand_stack.push(recv);
    let index = any_u8_below(5) as u16;
    let r = eval_get_field(&program, &mut state, &cpi(index));
    let is_object = recv == Pointer::Reference(HeapIndex::from(0usize));
    witness!(r.is_ok(), "W: field read");
    witness!(r.is_err() && is_object, "W: unknown field rejected");
    witness!(r.is_err() && !is_object && index == 0, "W: non-object receiver rejected");
    if is_object && index == 0 {
        assert!(r.is_ok(), "C05: get slot of an existing field failed");
        assert!(stack_is(&mut state, &[Pointer::Integer(sentinel), x]), "C05: get slot pushed a different value");
        assert!(ip_of(&state) == Some(1), "C05: instruction pointer");
    } else {
        assert!(r.is_err(), "C10: get slot on a non-object / unknown field / non-string constant did not fail");
    }
    assert!(field_of(&state) == Some(x) && heap_len(&state, 3) == 2, "C05/C16: get slot modified the heap");
    forget(r); forget(state); forget(program);
});

/// Receiver is the object (concrete reference): name and value symbolic.
harness!(vm_set_field, unwind = 4, {
    let program = field_program();
    let x = any_pointer(2);
    let (mut state, sentinel, _l0, _l1) = base_state(0);
    state.heap = Heap::from(field_heap(x));
    let v = any_pointer(2);
    state.operand_stack.push(Pointer::Reference(HeapIndex::from(0usize))); // object first (deeper), value on top (C13)
    state.operand_stack.push(v);
    let index = any_u8_below(5) as u16;
    let r = eval_set_field(&program, &mut state, &cpi(index));
    witness!(r.is_ok(), "W: field written");
    witness!(r.is_err(), "W: unknown field rejected");
    if index == 0 {
        assert!(r.is_ok(), "C05: set slot of an existing field failed");
        assert!(field_of(&state) == Some(v), "C14: set slot did not update the object in place");
        assert!(stack_is(&mut state, &[Pointer::Integer(sentinel), v]), "C05: set slot must push the stored value");
        assert!(ip_of(&state) == Some(1), "C05: instruction pointer");
    } else {
        assert!(r.is_err(), "C10: set slot of an unknown field / non-string constant did not fail");
    }
    assert!(heap_len(&state, 3) == 2, "C16: set slot allocated");
    forget(r); forget(state); forget(program);
});

/// Receiver is an array: a failure, the heap stays as it was.
harness!(vm_set_field_on_array, unwind = 4, {
    let program = field_program();
    let (mut state, _sentinel, _l0, _l1) = base_state(0);
    state.heap = Heap::from(field_heap(Pointer::Integer(3)));
    state.operand_stack.push(Pointer::Reference(HeapIndex::from(1usize)));
    state.operand_stack.push(any_pointer(2));
    let r = eval_set_field(&program, &mut state, &cpi(0));
    witness!(r.is_err(), "W: array receiver rejected");
    assert!(r.is_err(), "C10: set slot on an array did not fail");
    assert!(field_of(&state) == Some(Pointer::Integer(3)) && heap_len(&state, 3) == 2, "C10: failing set slot modified the heap");
    forget(r); forget(state); forget(program);
});

/// Receiver is a primitive or a dangling reference: always a failure, the heap stays as it was.
harness!(vm_set_field_non_object, unwind = 4, {
    let program = field_program();
    let (mut state, _sentinel, _l0, _l1) = base_state(0);
    state.heap = Heap::from(field_heap(Pointer::Integer(3)));
    // primitives and a dangling reference (an array receiver is the thorough-tier harness below: with the receiver's
    // cell kind symbolic as well the run needs more than 12 GB)
    let k = any_u8_below(4);
    let recv = if k == 0 { Pointer::Null } else if k == 1 { Pointer::Integer(kani::any()) } else if k == 2 { Pointer::Boolean(kani::any()) }
        else { Pointer::Reference(HeapIndex::from(2usize)) };
    state.operand_stack.push(recv);
    state.operand_stack.push(any_pointer(2));
    let r = eval_set_field(&program, &mut state, &cpi(0));
    witness!(r.is_err(), "W: non-object receiver rejected");
    assert!(r.is_err(), "C10: set slot on a non-object did not fail");
    assert!(field_of(&state) == Some(Pointer::Integer(3)) && heap_len(&state, 3) == 2, "C10: failing set slot modified the heap");
    forget(r); forget(state); forget(program);
});

// Array built-ins (get / set through CallMethod), aliasing, object-method calls, function calls and object creation are
// decided on their MIR by smt/vm_kernels.py: a reference receiver makes CBMC explore the whole object-dispatch
// recursion (eval_call_method on a two-element array ran out of 12 GB).

// ---------------------------------------------------------------------------------------------
// C10 (iii): the loop stops at the first failing instruction; nothing after it runs.

harness!(vm_loop_stops_at_failure, unwind = 5, {
    let mut code = Vec::with_capacity(3);
    code.push(OpCode::Drop);                       // fails: the operand stack is empty
    code.push(OpCode::Literal { index: cpi(0) });  // must not run
    let mut cp = Vec::with_capacity(1);
    cp.push(ProgramObject::Integer(kani::any()));
    let program = prog(code, cp);
    let (mut state, _sentinel, l0, l1) = base_state(0);
    forget(state.operand_stack.pop());
    let mut out = String::new();
    let r = evaluate_with(&program, &mut state, &mut out);
    witness!(r.is_err(), "W: failing program stopped");
    assert!(r.is_err(), "C10: a failing instruction did not stop the program");
    assert!(out.is_empty(), "C10: a failing program wrote output");
    assert!(ip_of(&state) == Some(0), "C10: execution moved past the failing instruction");
    assert!(stack_is(&mut state, &[]) && locals_are(&state, l0, l1), "C10: an instruction after the failure ran");
    forget(r); forget(state); forget(program);
});

/// ...and runs to the end of the code when nothing fails (fetch loop, `Code::next`, fall off the end).
harness!(vm_loop_runs_to_end, unwind = 5, {
    let mut code = Vec::with_capacity(3);
    code.push(OpCode::Literal { index: cpi(0) });
    code.push(OpCode::SetLocal { index: lfi(1) });
    code.push(OpCode::Drop);
    let k: i32 = kani::any();
    let mut cp = Vec::with_capacity(1);
    cp.push(ProgramObject::Integer(k));
    let program = prog(code, cp);
    let (mut state, sentinel, l0, _l1) = base_state(0);
    let mut out = String::new();
    let r = evaluate_with(&program, &mut state, &mut out);
    witness!(r.is_ok(), "W: program ran to its end");
    assert!(r.is_ok() && out.is_empty(), "C05: a three-instruction program failed");
    assert!(ip_of(&state) == None, "C05: execution did not end after the last instruction");
    assert!(locals_are(&state, l0, Pointer::Integer(k)), "C05: literal; set local 1; drop did not store the literal");
    assert!(stack_is(&mut state, &[Pointer::Integer(sentinel)]), "C05: literal; set local; drop must leave the stack as it was");
    forget(r); forget(state); forget(program);
});

// ---------------------------------------------------------------------------------------------
// eval_opcode routes every instruction kind to its kernel (opcode passed by value; one harness, kind symbolic
// over the kinds whose kernels do not allocate vectors: the others are exercised through their own harnesses).

harness!(vm_routing, unwind = 4, {
    let mut cp = Vec::with_capacity(2);
    cp.push(ProgramObject::Integer(5));
    cp.push(ProgramObject::String("L".to_string()));
    let mut program = prog(filler_code(3), cp);
    let name = ProgramObject::String("L".to_string());
    let mut pairs = Vec::with_capacity(1);
    pairs.push((&name, Address::from_u32(2)));
    program.labels = Labels::from(pairs).unwrap();
    forget(name);
    let (mut state, sentinel, l0, l1) = base_state(0);
    let v = any_pointer(0);
    state.operand_stack.push(v);
    let k = any_u8_below(7);
    let op = match k {
        0 => OpCode::Literal { index: cpi(0) },
        1 => OpCode::GetLocal { index: lfi(1) },
        2 => OpCode::SetLocal { index: lfi(0) },
        3 => OpCode::Label { name: cpi(1) },
        4 => OpCode::Jump { label: cpi(1) },
        5 => OpCode::Drop,
        _ => OpCode::Return,
    };
    let mut out = String::new();
    let r = eval_opcode(&program, &mut state, &mut out, &op);
    witness!(r.is_ok() && k == 4, "W: jump routed");
    assert!(r.is_ok() && out.is_empty(), "C05: routed instruction failed");
    let s = Pointer::Integer(sentinel);
    match k {
        0 => { assert!(stack_is(&mut state, &[s, v, Pointer::Integer(5)]) && ip_of(&state) == Some(1), "C05: Literal routed to a different kernel"); }
        1 => { assert!(stack_is(&mut state, &[s, v, l1]) && ip_of(&state) == Some(1), "C05: GetLocal routed to a different kernel"); }
        2 => { assert!(locals_are(&state, v, l1) && stack_is(&mut state, &[s, v]) && ip_of(&state) == Some(1), "C05: SetLocal routed to a different kernel"); }
        3 => { assert!(stack_is(&mut state, &[s, v]) && ip_of(&state) == Some(1), "C05: Label routed to a different kernel"); }
        4 => { assert!(stack_is(&mut state, &[s, v]) && ip_of(&state) == Some(2), "C05: Jump routed to a different kernel"); }
        5 => { assert!(stack_is(&mut state, &[s]) && ip_of(&state) == Some(1), "C05: Drop routed to a different kernel"); }
        _ => { assert!(stack_is(&mut state, &[s, v]) && ip_of(&state) == None && state.frame_stack.get_locals().is_err(), "C05: Return routed to a different kernel"); }
    }
    forget(r); forget(state); forget(program);
});
