//! Harness crate for the solver-based checks of kondziu/FML.
//!
//! The repository's sources are included unchanged by path, so every run compiles
//! `/repo/src/**` as it is at that moment. `std::collections::{HashMap,HashSet}` and
//! `indexmap::IndexMap` are replaced by association-list models through Cargo dependency
//! substitution (see models/), never by editing the sources.
#![allow(dead_code, unused_imports, unused_macros, unused_variables, unused_mut, unreachable_code)]

#[path = "/repo/src/parser/mod.rs"]
pub mod parser;
#[path = "/repo/src/bytecode/mod.rs"]
pub mod bytecode;

#[macro_use]
pub mod util;
pub mod refmodel;

pub mod h_c09;
pub mod h_ser;
pub mod h_vm;
pub mod h_print;
pub mod h_compile;
pub mod h_heap;
pub mod h_parse;
