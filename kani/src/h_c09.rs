//! C09 — built-in integer / boolean / null operations through `eval_call_method`.
//!
//! One harness per (receiver kind, operation, spelling). Receiver payload, argument kind and
//! argument payload are symbolic, so one query covers the whole 2^32 x 2^32 operand space and every
//! cross-kind pair. Harnesses named `*_r9` cover exactly the reference-undefined arithmetic cases
//! (zero divisor, MIN / -1), where Rust's own arithmetic panic is the accepted failure (DESIGN R9).
use crate::bytecode::heap::*;
use crate::bytecode::interpreter::*;
use crate::bytecode::program::*;
use crate::bytecode::state::*;
use crate::refmodel::builtin::*;
use crate::util::*;
use std::mem::forget;

fn any_receiver(tag: u8) -> Pointer {
    if tag == T_NULL {
        Pointer::Null
    } else if tag == T_INT {
        Pointer::Integer(kani::any())
    } else {
        Pointer::Boolean(kani::any())
    }
}

/// The numeric result of `*`, `/` and `%` is decided by the MIR/z3 engine (smt/mirsym.py): comparing two
/// 32-bit multiplier or divider circuits is out of reach for the SAT back end (a `/` harness ran 30 min
/// without a verdict). Here those three operations are checked for everything else: success exactly when the
/// reference defines a result, result kind, operand-stack discipline, instruction pointer.
fn numeric_in_kani(op: u8) -> bool {
    !(op == OP_MUL || op == OP_DIV || op == OP_MOD)
}

/// Every case in which no Rust arithmetic panic is the accepted outcome.
fn run_builtin(recv_tag: u8, op: u8, feeny: bool) {
    let names = op_names(op);
    let name = if feeny { names.1 } else { names.0 };
    let mut cp = Vec::with_capacity(1);
    cp.push(ProgramObject::String(name.to_string()));
    let program = prog(filler_code(2), cp);
    let mut state = plain_state();

    let recv = any_receiver(recv_tag);
    let arg = any_pointer(1);
    let sentinel: i32 = kani::any();
    state.operand_stack.push(Pointer::Integer(sentinel));
    state.operand_stack.push(recv);
    state.operand_stack.push(arg);

    let (rv, av) = (RVal::of(&recv), RVal::of(&arg));
    let expected = ref_builtin(rv, op, av);
    if recv_tag == T_INT && (op == OP_DIV || op == OP_MOD) {
        // zero divisor and MIN / -1 are the `_r9` harnesses; MIN % -1 is a don't-care (DESIGN 4.1)
        kani::assume(!(av.tag == T_INT && (av.int == 0 || (rv.int == i32::MIN && av.int == -1))));
    }

    let r = eval_call_method(&program, &mut state, &ConstantPoolIndex::new(0), &Arity::new(2));

    witness!(r.is_ok() == expected.is_some(), "W: reached the comparison");
    match expected {
        Some(v) => {
            assert!(r.is_ok(), "C09: operation defined by the reference failed");
            let top = state.operand_stack.pop().unwrap();
            if recv_tag != T_INT || numeric_in_kani(op) {
                assert!(v.same(&top), "C09: result differs from the reference table");
            } else {
                assert!(RVal::of(&top).tag == T_INT, "C09: arithmetic result is not an integer");
            }
            let below = state.operand_stack.pop().unwrap();
            assert!(below == Pointer::Integer(sentinel), "C09: operands were not popped exactly");
            assert!(state.operand_stack.pop().is_err(), "C09: stack deeper than expected");
            assert!(ip_of(&state) == Some(1), "C09: instruction pointer not advanced by one");
        }
        None => {
            assert!(r.is_err(), "C09: operation undefined by the reference did not fail");
        }
    }
    forget(r);
    forget(state);
    forget(program);
}

/// Zero divisor (every dividend) and MIN / -1: Rust's division panic or an Err, never a value.
fn run_division_failure(op: u8, feeny: bool) {
    let names = op_names(op);
    let name = if feeny { names.1 } else { names.0 };
    let mut cp = Vec::with_capacity(1);
    cp.push(ProgramObject::String(name.to_string()));
    let program = prog(filler_code(2), cp);
    let mut state = plain_state();
    let a: i32 = kani::any();
    let b: i32 = kani::any();
    if op == OP_DIV {
        kani::assume(b == 0 || (a == i32::MIN && b == -1));
    } else {
        kani::assume(b == 0);
    }
    state.operand_stack.push(Pointer::Integer(a));
    state.operand_stack.push(Pointer::Integer(b));
    let r = eval_call_method(&program, &mut state, &ConstantPoolIndex::new(0), &Arity::new(2));
    witness!(r.is_ok(), "U: an undefined division returned Ok");
    assert!(r.is_err(), "C09: division undefined by the reference returned a value");
    forget(r);
    forget(state);
    forget(program);
}

macro_rules! c09_op {
    ($sym:ident, $feeny:ident, $tag:expr, $op:expr) => {
        harness!($sym, unwind = 5, { run_builtin($tag, $op, false) });
        harness!($feeny, unwind = 5, { run_builtin($tag, $op, true) });
    };
}

// integer receiver
c09_op!(c09_int_add_sym, c09_int_add_feeny, T_INT, OP_ADD);
c09_op!(c09_int_sub_sym, c09_int_sub_feeny, T_INT, OP_SUB);
c09_op!(c09_int_mul_sym, c09_int_mul_feeny, T_INT, OP_MUL);
c09_op!(c09_int_div_sym, c09_int_div_feeny, T_INT, OP_DIV);
c09_op!(c09_int_mod_sym, c09_int_mod_feeny, T_INT, OP_MOD);
c09_op!(c09_int_le_sym, c09_int_le_feeny, T_INT, OP_LE);
c09_op!(c09_int_ge_sym, c09_int_ge_feeny, T_INT, OP_GE);
c09_op!(c09_int_lt_sym, c09_int_lt_feeny, T_INT, OP_LT);
c09_op!(c09_int_gt_sym, c09_int_gt_feeny, T_INT, OP_GT);
c09_op!(c09_int_eq_sym, c09_int_eq_feeny, T_INT, OP_EQ);
c09_op!(c09_int_neq_sym, c09_int_neq_feeny, T_INT, OP_NEQ);
c09_op!(c09_int_and_sym, c09_int_and_feeny, T_INT, OP_AND);
c09_op!(c09_int_or_sym, c09_int_or_feeny, T_INT, OP_OR);
// boolean receiver
c09_op!(c09_bool_and_sym, c09_bool_and_feeny, T_BOOL, OP_AND);
c09_op!(c09_bool_or_sym, c09_bool_or_feeny, T_BOOL, OP_OR);
c09_op!(c09_bool_eq_sym, c09_bool_eq_feeny, T_BOOL, OP_EQ);
c09_op!(c09_bool_neq_sym, c09_bool_neq_feeny, T_BOOL, OP_NEQ);
c09_op!(c09_bool_add_sym, c09_bool_add_feeny, T_BOOL, OP_ADD);
c09_op!(c09_bool_sub_sym, c09_bool_sub_feeny, T_BOOL, OP_SUB);
c09_op!(c09_bool_mul_sym, c09_bool_mul_feeny, T_BOOL, OP_MUL);
c09_op!(c09_bool_div_sym, c09_bool_div_feeny, T_BOOL, OP_DIV);
c09_op!(c09_bool_mod_sym, c09_bool_mod_feeny, T_BOOL, OP_MOD);
c09_op!(c09_bool_le_sym, c09_bool_le_feeny, T_BOOL, OP_LE);
c09_op!(c09_bool_ge_sym, c09_bool_ge_feeny, T_BOOL, OP_GE);
c09_op!(c09_bool_lt_sym, c09_bool_lt_feeny, T_BOOL, OP_LT);
c09_op!(c09_bool_gt_sym, c09_bool_gt_feeny, T_BOOL, OP_GT);
// null receiver
c09_op!(c09_null_eq_sym, c09_null_eq_feeny, T_NULL, OP_EQ);
c09_op!(c09_null_neq_sym, c09_null_neq_feeny, T_NULL, OP_NEQ);
c09_op!(c09_null_add_sym, c09_null_add_feeny, T_NULL, OP_ADD);
c09_op!(c09_null_sub_sym, c09_null_sub_feeny, T_NULL, OP_SUB);
c09_op!(c09_null_mul_sym, c09_null_mul_feeny, T_NULL, OP_MUL);
c09_op!(c09_null_div_sym, c09_null_div_feeny, T_NULL, OP_DIV);
c09_op!(c09_null_mod_sym, c09_null_mod_feeny, T_NULL, OP_MOD);
c09_op!(c09_null_le_sym, c09_null_le_feeny, T_NULL, OP_LE);
c09_op!(c09_null_ge_sym, c09_null_ge_feeny, T_NULL, OP_GE);
c09_op!(c09_null_lt_sym, c09_null_lt_feeny, T_NULL, OP_LT);
c09_op!(c09_null_gt_sym, c09_null_gt_feeny, T_NULL, OP_GT);
c09_op!(c09_null_and_sym, c09_null_and_feeny, T_NULL, OP_AND);
c09_op!(c09_null_or_sym, c09_null_or_feeny, T_NULL, OP_OR);

// R9: zero divisor and MIN / -1. Only Rust's division panics (or an Err) are accepted here.
harness!(c09_int_div_sym_r9, unwind = 5, { run_division_failure(OP_DIV, false) });
harness!(c09_int_div_feeny_r9, unwind = 5, { run_division_failure(OP_DIV, true) });
harness!(c09_int_mod_sym_r9, unwind = 5, { run_division_failure(OP_MOD, false) });
harness!(c09_int_mod_feeny_r9, unwind = 5, { run_division_failure(OP_MOD, true) });

fn documented(name: &[u8]) -> bool {
    const ALL: [&str; 26] = ["+", "-", "*", "/", "%", "<=", ">=", "<", ">", "==", "!=", "&", "|",
                             "add", "sub", "mul", "div", "mod", "le", "ge", "lt", "gt", "eq", "neq", "and", "or"];
    let mut i = 0;
    while i < 26 {
        let d = ALL[i].as_bytes();
        if d.len() == name.len() {
            let mut same = true;
            let mut j = 0;
            while j < d.len() {
                if d[j] != name[j] { same = false; }
                j += 1;
            }
            if same { return true; }
        }
        i += 1;
    }
    false
}

/// A method name outside the documented set always fails on a primitive receiver.
fn run_unknown(recv_tag: u8, len: usize) {
    let mut bytes = Vec::with_capacity(len);
    let mut i = 0;
    while i < len {
        let b: u8 = kani::any();
        kani::assume(b >= 0x21 && b < 0x7f);
        bytes.push(b);
        i += 1;
    }
    kani::assume(!documented(&bytes));
    let name = unsafe { String::from_utf8_unchecked(bytes) };
    let mut cp = Vec::with_capacity(1);
    cp.push(ProgramObject::String(name));
    let program = prog(filler_code(2), cp);
    let mut state = plain_state();
    state.operand_stack.push(any_receiver(recv_tag));
    state.operand_stack.push(any_pointer(1));
    let r = eval_call_method(&program, &mut state, &ConstantPoolIndex::new(0), &Arity::new(2));
    witness!(r.is_err(), "W: unknown method reached");
    assert!(r.is_err(), "C09: a method outside the documented set succeeded on a primitive receiver");
    forget(r);
    forget(state);
    forget(program);
}

harness!(c09_unknown_int_len1, unwind = 28, { run_unknown(T_INT, 1) });
harness!(c09_unknown_int_len2, unwind = 28, { run_unknown(T_INT, 2) });
harness!(c09_unknown_int_len3, unwind = 28, { run_unknown(T_INT, 3) });
harness!(c09_unknown_bool_len1, unwind = 28, { run_unknown(T_BOOL, 1) });
harness!(c09_unknown_bool_len2, unwind = 28, { run_unknown(T_BOOL, 2) });
harness!(c09_unknown_bool_len3, unwind = 28, { run_unknown(T_BOOL, 3) });
harness!(c09_unknown_null_len1, unwind = 28, { run_unknown(T_NULL, 1) });
harness!(c09_unknown_null_len2, unwind = 28, { run_unknown(T_NULL, 2) });
harness!(c09_unknown_null_len3, unwind = 28, { run_unknown(T_NULL, 3) });

/// Built-ins take exactly one argument: receiver alone (arity 1) or two arguments (arity 3) fail.
fn run_arity(recv_tag: u8, arity: u8) {
    let op = any_u8_below(13);
    kani::assume(op_names(op).0.len() == 1); // R1: one name length per harness; single-character symbols
    let mut cp = Vec::with_capacity(1);
    cp.push(ProgramObject::String(op_names(op).0.to_string()));
    let program = prog(filler_code(2), cp);
    let mut state = plain_state();
    state.operand_stack.push(Pointer::Integer(kani::any()));
    state.operand_stack.push(any_receiver(recv_tag));
    if arity == 3 {
        state.operand_stack.push(any_pointer(1));
        state.operand_stack.push(any_pointer(1));
    }
    let r = eval_call_method(&program, &mut state, &ConstantPoolIndex::new(0), &Arity::new(arity));
    witness!(r.is_err(), "W: arity mismatch reached");
    assert!(r.is_err(), "C09: built-in accepted a wrong number of arguments");
    forget(r);
    forget(state);
    forget(program);
}

harness!(c09_arity1_int, unwind = 5, { run_arity(T_INT, 1) });
harness!(c09_arity3_int, unwind = 5, { run_arity(T_INT, 3) });
harness!(c09_arity1_bool, unwind = 5, { run_arity(T_BOOL, 1) });
harness!(c09_arity3_bool, unwind = 5, { run_arity(T_BOOL, 3) });
harness!(c09_arity1_null, unwind = 5, { run_arity(T_NULL, 1) });
harness!(c09_arity3_null, unwind = 5, { run_arity(T_NULL, 3) });

// The oracle's own division / multiplication semantics, pinned against the mathematical definition
// on a range where the solver can afford a symbolic multiplier (8- and 16-bit operands).
harness!(c09_ref_division_semantics, unwind = 2, {
    let a = kani::any::<i8>() as i32;
    let b = kani::any::<i8>() as i32;
    kani::assume(b != 0);
    let q = ref_builtin(RVal::int(a), OP_DIV, RVal::int(b)).unwrap().int;
    let r = ref_builtin(RVal::int(a), OP_MOD, RVal::int(b)).unwrap().int;
    witness!(a < 0 && b > 0 && r != 0, "W: negative dividend with remainder");
    assert!(q * b + r == a, "reference: q*b + r == a");
    let (ar, ab) = (if r < 0 { -r } else { r }, if b < 0 { -b } else { b });
    assert!(ar < ab, "reference: |r| < |b| (truncation toward zero)");
    assert!(r == 0 || (r < 0) == (a < 0), "reference: remainder takes the dividend's sign");
    assert!(ref_builtin(RVal::int(kani::any()), OP_DIV, RVal::int(0)).is_none());
    assert!(ref_builtin(RVal::int(kani::any()), OP_MOD, RVal::int(0)).is_none());
    assert!(ref_builtin(RVal::int(i32::MIN), OP_DIV, RVal::int(-1)).is_none());
    assert!(ref_builtin(RVal::int(i32::MIN), OP_DIV, RVal::int(1)) == Some(RVal::int(i32::MIN)));
});

harness!(c09_ref_multiplication_semantics, unwind = 2, {
    let a = kani::any::<i16>() as i32;
    let b = kani::any::<i16>() as i32;
    let p = ref_builtin(RVal::int(a), OP_MUL, RVal::int(b)).unwrap().int;
    witness!(a == -3 && b == 7, "W: signed product");
    assert!(p as i64 == (a as i64) * (b as i64), "reference: product of 16-bit operands is exact");
    // wrap-around witnesses at full width
    assert!(ref_builtin(RVal::int(i32::MAX), OP_MUL, RVal::int(2)) == Some(RVal::int(-2)));
    assert!(ref_builtin(RVal::int(i32::MIN), OP_MUL, RVal::int(-1)) == Some(RVal::int(i32::MIN)));
    assert!(ref_builtin(RVal::int(65536), OP_MUL, RVal::int(65536)) == Some(RVal::int(0)));
    assert!(ref_builtin(RVal::int(i32::MAX), OP_ADD, RVal::int(1)) == Some(RVal::int(i32::MIN)));
    assert!(ref_builtin(RVal::int(i32::MIN), OP_SUB, RVal::int(1)) == Some(RVal::int(i32::MAX)));
});


