//! C02 / C12 / C11 — the compiler, one AST node (or one scope operation) at a time through the real
//! `Compiled::compile_into`, against (a) the per-arm code schema with its net operand-stack effect and (b) a
//! reference resolver for the README's block scoping rules.
//!
//! Frame kinds: `Local` (inside a function body), `Top` at the outermost scope (lets are globals), `Top` inside a
//! block (lets are locals of the entry frame). Names are symbolic over {x, y} (one byte each, R1); `keep_result`
//! is symbolic. The kinds of the scope operations are the shape of a harness, the names its content.
use crate::bytecode::bytecode::OpCode;
use crate::bytecode::compiler::{Compiled, Environment, Frame as CFrame, LabelGenerator, ProgramGenerator};
use crate::bytecode::program::*;
use crate::parser::*;
use crate::util::*;
use std::mem::forget;

pub const F_LOCAL: u8 = 0;
pub const F_TOP: u8 = 1;
pub const F_TOP_BLOCK: u8 = 2;

fn generator() -> ProgramGenerator {
    ProgramGenerator {
        constant_pool: ConstantPool::from(Vec::<ProgramObject>::with_capacity(8)),
        labels: LabelGenerator::new(),
        completed_code: Code::from(Vec::with_capacity(8)),
        globals: Globals::from(Vec::with_capacity(4)),
        entry: Entry::new(),
    }
}

fn name_of(k: u8) -> &'static str { if k == 0 { "x" } else { "y" } }
fn any_name() -> u8 { any_u8_below(2) }

struct Ctx {
    generator: ProgramGenerator,
    buffer: Code,
    genv: Environment,
    frame: CFrame,
    kind: u8,
}

impl Ctx {
    fn new(kind: u8) -> Ctx {
        let mut genv = Environment::new();
        if kind == F_TOP_BLOCK { genv.enter_scope(); }
        let frame = if kind == F_LOCAL { CFrame::new() } else { CFrame::Top };
        Ctx { generator: generator(), buffer: Code::from(Vec::with_capacity(12)), genv, frame, kind }
    }
    fn compile(&mut self, ast: &AST, keep: bool) -> bool {
        let r = ast.compile_into(&mut self.generator, &mut self.buffer, &mut self.genv, &mut self.frame, keep);
        let ok = r.is_ok();
        forget(r);
        ok
    }
    fn enter(&mut self) {
        match &mut self.frame { CFrame::Local(env) => env.enter_scope(), CFrame::Top => self.genv.enter_scope() }
    }
    fn leave(&mut self) {
        match &mut self.frame { CFrame::Local(env) => env.leave_scope(), CFrame::Top => self.genv.leave_scope() }
    }
    fn op(&self, i: usize) -> Option<OpCode> {
        self.buffer.get(Address::from_usize(i)).ok().map(|o| *o)
    }
    fn len(&self) -> usize { self.buffer.length() }
    fn string_at(&self, index: &ConstantPoolIndex, expected: &str) -> bool {
        match self.generator.constant_pool.get(index) {
            Ok(ProgramObject::String(s)) => s.as_str() == expected,
            _ => false,
        }
    }
    fn finish(self) {
        forget(self.generator); forget(self.buffer); forget(self.genv); forget(self.frame);
    }
}

/// Net operand-stack effect of straight-line code made of the instructions the leaf arms emit; None if the depth
/// ever goes negative or an instruction outside that set appears.
fn net_effect(c: &Ctx, from: usize) -> Option<i32> {
    let mut depth = 0i32;
    let mut i = from;
    while i < c.len() {
        match c.op(i) {
            Some(OpCode::Literal { .. }) | Some(OpCode::GetLocal { .. }) | Some(OpCode::GetGlobal { .. }) => { depth += 1; }
            Some(OpCode::SetLocal { .. }) | Some(OpCode::SetGlobal { .. }) => { if depth < 1 { return None; } }
            Some(OpCode::Drop) => { if depth < 1 { return None; } depth -= 1; }
            _ => { return None; }
        }
        i += 1;
    }
    Some(depth)
}

// ---------------------------------------------------------------------------------------------
// C02: literal arms

/// The literal's kind is concrete per harness (a symbolic AST kind makes CBMC explore all 23 arms of compile_into:
/// 900 s cap exceeded at 12 GB); its value, `keep_result` and — through the harness family — the frame kind vary.
fn literal_arm(kind: u8, which: u8) {
    let mut c = Ctx::new(kind);
    let (v, b): (i32, bool) = (kani::any(), kani::any());
    let ast = if which == 0 { AST::Integer(v) } else if which == 1 { AST::Boolean(b) } else { AST::Null };
    let keep: bool = kani::any();
    let ok = c.compile(&ast, keep);
    witness!(ok && !keep, "W: discarded literal compiled");
    assert!(ok, "C02: a literal failed to compile");
    assert!(c.len() == if keep { 1 } else { 2 }, "C02: literal arm emitted a different number of instructions");
    match c.op(0) {
        Some(OpCode::Literal { index }) => {
            let constant = c.generator.constant_pool.get(&index);
            let right = match constant {
                Ok(ProgramObject::Integer(i)) => which == 0 && *i == v,
                Ok(ProgramObject::Boolean(x)) => which == 1 && *x == b,
                Ok(ProgramObject::Null) => which == 2,
                _ => false,
            };
            assert!(right, "C02: literal refers to a constant of a different kind or value");
        }
        _ => { assert!(false, "C02: literal arm did not emit a literal instruction"); }
    }
    if !keep { assert!(c.op(1) == Some(OpCode::Drop), "C02: discarded literal is not dropped"); }
    assert!(net_effect(&c, 0) == Some(if keep { 1 } else { 0 }), "C02: literal arm is not stack-balanced");
    forget(ast);
    c.finish();
}

harness!(compile_integer_local, unwind = 5, { literal_arm(F_LOCAL, 0) });
harness!(compile_integer_top, unwind = 5, { literal_arm(F_TOP, 0) });
harness!(compile_integer_top_block, unwind = 5, { literal_arm(F_TOP_BLOCK, 0) });
harness!(compile_boolean_local, unwind = 5, { literal_arm(F_LOCAL, 1) });
harness!(compile_boolean_top, unwind = 5, { literal_arm(F_TOP, 1) });
harness!(compile_null_local, unwind = 5, { literal_arm(F_LOCAL, 2) });
harness!(compile_null_top_block, unwind = 5, { literal_arm(F_TOP_BLOCK, 2) });

// ---------------------------------------------------------------------------------------------
// C12 reference resolver: README block scoping over two names.

#[derive(Clone, Copy)]
struct RefScopes {
    // up to 6 definitions: (scope id, name, slot); scope stack of ids
    defs: [(u8, u8, u16); 6],
    n_defs: usize,
    stack: [u8; 6],
    depth: usize,
    next_scope: u8,
    next_slot: u16,
}

impl RefScopes {
    fn new(kind: u8) -> RefScopes {
        let mut r = RefScopes { defs: [(0, 0, 0); 6], n_defs: 0, stack: [0; 6], depth: 1, next_scope: 1, next_slot: 0 };
        if kind == F_TOP_BLOCK { r.enter(); }
        r
    }
    fn enter(&mut self) { self.stack[self.depth] = self.next_scope; self.next_scope += 1; self.depth += 1; }
    fn leave(&mut self) { self.depth -= 1; }
    fn outermost(&self) -> bool { self.depth == 1 }
    /// innermost visible definition of `name`
    fn lookup(&self, name: u8) -> Option<u16> {
        let mut d = self.depth;
        while d > 0 {
            d -= 1;
            let scope = self.stack[d];
            let mut i = 0;
            while i < self.n_defs {
                if self.defs[i].0 == scope && self.defs[i].1 == name { return Some(self.defs[i].2); }
                i += 1;
            }
        }
        None
    }
    fn defined_here(&self, name: u8) -> bool {
        let scope = self.stack[self.depth - 1];
        let mut i = 0;
        while i < self.n_defs {
            if self.defs[i].0 == scope && self.defs[i].1 == name { return true; }
            i += 1;
        }
        false
    }
    fn define(&mut self, name: u8) -> u16 {
        let slot = self.next_slot;
        self.defs[self.n_defs] = (self.stack[self.depth - 1], name, slot);
        self.n_defs += 1;
        self.next_slot += 1;
        slot
    }
}

pub const OP_LET: u8 = b'L';
pub const OP_READ: u8 = b'R';
pub const OP_ASSIGN: u8 = b'A';
pub const OP_ENTER: u8 = b'E';
pub const OP_LEAVE: u8 = b'X';

/// Runs a sequence of scope operations (its kinds are the harness's shape; every name is symbolic) and compares
/// each emitted access with the reference resolver.
fn scope_sequence(kind: u8, ops: &[u8]) {
    let mut c = Ctx::new(kind);
    let mut r = RefScopes::new(kind);
    let mut global_defined = [false; 2];
    let mut k = 0;
    while k < ops.len() {
        let op = ops[k];
        if op == OP_ENTER { c.enter(); r.enter(); }
        if op == OP_LEAVE { c.leave(); r.leave(); }
        if op == OP_LET || op == OP_READ || op == OP_ASSIGN {
            let n = any_name();
            let keep: bool = kani::any();
            let global_scope = kind != F_LOCAL && r.outermost();
            if op == OP_LET {
                // a second `let` of a name in the same scope is outside the fragment (DESIGN 4.1)
                kani::assume(global_scope || !r.defined_here(n));
            }
            let start = c.len();
            let ast = if op == OP_LET { AST::Variable { name: Identifier(name_of(n).to_string()), value: Box::new(AST::Null) } }
                else if op == OP_ASSIGN { AST::AssignVariable { name: Identifier(name_of(n).to_string()), value: Box::new(AST::Null) } }
                else { AST::AccessVariable { name: Identifier(name_of(n).to_string()) } };
            if op == OP_LET && global_scope {
                // a top-level let outside any block defines a global; defining the same global twice is an error of
                // the program (outside the fragment), so each global name is introduced at most once per sequence
                kani::assume(!global_defined[n as usize]);
                global_defined[n as usize] = true;
            }
            let ok = c.compile(&ast, keep);
            assert!(ok, "C12: a scope operation failed to compile");
            let access = if op == OP_READ { start } else { start + 1 };
            let expect_len = (if op == OP_READ { 1 } else { 2 }) + (if keep { 0 } else { 1 });
            assert!(c.len() == start + expect_len, "C02: variable arm emitted a different number of instructions");
            if op != OP_READ {
                assert!(matches!(c.op(start), Some(OpCode::Literal { .. })), "C02: the value is not evaluated before the store");
            }
            if !keep { assert!(c.op(c.len() - 1) == Some(OpCode::Drop), "C02: a discarded variable expression is not dropped"); }
            assert!(net_effect(&c, start) == Some(if keep { 1 } else { 0 }), "C02: variable arm is not stack-balanced");
            let emitted = c.op(access);
            if op == OP_LET && !global_scope {
                let slot = r.define(n);
                assert!(emitted == Some(OpCode::SetLocal { index: LocalFrameIndex::new(slot) }),
                        "C12: a let inside a block / function must take a fresh local slot (shadowing never reuses one)");
            } else if op == OP_LET {
                match emitted {
                    Some(OpCode::SetGlobal { name }) => { assert!(c.string_at(&name, name_of(n)), "C12: top-level let stores into a differently named global"); }
                    _ => { assert!(false, "C12: a let at the outermost top-level scope must define a global"); }
                }
            } else {
                let visible = if global_scope { None } else { r.lookup(n) };
                match visible {
                    Some(slot) => {
                        let want = if op == OP_READ { OpCode::GetLocal { index: LocalFrameIndex::new(slot) } } else { OpCode::SetLocal { index: LocalFrameIndex::new(slot) } };
                        assert!(emitted == Some(want), "C12: access does not resolve to the innermost visible definition");
                    }
                    None => {
                        match (op == OP_READ, emitted) {
                            (true, Some(OpCode::GetGlobal { name })) | (false, Some(OpCode::SetGlobal { name })) => {
                                assert!(c.string_at(&name, name_of(n)), "C12: global access under a different name");
                            }
                            _ => { assert!(false, "C12: a name with no visible local definition must resolve to a global (a left scope's names are invisible)"); }
                        }
                    }
                }
            }
            forget(ast);
        }
        k += 1;
    }
    witness!(true, "W: sequence completed");
    c.finish();
}

macro_rules! scope_seq {
    ($local:ident, $top:ident, $block:ident, $ops:expr) => {
        harness!($local, unwind = 7, { scope_sequence(F_LOCAL, $ops) });
        harness!($top, unwind = 7, { scope_sequence(F_TOP, $ops) });
        harness!($block, unwind = 7, { scope_sequence(F_TOP_BLOCK, $ops) });
    };
}

scope_seq!(scope_r_local, scope_r_top, scope_r_block, b"R");
scope_seq!(scope_l_local, scope_l_top, scope_l_block, b"L");
scope_seq!(scope_a_local, scope_a_top, scope_a_block, b"A");
scope_seq!(scope_lr_local, scope_lr_top, scope_lr_block, b"LR");
scope_seq!(scope_la_local, scope_la_top, scope_la_block, b"LA");
scope_seq!(scope_ll_local, scope_ll_top, scope_ll_block, b"LL");
scope_seq!(scope_elr_local, scope_elr_top, scope_elr_block, b"ELR");
scope_seq!(scope_lelr_local, scope_lelr_top, scope_lelr_block, b"LELR");
scope_seq!(scope_elxr_local, scope_elxr_top, scope_elxr_block, b"ELXR");
scope_seq!(scope_lelxr_local, scope_lelxr_top, scope_lelxr_block, b"LELXR");
scope_seq!(scope_lelxa_local, scope_lelxa_top, scope_lelxa_block, b"LELXA");
scope_seq!(scope_elxelr_local, scope_elxelr_top, scope_elxelr_block, b"ELXELR");
scope_seq!(scope_lelar_local, scope_lelar_top, scope_lelar_block, b"LELAR");
// sibling blocks: a name declared in a block that has ended is invisible in a later block
scope_seq!(scope_elxer_local, scope_elxer_top, scope_elxer_block, b"ELXER");
scope_seq!(scope_elxea_local, scope_elxea_top, scope_elxea_block, b"ELXEA");
