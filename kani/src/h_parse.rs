//! C07 — the operator fold: `head o1 a o2 b o3 c` folds to `((head o1 a) o2 b) o3 c` as nested method calls, and an
//! operator becomes the method call named by its documented symbol. Operators are symbolic inside a class of equal
//! symbol length (R1: `Identifier::from(Operator)` allocates the symbol's bytes; nine one-character and four
//! two-character operators).
use crate::parser::*;
use crate::util::*;
use std::mem::forget;

fn op_len1() -> Operator {
    match any_u8_below(9) {
        0 => Operator::Multiplication, 1 => Operator::Division, 2 => Operator::Module, 3 => Operator::Addition, 4 => Operator::Subtraction,
        5 => Operator::Less, 6 => Operator::Greater, 7 => Operator::Disjunction, _ => Operator::Conjunction,
    }
}

fn op_len2() -> Operator {
    match any_u8_below(4) {
        0 => Operator::Inequality, 1 => Operator::Equality, 2 => Operator::LessEqual, _ => Operator::GreaterEqual,
    }
}

/// The README's symbol of every operator, independently of `Operator::as_str`.
fn documented_symbol(o: Operator) -> &'static [u8] {
    match o {
        Operator::Multiplication => b"*", Operator::Division => b"/", Operator::Module => b"%", Operator::Addition => b"+",
        Operator::Subtraction => b"-", Operator::Inequality => b"!=", Operator::Equality => b"==", Operator::Less => b"<",
        Operator::LessEqual => b"<=", Operator::Greater => b">", Operator::GreaterEqual => b">=", Operator::Disjunction => b"|",
        Operator::Conjunction => b"&",
    }
}

fn named(id: &Identifier, o: Operator) -> bool {
    let (a, b) = (id.as_str().as_bytes(), documented_symbol(o));
    a.len() == b.len() && a[0] == b[0] && (a.len() == 1 || a[1] == b[1])
}

/// `obj` is `CallMethod { object: inner, name: symbol(o), arguments: [Integer(arg)] }`; returns inner.
fn peel(obj: &AST, o: Operator, arg: i32) -> Option<&AST> {
    match obj {
        AST::CallMethod { object, name, arguments } => {
            if !named(name, o) || arguments.len() != 1 { return None; }
            match &*arguments[0] { AST::Integer(v) if *v == arg => Some(&**object), _ => None }
        }
        _ => None,
    }
}

fn fold_body(o1: Operator, o2: Operator, o3: Operator) {
    let mut tail = Vec::with_capacity(3);
    tail.push((o1, AST::Integer(1)));
    tail.push((o2, AST::Integer(2)));
    tail.push((o3, AST::Integer(3)));
    let ast = AST::from_binary_expression(AST::Integer(0), tail);
    let l3 = peel(&ast, o3, 3);
    assert!(l3.is_some(), "C07: the outermost call is not the last operator applied to the last operand");
    let l2 = peel(l3.unwrap(), o2, 2);
    assert!(l2.is_some(), "C07: operators do not associate to the left");
    let l1 = peel(l2.unwrap(), o1, 1);
    assert!(l1.is_some(), "C07: operators do not associate to the left");
    assert!(matches!(l1.unwrap(), AST::Integer(0)), "C07: the fold lost its first operand");
    witness!(true, "W: fold compared");
    forget(ast);
}

harness!(parse_fold_len1, unwind = 5, { fold_body(op_len1(), op_len1(), op_len1()) });
// Folds that contain a two-character operator are not checked by CBMC: the operator is read back from the
// `Vec<(Operator, AST)>`, its symbol length is then solver-unknown, and CBMC over-approximates the copy into the
// `String` — the harness fails with a counterexample that runs clean natively (the spurious failure recorded in
// DESIGN 2), even with concrete operators. The fold itself is operator-agnostic; `parse_operation_names` pins the
// method name of all 13 operators, and the grammar task replays all 169 operator pairs through the real parser.

fn operation_named(o: Operator) -> bool {
    let ast = AST::operation(o, AST::Integer(7), AST::Integer(8));
    let ok = match peel(&ast, o, 8) { Some(inner) => matches!(inner, AST::Integer(7)), None => false };
    forget(ast);
    ok
}

/// `a op b` is the method call `a.op(b)` named by the operator's symbol, for all 13 operators.
harness!(parse_operation_names, unwind = 5, {
    witness!(true, "W: names compared");
    assert!(operation_named(op_len1()), "C07: `a op b` is not the call a.op(b) named by the operator's symbol (one-character operators)");
    assert!(operation_named(Operator::Inequality) && operation_named(Operator::Equality) && operation_named(Operator::LessEqual)
            && operation_named(Operator::GreaterEqual), "C07: `a op b` is not the call a.op(b) named by the operator's symbol (two-character operators)");
});
