//! Reference models (the oracles). Written from the README and the doc comments only, in a
//! deliberately different style from the implementation: integer tags, fixed arrays, explicit loops.
pub mod builtin;
pub mod codec;
