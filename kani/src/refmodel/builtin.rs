//! C09 reference table: built-in operations on null / integer / boolean receivers.
use crate::bytecode::heap::{HeapIndex, Pointer};

pub const T_NULL: u8 = 0;
pub const T_INT: u8 = 1;
pub const T_BOOL: u8 = 2;
pub const T_REF: u8 = 3;

/// A run-time value as the documentation describes it: a kind and a payload.
#[derive(Clone, Copy, PartialEq, Eq, Debug)]
pub struct RVal {
    pub tag: u8,
    pub int: i32,    // payload of an integer; 0/1 for a boolean
    pub idx: usize,  // payload of a reference
}

impl RVal {
    pub fn null() -> Self { RVal { tag: T_NULL, int: 0, idx: 0 } }
    pub fn int(i: i32) -> Self { RVal { tag: T_INT, int: i, idx: 0 } }
    pub fn boolean(b: bool) -> Self { RVal { tag: T_BOOL, int: if b { 1 } else { 0 }, idx: 0 } }
    pub fn reference(i: usize) -> Self { RVal { tag: T_REF, int: 0, idx: i } }
    pub fn of(p: &Pointer) -> Self {
        match p {
            Pointer::Null => RVal::null(),
            Pointer::Integer(i) => RVal::int(*i),
            Pointer::Boolean(b) => RVal::boolean(*b),
            Pointer::Reference(r) => RVal::reference(r.as_usize()),
        }
    }
    pub fn to_pointer(&self) -> Pointer {
        if self.tag == T_NULL { Pointer::Null }
        else if self.tag == T_INT { Pointer::Integer(self.int) }
        else if self.tag == T_BOOL { Pointer::Boolean(self.int != 0) }
        else { Pointer::Reference(HeapIndex::from(self.idx)) }
    }
    pub fn same(&self, p: &Pointer) -> bool {
        let o = RVal::of(p);
        if self.tag != o.tag { return false; }
        if self.tag == T_INT || self.tag == T_BOOL { return self.int == o.int; }
        if self.tag == T_REF { return self.idx == o.idx; }
        true
    }
}

pub const OP_ADD: u8 = 0;
pub const OP_SUB: u8 = 1;
pub const OP_MUL: u8 = 2;
pub const OP_DIV: u8 = 3;
pub const OP_MOD: u8 = 4;
pub const OP_LE: u8 = 5;
pub const OP_GE: u8 = 6;
pub const OP_LT: u8 = 7;
pub const OP_GT: u8 = 8;
pub const OP_EQ: u8 = 9;
pub const OP_NEQ: u8 = 10;
pub const OP_AND: u8 = 11;
pub const OP_OR: u8 = 12;

/// The two documented spellings of each built-in (FML symbol, Feeny word).
pub fn op_names(op: u8) -> (&'static str, &'static str) {
    match op {
        OP_ADD => ("+", "add"),
        OP_SUB => ("-", "sub"),
        OP_MUL => ("*", "mul"),
        OP_DIV => ("/", "div"),
        OP_MOD => ("%", "mod"),
        OP_LE => ("<=", "le"),
        OP_GE => (">=", "ge"),
        OP_LT => ("<", "lt"),
        OP_GT => (">", "gt"),
        OP_EQ => ("==", "eq"),
        OP_NEQ => ("!=", "neq"),
        OP_AND => ("&", "and"),
        _ => ("|", "or"),
    }
}

/// Outcome of a built-in: `Some(value)` where the documentation defines one, `None` = the program fails.
/// `MIN % -1` is a documented don't-care (DESIGN §4.1) and is excluded by the callers.
pub fn ref_builtin(recv: RVal, op: u8, arg: RVal) -> Option<RVal> {
    if recv.tag == T_INT {
        let a = recv.int;
        if op == OP_EQ || op == OP_NEQ {
            let equal = arg.tag == T_INT && arg.int == a;
            return Some(RVal::boolean(if op == OP_EQ { equal } else { !equal }));
        }
        if op > OP_GT { return None; } // & and | are not integer operations
        if arg.tag != T_INT { return None; }
        let b = arg.int;
        if op == OP_ADD { return Some(RVal::int(((a as i64) + (b as i64)) as i32)); }
        if op == OP_SUB { return Some(RVal::int(((a as i64) - (b as i64)) as i32)); }
        if op == OP_MUL { return Some(RVal::int(a.wrapping_mul(b))); }
        if op == OP_DIV || op == OP_MOD {
            if b == 0 { return None; }
            if a == i32::MIN && b == -1 { return None; }
            // Rust's `/` and `%` on i32 truncate toward zero and give the remainder the dividend's sign;
            // harness `c09_ref_division_semantics` checks exactly that on this function.
            return Some(RVal::int(if op == OP_DIV { a.wrapping_div(b) } else { a.wrapping_rem(b) }));
        }
        let r = if op == OP_LE { a <= b } else if op == OP_GE { a >= b } else if op == OP_LT { a < b } else { a > b };
        return Some(RVal::boolean(r));
    }
    if recv.tag == T_BOOL {
        let a = recv.int != 0;
        if op == OP_EQ || op == OP_NEQ {
            let equal = arg.tag == T_BOOL && (arg.int != 0) == a;
            return Some(RVal::boolean(if op == OP_EQ { equal } else { !equal }));
        }
        if op == OP_AND || op == OP_OR {
            if arg.tag != T_BOOL { return None; }
            let b = arg.int != 0;
            return Some(RVal::boolean(if op == OP_AND { a & b } else { a | b }));
        }
        return None;
    }
    if recv.tag == T_NULL {
        if op == OP_EQ { return Some(RVal::boolean(arg.tag == T_NULL)); }
        if op == OP_NEQ { return Some(RVal::boolean(arg.tag != T_NULL)); }
        return None;
    }
    None
}
