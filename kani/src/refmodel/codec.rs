//! C04 reference codec: the Feeny/FML binary layout as documented (property statement, doc comments of
//! bytecode.rs / program.rs), over mirror types with integer tags, fixed arrays and explicit indices.
//! Nothing here calls the repository's serializer.

pub const MAX_STR: usize = 4;
pub const MAX_MEMBERS: usize = 3;
pub const MAX_OPS: usize = 3;

/// An instruction: documented opcode number and up to two operands (u16 index, u8 count).
#[derive(Clone, Copy, PartialEq, Eq, Debug)]
pub struct ROp {
    pub tag: u8,
    pub a: u16,
    pub b: u8,
}

/// Operand layout per documented opcode number: 0 = none, 1 = u16, 2 = u16 + u8. None = not an opcode.
pub fn op_layout(tag: u8) -> Option<u8> {
    match tag {
        0x00 => Some(1), // label
        0x01 => Some(1), // literal
        0x02 => Some(2), // print: format, argument count
        0x03 => Some(0), // array
        0x04 => Some(1), // object
        0x05 => Some(1), // get slot
        0x06 => Some(1), // set slot
        0x07 => Some(2), // call slot: name, argument count
        0x08 => Some(2), // call: name, argument count
        0x09 => Some(1), // set local
        0x0A => Some(1), // get local
        0x0B => Some(1), // set global
        0x0C => Some(1), // get global
        0x0D => Some(1), // branch
        0x0E => Some(1), // goto
        0x0F => Some(0), // return
        0x10 => Some(0), // drop
        _ => None,
    }
}

pub fn op_size(tag: u8) -> usize {
    match op_layout(tag) {
        Some(0) => 1,
        Some(1) => 3,
        Some(_) => 4,
        None => 0,
    }
}

pub const BUF: usize = 64;

/// Byte sink of the reference encoder.
pub struct Out {
    pub bytes: [u8; BUF],
    pub n: usize,
}

impl Out {
    pub fn new() -> Self { Out { bytes: [0u8; BUF], n: 0 } }
    pub fn put(&mut self, b: u8) { self.bytes[self.n] = b; self.n += 1; }
    pub fn put_u16(&mut self, v: u16) { self.put((v & 0xff) as u8); self.put((v >> 8) as u8); }
    pub fn put_u32(&mut self, v: u32) {
        self.put((v & 0xff) as u8);
        self.put(((v >> 8) & 0xff) as u8);
        self.put(((v >> 16) & 0xff) as u8);
        self.put((v >> 24) as u8);
    }
}

pub fn enc_op(o: &mut Out, op: &ROp) {
    o.put(op.tag);
    let l = op_layout(op.tag);
    if l == Some(1) || l == Some(2) { o.put_u16(op.a); }
    if l == Some(2) { o.put(op.b); }
}

pub const K_INT: u8 = 0x00;
pub const K_NULL: u8 = 0x01;
pub const K_STRING: u8 = 0x02;
pub const K_METHOD: u8 = 0x03;
pub const K_SLOT: u8 = 0x04;
pub const K_CLASS: u8 = 0x05;
pub const K_BOOL: u8 = 0x06;

/// A constant-pool entry: documented tag and whichever payload fields that tag uses.
#[derive(Clone, Copy, PartialEq, Eq, Debug)]
pub struct RConst {
    pub tag: u8,
    pub int: i32,                    // K_INT
    pub flag: bool,                  // K_BOOL
    pub name: u16,                   // K_SLOT, K_METHOD: index of the name string
    pub arity: u8,                   // K_METHOD
    pub locals: u16,                 // K_METHOD
    pub n: usize,                    // K_STRING: byte length; K_CLASS: member count; K_METHOD: instruction count
    pub text: [u8; MAX_STR],         // K_STRING
    pub members: [u16; MAX_MEMBERS], // K_CLASS
    pub ops: [ROp; MAX_OPS],         // K_METHOD
}

impl RConst {
    pub fn blank(tag: u8) -> Self {
        RConst { tag, int: 0, flag: false, name: 0, arity: 0, locals: 0, n: 0, text: [0; MAX_STR],
                 members: [0; MAX_MEMBERS], ops: [ROp { tag: 0x0F, a: 0, b: 0 }; MAX_OPS] }
    }
}

pub fn enc_const(o: &mut Out, c: &RConst) {
    o.put(c.tag);
    if c.tag == K_INT {
        o.put_u32(c.int as u32);
    } else if c.tag == K_NULL {
    } else if c.tag == K_STRING {
        o.put_u32(c.n as u32); // length in bytes, not characters
        let mut i = 0;
        while i < c.n { o.put(c.text[i]); i += 1; }
    } else if c.tag == K_METHOD {
        o.put_u16(c.name);
        o.put(c.arity);
        o.put_u16(c.locals);
        o.put_u32(c.n as u32);
        let mut i = 0;
        while i < c.n { enc_op(o, &c.ops[i]); i += 1; }
    } else if c.tag == K_SLOT {
        o.put_u16(c.name);
    } else if c.tag == K_CLASS {
        o.put_u16(c.n as u16);
        let mut i = 0;
        while i < c.n { o.put_u16(c.members[i]); i += 1; }
    } else if c.tag == K_BOOL {
        o.put(if c.flag { 1 } else { 0 });
    }
}

/// Reader side of the reference: cursor over a byte buffer; `ok` turns false on any malformed field.
pub struct In<'a> {
    pub bytes: &'a [u8],
    pub pos: usize,
    pub ok: bool,
}

impl<'a> In<'a> {
    pub fn new(bytes: &'a [u8]) -> Self { In { bytes, pos: 0, ok: true } }
    pub fn get(&mut self) -> u8 {
        if self.pos < self.bytes.len() { let b = self.bytes[self.pos]; self.pos += 1; b } else { self.ok = false; 0 }
    }
    pub fn get_u16(&mut self) -> u16 { let lo = self.get() as u16; let hi = self.get() as u16; lo | (hi << 8) }
    pub fn get_u32(&mut self) -> u32 {
        let b0 = self.get() as u32; let b1 = self.get() as u32; let b2 = self.get() as u32; let b3 = self.get() as u32;
        b0 | (b1 << 8) | (b2 << 16) | (b3 << 24)
    }
}

pub fn dec_op(i: &mut In) -> ROp {
    let tag = i.get();
    let mut op = ROp { tag, a: 0, b: 0 };
    match op_layout(tag) {
        None => { i.ok = false; }
        Some(0) => {}
        Some(1) => { op.a = i.get_u16(); }
        Some(_) => { op.a = i.get_u16(); op.b = i.get(); }
    }
    op
}

/// Decodes one constant; counts above the mirror's capacity are reported through `i.ok = false`.
pub fn dec_const(i: &mut In) -> RConst {
    let tag = i.get();
    let mut c = RConst::blank(tag);
    if tag == K_INT {
        c.int = i.get_u32() as i32;
    } else if tag == K_NULL {
    } else if tag == K_STRING {
        let n = i.get_u32() as usize;
        if n > MAX_STR { i.ok = false; return c; }
        c.n = n;
        let mut k = 0;
        while k < n { c.text[k] = i.get(); k += 1; }
    } else if tag == K_METHOD {
        c.name = i.get_u16();
        c.arity = i.get();
        c.locals = i.get_u16();
        let n = i.get_u32() as usize;
        if n > MAX_OPS { i.ok = false; return c; }
        c.n = n;
        let mut k = 0;
        while k < n { c.ops[k] = dec_op(i); k += 1; }
    } else if tag == K_SLOT {
        c.name = i.get_u16();
    } else if tag == K_CLASS {
        let n = i.get_u16() as usize;
        if n > MAX_MEMBERS { i.ok = false; return c; }
        c.n = n;
        let mut k = 0;
        while k < n { c.members[k] = i.get_u16(); k += 1; }
    } else if tag == K_BOOL {
        let b = i.get();
        if b > 1 { i.ok = false; }
        c.flag = b == 1;
    } else {
        i.ok = false;
    }
    c
}
