//! C03 / C04 / C08 — the serializer family. One body per shape, instantiated in four modes:
//!   roundtrip  (C03): from_bytes(serialize(v)) == v, all input consumed, re-serialize byte-identical
//!   layout     (C04): serialize(v) is byte for byte what the independent reference encoder writes
//!   decode     (C04): a buffer of the documented layout (structure concrete, payload symbolic) loads as the value it denotes
//!   shortwrite (C08): under a sink that accepts a solver-chosen non-empty prefix of every request, Ok implies
//!                     exactly the reference bytes arrived
use crate::bytecode::bytecode::OpCode;
use crate::bytecode::program::*;
use crate::bytecode::serializable::*;
use crate::refmodel::codec::*;
use crate::util::*;
use std::mem::forget;

pub const ROUNDTRIP: u8 = 0;
pub const LAYOUT: u8 = 1;
pub const SHORTWRITE: u8 = 2;

// ---------------------------------------------------------------------------------------------
// bridging mirror values to the repository's types (public constructors only)

pub fn to_opcode(r: &ROp) -> OpCode {
    let i = ConstantPoolIndex::new(r.a);
    match r.tag {
        0x00 => OpCode::Label { name: i },
        0x01 => OpCode::Literal { index: i },
        0x02 => OpCode::Print { format: i, arguments: Arity::new(r.b) },
        0x03 => OpCode::Array,
        0x04 => OpCode::Object { class: i },
        0x05 => OpCode::GetField { name: i },
        0x06 => OpCode::SetField { name: i },
        0x07 => OpCode::CallMethod { name: i, arguments: Arity::new(r.b) },
        0x08 => OpCode::CallFunction { name: i, arguments: Arity::new(r.b) },
        0x09 => OpCode::SetLocal { index: LocalFrameIndex::new(r.a) },
        0x0A => OpCode::GetLocal { index: LocalFrameIndex::new(r.a) },
        0x0B => OpCode::SetGlobal { name: i },
        0x0C => OpCode::GetGlobal { name: i },
        0x0D => OpCode::Branch { label: i },
        0x0E => OpCode::Jump { label: i },
        0x0F => OpCode::Return,
        _ => OpCode::Drop,
    }
}

/// An arbitrary instruction: kind and operands symbolic; operands the kind does not carry are zero.
pub fn any_rop() -> ROp {
    let tag = any_u8_below(0x11);
    let mut a: u16 = kani::any();
    let mut b: u8 = kani::any();
    let l = op_layout(tag);
    if l == Some(0) { a = 0; }
    if l != Some(2) { b = 0; }
    ROp { tag, a, b }
}

/// Instruction kinds inside method shapes are concrete (operands symbolic): a symbolic kind inside a vector of
/// instructions made every later write land at a solver-unknown buffer offset and exhausted 12 GB in probing.
/// All 17 kinds are quantified in the single-instruction harnesses; method shapes exercise the instruction
/// vector, its count, its order and the Code context with these kinds:
pub fn shape_tag(n: usize, i: usize) -> u8 {
    match (n, i) {
        (1, _) => 0x01,  // literal
        (2, 0) => 0x0A,  // get local
        (2, _) => 0x07,  // call slot
        (3, 0) => 0x09,  // set local
        (3, 1) => 0x02,  // print
        _ => 0x0F,       // return
    }
}

pub fn any_rop_of(tag: u8) -> ROp {
    let l = op_layout(tag);
    ROp { tag, a: if l == Some(0) { 0 } else { kani::any() }, b: if l == Some(2) { kani::any() } else { 0 } }
}

/// Well-formed UTF-8 (Unicode 15 table 3-7) over the first `n` bytes; harness `ser_utf8_predicate_exact`
/// checks that it agrees with `std::str::from_utf8` on every input of up to four bytes.
pub fn utf8_ok(t: &[u8; MAX_STR], n: usize) -> bool {
    let cont = |b: u8| b >= 0x80 && b <= 0xBF;
    let mut i = 0;
    while i < n {
        let b = t[i];
        if b <= 0x7F {
            i += 1;
        } else if b >= 0xC2 && b <= 0xDF {
            if i + 1 >= n || !cont(t[i + 1]) { return false; }
            i += 2;
        } else if b >= 0xE0 && b <= 0xEF {
            if i + 2 >= n { return false; }
            let (c1, c2) = (t[i + 1], t[i + 2]);
            let lo = if b == 0xE0 { 0xA0 } else { 0x80 };
            let hi = if b == 0xED { 0x9F } else { 0xBF };
            if c1 < lo || c1 > hi || !cont(c2) { return false; }
            i += 3;
        } else if b >= 0xF0 && b <= 0xF4 {
            if i + 3 >= n { return false; }
            let (c1, c2, c3) = (t[i + 1], t[i + 2], t[i + 3]);
            let lo = if b == 0xF0 { 0x90 } else { 0x80 };
            let hi = if b == 0xF4 { 0x8F } else { 0xBF };
            if c1 < lo || c1 > hi || !cont(c2) || !cont(c3) { return false; }
            i += 4;
        } else {
            return false;
        }
    }
    true
}

/// Builds the repository's constant for a mirror constant. Method instructions are appended to `code`.
pub fn to_const(c: &RConst, code: &mut Vec<OpCode>) -> ProgramObject {
    if c.tag == K_INT {
        ProgramObject::Integer(c.int)
    } else if c.tag == K_NULL {
        ProgramObject::Null
    } else if c.tag == K_BOOL {
        ProgramObject::Boolean(c.flag)
    } else if c.tag == K_SLOT {
        ProgramObject::Slot { name: ConstantPoolIndex::new(c.name) }
    } else if c.tag == K_STRING {
        let mut v = Vec::with_capacity(MAX_STR);
        let mut i = 0;
        while i < c.n { v.push(c.text[i]); i += 1; }
        ProgramObject::String(unsafe { String::from_utf8_unchecked(v) })
    } else if c.tag == K_CLASS {
        let mut v = Vec::with_capacity(MAX_MEMBERS);
        let mut i = 0;
        while i < c.n { v.push(ConstantPoolIndex::new(c.members[i])); i += 1; }
        ProgramObject::Class(v)
    } else {
        let start = code.len();
        let mut i = 0;
        while i < c.n { code.push(to_opcode(&c.ops[i])); i += 1; }
        ProgramObject::Method {
            name: ConstantPoolIndex::new(c.name),
            parameters: Arity::new(c.arity),
            locals: Size::new(c.locals),
            code: AddressRange::from(start, c.n),
        }
    }
}

/// Symbolic payload for a constant of concrete kind and concrete size `n` (R1).
pub fn any_const(tag: u8, n: usize) -> RConst {
    let mut c = RConst::blank(tag);
    c.n = n;
    if tag == K_INT { c.int = kani::any(); }
    if tag == K_BOOL { c.flag = kani::any(); }
    if tag == K_SLOT || tag == K_METHOD { c.name = kani::any(); }
    if tag == K_METHOD {
        c.arity = kani::any();
        c.locals = kani::any();
        let mut i = 0;
        while i < n { c.ops[i] = any_rop_of(shape_tag(n, i)); i += 1; }
    }
    if tag == K_CLASS {
        let mut i = 0;
        while i < n { c.members[i] = kani::any(); i += 1; }
    }
    if tag == K_STRING {
        let mut i = 0;
        while i < n { c.text[i] = kani::any(); i += 1; }
        kani::assume(utf8_ok(&c.text, n));
    }
    c
}

// ---------------------------------------------------------------------------------------------
// sinks

/// C08: accepts a solver-chosen non-empty prefix of every request and never fails.
pub struct Choppy {
    pub data: [u8; BUF],
    pub n: usize,
    pub calls: usize,
    pub short: bool,
}

impl Choppy {
    pub fn new() -> Self { Choppy { data: [0u8; BUF], n: 0, calls: 0, short: false } }
}

impl std::io::Write for Choppy {
    fn write(&mut self, buf: &[u8]) -> std::io::Result<usize> {
        if buf.is_empty() {
            return Ok(0);
        }
        let k = kani::any::<u8>() as usize; // requests are at most 64 bytes long here
        kani::assume(k >= 1 && k <= buf.len());
        if k < buf.len() { self.short = true; }
        let mut i = 0;
        while i < k {
            self.data[self.n + i] = buf[i];
            i += 1;
        }
        self.n += k;
        self.calls += 1;
        Ok(k)
    }
    /// A gathered write is one request too: the sink accepts a solver-chosen, non-empty prefix of the *concatenation* of the buffers
    /// (what a line-buffered stdout or a pipe does), so a caller that inspects the count only against the first buffer is exposed.
    /// The pinned serializer never issues gathered writes; this costs nothing until some code does.
    fn write_vectored(&mut self, bufs: &[std::io::IoSlice<'_>]) -> std::io::Result<usize> {
        let mut total = 0usize;
        let mut b = 0;
        while b < bufs.len() { total += bufs[b].len(); b += 1; }
        if total == 0 {
            return Ok(0);
        }
        let k = kani::any::<u8>() as usize;
        kani::assume(k >= 1 && k <= total);
        if k < total { self.short = true; }
        let mut left = k;
        let mut b = 0;
        while b < bufs.len() && left > 0 {
            let take = if bufs[b].len() < left { bufs[b].len() } else { left };
            let mut i = 0;
            while i < take {
                self.data[self.n + i] = bufs[b][i];
                i += 1;
            }
            self.n += take;
            left -= take;
            b += 1;
        }
        self.calls += 1;
        Ok(k)
    }
    fn flush(&mut self) -> std::io::Result<()> { Ok(()) }
}

/// Loop-free comparison of two whole buffers (both are zero beyond the bytes written), so that the unwind
/// bound of a harness is set by the code under test and not by the oracle.
fn same_buffers(a: &[u8; BUF], b: &[u8; BUF]) -> bool {
    a[0] == b[0] && a[1] == b[1] && a[2] == b[2] && a[3] == b[3] && a[4] == b[4] && a[5] == b[5] && a[6] == b[6] && a[7] == b[7] && a[8] == b[8] && a[9] == b[9] && a[10] == b[10] && a[11] == b[11] && a[12] == b[12] && a[13] == b[13] && a[14] == b[14] && a[15] == b[15] && a[16] == b[16] && a[17] == b[17] && a[18] == b[18] && a[19] == b[19] && a[20] == b[20] && a[21] == b[21] && a[22] == b[22] && a[23] == b[23] && a[24] == b[24] && a[25] == b[25] && a[26] == b[26] && a[27] == b[27] && a[28] == b[28] && a[29] == b[29] && a[30] == b[30] && a[31] == b[31] && a[32] == b[32] && a[33] == b[33] && a[34] == b[34] && a[35] == b[35] && a[36] == b[36] && a[37] == b[37] && a[38] == b[38] && a[39] == b[39] && a[40] == b[40] && a[41] == b[41] && a[42] == b[42] && a[43] == b[43] && a[44] == b[44] && a[45] == b[45] && a[46] == b[46] && a[47] == b[47] && a[48] == b[48] && a[49] == b[49] && a[50] == b[50] && a[51] == b[51] && a[52] == b[52] && a[53] == b[53] && a[54] == b[54] && a[55] == b[55] && a[56] == b[56] && a[57] == b[57] && a[58] == b[58] && a[59] == b[59] && a[60] == b[60] && a[61] == b[61] && a[62] == b[62] && a[63] == b[63]
}

fn same_bytes(a: &[u8], b: &[u8], n: usize) -> bool {
    let mut i = 0;
    let mut same = true;
    while i < n {
        if a[i] != b[i] { same = false; }
        i += 1;
    }
    same
}

/// Common tail of the writer-side modes, given the bytes the real writer produced into a plain buffer.
fn check_written(mode: u8, buf: &[u8; BUF], used: usize, reference: &Out) {
    if mode == LAYOUT {
        assert!(used == reference.n, "C04: serialized length differs from the documented layout");
        assert!(same_buffers(buf, &reference.bytes), "C04: serialized bytes differ from the documented layout");
    }
}

fn check_short(sink: &Choppy, ok: bool, reference: &Out) {
    witness!(ok && sink.short, "W@shortwrite: a short write happened and serialize returned Ok");
    if ok {
        assert!(sink.n == reference.n, "C08: serialize returned Ok but the sink holds a different number of bytes");
        assert!(same_buffers(&sink.data, &reference.bytes), "C08: serialize returned Ok but bytes were lost or reordered");
    }
}

// ---------------------------------------------------------------------------------------------
// S1: primitives

fn prim(mode: u8) {
    let a: u8 = kani::any();
    let b: bool = kani::any();
    let c: u16 = kani::any();
    let d: u32 = kani::any();
    let e: i32 = kani::any();
    let mut reference = Out::new();
    reference.put(a);
    reference.put(if b { 1 } else { 0 });
    reference.put_u16(c);
    reference.put_u32(d);
    reference.put_u32(e as u32);
    if mode == SHORTWRITE {
        let mut sink = Choppy::new();
        let r = write_u8(&mut sink, a).and_then(|_| write_bool(&mut sink, b)).and_then(|_| write_u16(&mut sink, c))
            .and_then(|_| write_u32(&mut sink, d)).and_then(|_| write_i32(&mut sink, e));
        check_short(&sink, r.is_ok(), &reference);
        forget(r);
        return;
    }
    let mut buf = [0u8; BUF];
    let used;
    {
        let mut w: &mut [u8] = &mut buf[..];
        write_u8(&mut w, a).unwrap();
        write_bool(&mut w, b).unwrap();
        write_u16(&mut w, c).unwrap();
        write_u32(&mut w, d).unwrap();
        write_i32(&mut w, e).unwrap();
        used = BUF - w.len();
    }
    witness!(used == 12, "W!shortwrite: primitives written");
    check_written(mode, &buf, used, &reference);
    if mode == ROUNDTRIP {
        let mut rd: &[u8] = &buf[..used];
        assert!(read_u8(&mut rd) == a && read_bool(&mut rd) == b && read_u16(&mut rd) == c
            && read_u32(&mut rd) == d && read_i32(&mut rd) == e, "C03: primitive did not read back");
        assert!(rd.is_empty(), "C03: bytes left over");
    }
}

harness!(ser_prim_roundtrip, unwind = 8, { prim(ROUNDTRIP) });
harness!(ser_prim_layout, unwind = 8, { prim(LAYOUT) });
harness!(ser_prim_shortwrite, unwind = 8, { prim(SHORTWRITE) });

// independent-writer direction for primitives: any 12 bytes with a valid bool byte
harness!(ser_prim_decode, unwind = 14, {
    let mut buf = [0u8; 12];
    let mut i = 0;
    while i < 12 { buf[i] = kani::any(); i += 1; }
    kani::assume(buf[1] < 2);
    let mut rd: &[u8] = &buf[..];
    let mut r = In::new(&buf);
    witness!(buf[3] == 0x12 && buf[2] == 0x34, "W: decode reached");
    assert!(read_u8(&mut rd) == r.get(), "C04: u8");
    assert!(read_bool(&mut rd) == (r.get() == 1), "C04: bool");
    assert!(read_u16(&mut rd) == r.get_u16(), "C04: u16 is little-endian");
    assert!(read_u32(&mut rd) == r.get_u32(), "C04: u32 is little-endian");
    assert!(read_i32(&mut rd) == r.get_u32() as i32, "C04: i32 is little-endian two's complement");
    assert!(rd.is_empty() && r.ok);
});

// ---------------------------------------------------------------------------------------------
// S2: UTF-8 strings of concrete byte length n, symbolic (valid) content

fn utf8(mode: u8, n: usize) {
    let c = any_const(K_STRING, n);
    let mut v = Vec::with_capacity(MAX_STR);
    let mut i = 0;
    while i < n { v.push(c.text[i]); i += 1; }
    let s = unsafe { String::from_utf8_unchecked(v) };
    let mut reference = Out::new();
    reference.put_u32(n as u32);
    i = 0;
    while i < n { reference.put(c.text[i]); i += 1; }
    if mode == SHORTWRITE {
        let mut sink = Choppy::new();
        let r = write_utf8(&mut sink, s.as_str());
        check_short(&sink, r.is_ok(), &reference);
        forget(r);
        forget(s);
        return;
    }
    let mut buf = [0u8; BUF];
    let used;
    {
        let mut w: &mut [u8] = &mut buf[..];
        write_utf8(&mut w, s.as_str()).unwrap();
        used = BUF - w.len();
    }
    witness!(used == 4 + n, "W!shortwrite: string written");
    check_written(mode, &buf, used, &reference);
    if mode == ROUNDTRIP {
        let mut rd: &[u8] = &buf[..used];
        let back = read_utf8(&mut rd);
        assert!(back.len() == n && same_bytes(back.as_bytes(), s.as_bytes(), n), "C03: string did not read back");
        assert!(rd.is_empty(), "C03: bytes left over");
        forget(back);
    }
    forget(s);
}

macro_rules! per_len {
    ($f:ident, $mode:expr, $n0:ident, $n1:ident, $n2:ident, $n3:ident, $n4:ident, $u:expr) => {
        harness!($n0, unwind = $u, { $f($mode, 0) });
        harness!($n1, unwind = $u, { $f($mode, 1) });
        harness!($n2, unwind = $u, { $f($mode, 2) });
        harness!($n3, unwind = $u, { $f($mode, 3) });
        harness!($n4, unwind = $u, { $f($mode, 4) });
    };
}
per_len!(utf8, ROUNDTRIP, ser_utf8_0_roundtrip, ser_utf8_1_roundtrip, ser_utf8_2_roundtrip, ser_utf8_3_roundtrip, ser_utf8_4_roundtrip, 8);
per_len!(utf8, LAYOUT, ser_utf8_0_layout, ser_utf8_1_layout, ser_utf8_2_layout, ser_utf8_3_layout, ser_utf8_4_layout, 8);
per_len!(utf8, SHORTWRITE, ser_utf8_0_shortwrite, ser_utf8_1_shortwrite, ser_utf8_2_shortwrite, ser_utf8_3_shortwrite, ser_utf8_4_shortwrite, 8);

// ---------------------------------------------------------------------------------------------
// S4: one instruction, kind and operands symbolic

fn opcode(mode: u8) {
    let rop = any_rop();
    let op = to_opcode(&rop);
    let mut reference = Out::new();
    enc_op(&mut reference, &rop);
    if mode == SHORTWRITE {
        let mut sink = Choppy::new();
        let r = op.serialize(&mut sink);
        check_short(&sink, r.is_ok(), &reference);
        forget(r);
        return;
    }
    let mut buf = [0u8; BUF];
    let used;
    {
        let mut w: &mut [u8] = &mut buf[..];
        op.serialize(&mut w).unwrap();
        used = BUF - w.len();
    }
    witness!(used == 4, "W!shortwrite: two-operand instruction written");
    witness!(used == 1, "W!shortwrite: operand-less instruction written");
    check_written(mode, &buf, used, &reference);
    if mode == ROUNDTRIP {
        let mut rd: &[u8] = &buf[..used];
        let back = OpCode::from_bytes(&mut rd);
        assert!(back == op, "C03: instruction did not read back");
        assert!(rd.is_empty(), "C03: bytes left over");
        let mut buf2 = [0u8; BUF];
        let used2;
        {
            let mut w: &mut [u8] = &mut buf2[..];
            back.serialize(&mut w).unwrap();
            used2 = BUF - w.len();
        }
        assert!(used2 == used && same_buffers(&buf, &buf2), "C03: re-serialization is not byte-identical");
    }
}

harness!(ser_opcode_roundtrip, unwind = 6, { opcode(ROUNDTRIP) });
harness!(ser_opcode_layout, unwind = 6, { opcode(LAYOUT) });
harness!(ser_opcode_shortwrite, unwind = 6, { opcode(SHORTWRITE) });

// any four bytes whose first is a documented opcode number load as the instruction they denote
harness!(ser_opcode_decode, unwind = 6, {
    let mut buf = [0u8; 4];
    let mut i = 0;
    while i < 4 { buf[i] = kani::any(); i += 1; }
    let mut r = In::new(&buf);
    let rop = dec_op(&mut r);
    kani::assume(r.ok);
    let mut rd: &[u8] = &buf[..];
    let op = OpCode::from_bytes(&mut rd);
    witness!(rop.tag == 0x07 && rop.b == 3, "W: call slot decoded");
    assert!(op == to_opcode(&rop), "C04: bytes in the documented layout decoded to a different instruction");
    assert!(4 - rd.len() == r.pos, "C04: instruction consumed a different number of bytes than documented");
});

// opcode numbers outside the documented table are rejected (the reader's rejection is a panic)
harness!(ser_opcode_reject, unwind = 6, {
    let mut buf = [0u8; 4];
    let mut i = 0;
    while i < 4 { buf[i] = kani::any(); i += 1; }
    kani::assume(op_layout(buf[0]).is_none());
    let mut rd: &[u8] = &buf[..];
    let op = OpCode::from_bytes(&mut rd);
    witness!(true, "U: an undocumented opcode number was accepted");
});

// ---------------------------------------------------------------------------------------------
// S5: one constant of concrete kind / size, symbolic payload, through the Code context

fn constant(mode: u8, tag: u8, n: usize) {
    let c = any_const(tag, n);
    let mut ops = Vec::with_capacity(MAX_OPS + 1);
    let po = to_const(&c, &mut ops);
    let code = Code::from(ops);
    let mut reference = Out::new();
    enc_const(&mut reference, &c);
    if mode == SHORTWRITE {
        let mut sink = Choppy::new();
        let r = po.serialize(&mut sink, &code);
        check_short(&sink, r.is_ok(), &reference);
        forget(r);
        forget(po);
        forget(code);
        return;
    }
    let mut buf = [0u8; BUF];
    let used;
    {
        let mut w: &mut [u8] = &mut buf[..];
        po.serialize(&mut w, &code).unwrap();
        used = BUF - w.len();
    }
    witness!(used >= 1, "W!shortwrite: constant written");
    check_written(mode, &buf, used, &reference);
    if mode == ROUNDTRIP {
        let mut rd: &[u8] = &buf[..used];
        let mut code2 = Code::from(Vec::with_capacity(MAX_OPS + 1));
        let back = ProgramObject::from_bytes(&mut rd, &mut code2);
        assert!(back == po, "C03: constant did not read back");
        assert!(code2 == code, "C03: method instructions did not read back");
        assert!(rd.is_empty(), "C03: bytes left over");
        let mut buf2 = [0u8; BUF];
        let used2;
        {
            let mut w: &mut [u8] = &mut buf2[..];
            back.serialize(&mut w, &code2).unwrap();
            used2 = BUF - w.len();
        }
        assert!(used2 == used && same_buffers(&buf, &buf2), "C03: re-serialization is not byte-identical");
        forget(back);
        forget(code2);
    }
    forget(po);
    forget(code);
}

macro_rules! three_modes {
    ($body:expr, $rt:ident, $ly:ident, $sw:ident, $u:expr) => {
        harness!($rt, unwind = $u, { let mode = ROUNDTRIP; ($body)(mode) });
        harness!($ly, unwind = $u, { let mode = LAYOUT; ($body)(mode) });
        harness!($sw, unwind = $u, { let mode = SHORTWRITE; ($body)(mode) });
    };
}

three_modes!(|m| constant(m, K_INT, 0), ser_int_roundtrip, ser_int_layout, ser_int_shortwrite, 8);
three_modes!(|m| constant(m, K_BOOL, 0), ser_bool_roundtrip, ser_bool_layout, ser_bool_shortwrite, 8);
three_modes!(|m| constant(m, K_NULL, 0), ser_null_roundtrip, ser_null_layout, ser_null_shortwrite, 8);
three_modes!(|m| constant(m, K_SLOT, 0), ser_slot_roundtrip, ser_slot_layout, ser_slot_shortwrite, 8);
three_modes!(|m| constant(m, K_STRING, 0), ser_string0_roundtrip, ser_string0_layout, ser_string0_shortwrite, 8);
three_modes!(|m| constant(m, K_STRING, 1), ser_string1_roundtrip, ser_string1_layout, ser_string1_shortwrite, 8);
three_modes!(|m| constant(m, K_STRING, 2), ser_string2_roundtrip, ser_string2_layout, ser_string2_shortwrite, 8);
three_modes!(|m| constant(m, K_STRING, 3), ser_string3_roundtrip, ser_string3_layout, ser_string3_shortwrite, 8);
three_modes!(|m| constant(m, K_STRING, 4), ser_string4_roundtrip, ser_string4_layout, ser_string4_shortwrite, 8);
three_modes!(|m| constant(m, K_CLASS, 0), ser_class0_roundtrip, ser_class0_layout, ser_class0_shortwrite, 8);
three_modes!(|m| constant(m, K_CLASS, 1), ser_class1_roundtrip, ser_class1_layout, ser_class1_shortwrite, 8);
three_modes!(|m| constant(m, K_CLASS, 2), ser_class2_roundtrip, ser_class2_layout, ser_class2_shortwrite, 8);
three_modes!(|m| constant(m, K_CLASS, 3), ser_class3_roundtrip, ser_class3_layout, ser_class3_shortwrite, 8);
three_modes!(|m| constant(m, K_METHOD, 0), ser_method0_roundtrip, ser_method0_layout, ser_method0_shortwrite, 8);
three_modes!(|m| constant(m, K_METHOD, 1), ser_method1_roundtrip, ser_method1_layout, ser_method1_shortwrite, 8);
three_modes!(|m| constant(m, K_METHOD, 2), ser_method2_roundtrip, ser_method2_layout, ser_method2_shortwrite, 8);
three_modes!(|m| constant(m, K_METHOD, 3), ser_method3_roundtrip, ser_method3_layout, ser_method3_shortwrite, 8);

/// Decode direction for one constant: tag and count fields concrete (they size allocations, R1), every
/// payload byte symbolic; accepted by the reference decoder => loaded as the value it denotes.
fn constant_decode(tag: u8, n: usize) {
    let mut buf = [0u8; BUF];
    let mut len = 0;
    buf[0] = tag;
    len += 1;
    let mut payload = 0;
    if tag == K_INT { payload = 4; }
    if tag == K_BOOL { payload = 1; }
    if tag == K_SLOT { payload = 2; }
    if tag == K_STRING {
        buf[1] = n as u8; // u32 little-endian byte length
        len += 4;
        payload = n;
    }
    if tag == K_CLASS {
        buf[1] = n as u8; // u16 little-endian member count
        len += 2;
        payload = 2 * n;
    }
    if tag == K_METHOD {
        // name u16, arity u8, locals u16: symbolic; instruction count u32: concrete
        let mut i = 0;
        while i < 5 { buf[len + i] = kani::any(); i += 1; }
        len += 5;
        buf[len] = n as u8;
        len += 4;
        // instruction kinds of the shape concrete (see shape_tag), every operand byte symbolic
        let mut k = 0;
        while k < n {
            let tag = shape_tag(n, k);
            buf[len] = tag;
            len += 1;
            let extra = op_size(tag) - 1;
            let mut j = 0;
            while j < extra { buf[len + j] = kani::any(); j += 1; }
            len += extra;
            k += 1;
        }
    }
    let mut i = 0;
    while i < payload { buf[len + i] = kani::any(); i += 1; }
    len += payload;

    let mut r = In::new(&buf[..len]);
    let c = dec_const(&mut r);
    kani::assume(r.ok);
    if tag == K_STRING { kani::assume(utf8_ok(&c.text, c.n)); }
    let mut ops = Vec::with_capacity(MAX_OPS + 1);
    let expected = to_const(&c, &mut ops);
    let expected_code = Code::from(ops);

    let mut rd: &[u8] = &buf[..len];
    let mut code = Code::from(Vec::with_capacity(MAX_OPS + 1));
    let got = ProgramObject::from_bytes(&mut rd, &mut code);
    witness!(r.pos >= 1, "W: constant decoded");
    assert!(got == expected, "C04: bytes in the documented layout decoded to a different constant");
    assert!(code == expected_code, "C04: method body decoded to different instructions");
    assert!(len - rd.len() == r.pos, "C04: constant consumed a different number of bytes than documented");
    forget(got); forget(code); forget(expected); forget(expected_code);
}

harness!(ser_int_decode, unwind = 8, { constant_decode(K_INT, 0) });
harness!(ser_bool_decode, unwind = 8, { constant_decode(K_BOOL, 0) });
harness!(ser_null_decode, unwind = 8, { constant_decode(K_NULL, 0) });
harness!(ser_slot_decode, unwind = 8, { constant_decode(K_SLOT, 0) });
harness!(ser_string0_decode, unwind = 8, { constant_decode(K_STRING, 0) });
harness!(ser_string1_decode, unwind = 8, { constant_decode(K_STRING, 1) });
harness!(ser_string2_decode, unwind = 8, { constant_decode(K_STRING, 2) });
harness!(ser_string3_decode, unwind = 8, { constant_decode(K_STRING, 3) });
harness!(ser_string4_decode, unwind = 8, { constant_decode(K_STRING, 4) });
harness!(ser_class0_decode, unwind = 8, { constant_decode(K_CLASS, 0) });
harness!(ser_class1_decode, unwind = 8, { constant_decode(K_CLASS, 1) });
harness!(ser_class2_decode, unwind = 8, { constant_decode(K_CLASS, 2) });
harness!(ser_class3_decode, unwind = 8, { constant_decode(K_CLASS, 3) });
harness!(ser_method0_decode, unwind = 8, { constant_decode(K_METHOD, 0) });
harness!(ser_method1_decode, unwind = 8, { constant_decode(K_METHOD, 1) });
harness!(ser_method2_decode, unwind = 8, { constant_decode(K_METHOD, 2) });
harness!(ser_method3_decode, unwind = 8, { constant_decode(K_METHOD, 3) });

// constant tags outside the documented table, and boolean bytes other than 0/1, are rejected
// Two harnesses, because a symbolic tag makes CBMC unroll every arm of the constant reader whatever the assumption
// says: with the payload bytes symbolic too, the string and method arms get symbolic lengths and the run exhausts
// 12 GB. (a) every tag above the documented ones, the bytes after it zero (the reader fails on the tag before it
// reads any of them); (b) the boolean tag with every payload byte other than 0 and 1, the bytes after it symbolic.
harness!(ser_constant_reject, unwind = 6, {
    let mut buf = [0u8; 8];
    buf[0] = kani::any();
    kani::assume(buf[0] > K_BOOL);
    let mut rd: &[u8] = &buf[..];
    let mut code = Code::from(Vec::with_capacity(1));
    let got = ProgramObject::from_bytes(&mut rd, &mut code);
    witness!(true, "U: an undocumented constant encoding was accepted");
    forget(got); forget(code);
});

harness!(ser_boolean_reject, unwind = 6, {
    let mut buf: [u8; 8] = kani::any();
    buf[0] = K_BOOL;
    kani::assume(buf[1] > 1);
    let mut rd: &[u8] = &buf[..];
    let mut code = Code::from(Vec::with_capacity(1));
    let got = ProgramObject::from_bytes(&mut rd, &mut code);
    witness!(true, "U: an undocumented constant encoding was accepted");
    forget(got); forget(code);
});

// ---------------------------------------------------------------------------------------------
// S6: program framing.
//
// Whole programs with a *mixed* constant pool do not fit CBMC: an enum value read back from a `Vec` that holds
// different variants (or a symbolic payload) loses its discriminant, every arm of the constant writer — including
// the string arm with a then unknown length — is explored, and the run exhausts memory (8, 12 and 24 GB caps
// tried on pools of 2, 3, 5 and 7 constants, literal-built and mirror-built; the derived label table alone needs
// 209 s of symbolic execution on a one-label program and still fails its unwinding assertions). What does fit is
// the framing around the constants: a pool of two concrete integers, with the globals vector and the entry index
// symbolic — count prefixes, pool order, `Program::serialize`'s pool / globals / entry order, all little-endian.
// Every constant kind is quantified over all contents in the single-constant harnesses above; mixed pools and the
// label table are listed as not covered.

fn framing(mode: u8, repeated: bool) {
    // `repeated`: the pool holds the same constant twice — legal in the documented layout (a compiler that does not
    // intern its constants emits it) and the shape on which a loader that interns while loading drops an entry
    let (c0, c1) = if repeated { (66051i32, 66051i32) } else { (-559038737i32, 66051i32) };
    let (g0, g1, entry): (u16, u16, u16) = (kani::any(), kani::any(), kani::any());
    let mut reference = Out::new();
    reference.put_u16(2);
    reference.put(K_INT); reference.put_u32(c0 as u32);
    reference.put(K_INT); reference.put_u32(c1 as u32);
    reference.put_u16(2); reference.put_u16(g0); reference.put_u16(g1);
    reference.put_u16(entry);
    let mut consts = Vec::with_capacity(2);
    consts.push(ProgramObject::Integer(c0));
    consts.push(ProgramObject::Integer(c1));
    let mut globals = Vec::with_capacity(2);
    globals.push(ConstantPoolIndex::new(g0));
    globals.push(ConstantPoolIndex::new(g1));
    let prog = Program { constant_pool: ConstantPool::from(consts), labels: Labels::new(), code: Code::from(Vec::with_capacity(1)),
                         globals: Globals::from(globals), entry: Entry::from(entry) };
    if mode == SHORTWRITE {
        let mut sink = Choppy::new();
        let r = prog.serialize(&mut sink);
        check_short(&sink, r.is_ok(), &reference);
        forget(r);
        forget(prog);
        return;
    }
    let mut buf = [0u8; BUF];
    let used;
    {
        let mut w: &mut [u8] = &mut buf[..];
        prog.serialize(&mut w).unwrap();
        used = BUF - w.len();
    }
    witness!(used == 20, "W!shortwrite: program written");
    check_written(mode, &buf, used, &reference);
    if mode == ROUNDTRIP {
        let mut rd: &[u8] = &buf[..used];
        let back = Program::from_bytes(&mut rd);
        assert!(back == prog, "C03: program did not read back (constants, code, globals, entry, labels)");
        assert!(rd.is_empty(), "C03: bytes left over");
        forget(back);
    }
    forget(prog);
}

three_modes!(|m| framing(m, false), ser_framing_roundtrip, ser_framing_layout, ser_framing_shortwrite, 8);
three_modes!(|m| framing(m, true), ser_framing_repeated_roundtrip, ser_framing_repeated_layout, ser_framing_repeated_shortwrite, 8);

/// Decode direction of the framing: a buffer in the documented layout with two integer constants (payload symbolic,
/// so equal and different constants are both covered), two globals and an entry loads as the program it denotes.
harness!(ser_framing_decode, unwind = 8, {
    let mut buf = [0u8; 20];
    buf[0] = 2; // u16 constant count
    buf[2] = K_INT;
    buf[7] = K_INT;
    let mut i = 3;
    while i < 7 { buf[i] = kani::any(); buf[i + 5] = kani::any(); i += 1; }
    buf[12] = 2; // u16 global count
    i = 14;
    while i < 20 { buf[i] = kani::any(); i += 1; }
    let mut r = In::new(&buf);
    r.pos = 3;
    let c0 = r.get_u32() as i32;
    r.pos = 8;
    let c1 = r.get_u32() as i32;
    r.pos = 14;
    let (g0, g1, entry) = (r.get_u16(), r.get_u16(), r.get_u16());
    let mut rd: &[u8] = &buf[..];
    let got = Program::from_bytes(&mut rd);
    witness!(c0 == c1, "W: repeated constant decoded");
    assert!(rd.is_empty(), "C04: bytes left over");
    let same = match (got.constant_pool.get(&ConstantPoolIndex::new(0)), got.constant_pool.get(&ConstantPoolIndex::new(1))) {
        (Ok(ProgramObject::Integer(a)), Ok(ProgramObject::Integer(b))) => *a == c0 && *b == c1,
        _ => false,
    };
    assert!(same && got.constant_pool.get(&ConstantPoolIndex::new(2)).is_err(), "C04: a file of the documented layout loaded with a different constant pool");
    {
        let mut gs = got.globals.iter();
        assert!(gs.next() == Some(ConstantPoolIndex::new(g0)) && gs.next() == Some(ConstantPoolIndex::new(g1)) && gs.next().is_none(), "C04: globals loaded differently");
    }
    assert!(got.entry.get().map(|e| e == ConstantPoolIndex::new(entry)).unwrap_or(false), "C04: entry loaded differently");
    forget(got);
});

/// The usize -> u16 / u32 narrowing helpers behind every count and length prefix: every value that fits is written as the
/// little-endian field of the documented width (a string may be up to 2^32 - 1 bytes long, a pool up to 65535 entries).
harness!(ser_length_prefix_widths, unwind = 8, {
    let v: usize = kani::any();
    let wide: bool = kani::any();
    kani::assume(if wide { v <= 0xFFFF_FFFF } else { v <= 0xFFFF });
    let mut reference = Out::new();
    if wide { reference.put_u32(v as u32); } else { reference.put_u16(v as u16); }
    let mut buf = [0u8; BUF];
    let used;
    {
        let mut w: &mut [u8] = &mut buf[..];
        if wide { write_usize_as_u32(&mut w, v).unwrap(); } else { write_usize_as_u16(&mut w, v).unwrap(); }
        used = BUF - w.len();
    }
    witness!(wide && v > 0xFFFF, "W: a length above 65535 written");
    assert!(used == reference.n && same_buffers(&buf, &reference.bytes), "C04: a count / length prefix is not the little-endian field of the documented width");
});

// the harness-side validity predicate for strings is exactly std's
harness!(ser_utf8_predicate_exact, unwind = 8, {
    let mut t = [0u8; MAX_STR];
    let mut i = 0;
    while i < MAX_STR { t[i] = kani::any(); i += 1; }
    let n = any_u8_below(5) as usize;
    witness!(n == 4 && t[0] == 0xF0, "W: four-byte sequence considered");
    assert!(utf8_ok(&t, n) == std::str::from_utf8(&t[..n]).is_ok(), "harness predicate utf8_ok differs from std::str::from_utf8");
});



