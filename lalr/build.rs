// Regenerates the LALR parser from /repo's current grammar, exactly as /repo's own build script does,
// and leaves the generated source at $OUT_DIR/fml.rs for smt/c07_grammar.py to read.
fn main() {
    println!("cargo:rerun-if-changed=/repo/src/fml.lalrpop");
    println!("cargo:rerun-if-changed=build.rs");
    let out = std::env::var("OUT_DIR").unwrap();
    std::fs::create_dir_all(format!("{}/gen", out)).unwrap();
    std::fs::copy("/repo/src/fml.lalrpop", format!("{}/gen/fml.lalrpop", out)).unwrap();
    lalrpop::Configuration::new()
        .set_in_dir(format!("{}/gen", out))
        .set_out_dir(&out)
        .force_build(true)
        .process()
        .unwrap();
    println!("cargo:rustc-env=FML_GENERATED={}/fml.rs", out);
}
