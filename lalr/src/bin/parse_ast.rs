//! Reads FML source on stdin, prints `OK <AST as JSON>` or `ERR <message>` using /repo's real lexer and parser.
//! With `--where` prints only the path of the generated parser source.
use std::io::Read;
fn main() {
    if std::env::args().any(|a| a == "--where") { println!("{}", fmllalr::GENERATED); return; }
    let mut src = String::new();
    std::io::stdin().read_to_string(&mut src).unwrap();
    match fmllalr::fml::TopLevelParser::new().parse(&src) {
        Ok(ast) => println!("OK {}", serde_json::to_string(&ast).unwrap()),
        Err(e) => println!("ERR {}", format!("{:?}", e).replace('\n', " ")),
    }
}
