//! /repo's grammar compiled by lalrpop as it is now, plus /repo's AST module, unchanged.
#![allow(dead_code, unused_imports, unused_macros, unused_variables)]
#[macro_use] extern crate lalrpop_util;
#[path = "/repo/src/parser/mod.rs"]
pub mod parser;
#[allow(clippy::all)]
pub mod fml { include!(env!("FML_GENERATED")); }
pub const GENERATED: &str = env!("FML_GENERATED");
