#![allow(dead_code, unused_imports, unused_macros, unused_variables)]
#[path = "/repo/src/parser/mod.rs"]
pub mod parser;
#[path = "/repo/src/bytecode/mod.rs"]
pub mod bytecode;

#[cfg(kani)]
mod proofs {
    use crate::bytecode::program::*;
    use crate::bytecode::bytecode::OpCode;
    use crate::bytecode::compiler::{ProgramGenerator, Environment, Compiled, LabelGenerator, Frame as CFrame};
    use crate::parser::*;
    use anyhow::Error as AnyErr;
    use std::mem::forget;
    fn fmt_stub(_args: std::fmt::Arguments<'_>) -> String { String::new() }
    fn drop_stub(_e: &mut AnyErr) { }
    fn presized_generator() -> ProgramGenerator {
        ProgramGenerator {
            constant_pool: ConstantPool::from(Vec::<ProgramObject>::with_capacity(16)),
            labels: LabelGenerator::new(),
            completed_code: Code::from(Vec::with_capacity(32)),
            globals: Globals::from(Vec::with_capacity(8)),
            entry: Entry::new(),
        }
    }
    fn name(k: u8) -> &'static str { if k == 0 { "x" } else { "y" } }
    // two levels: begin let n1 = 1; begin let n2 = 2 end; n3 end   (Local frame), keep symbolic
    #[kani::proof]
    #[kani::unwind(7)]
    #[kani::stub(std::fmt::format, fmt_stub)]
    #[kani::stub(<AnyErr as std::ops::Drop>::drop, drop_stub)]
    fn w1_nested_block_boxes() {
        let k1: u8 = kani::any(); let k2: u8 = kani::any(); let k3: u8 = kani::any();
        kani::assume(k1 < 2 && k2 < 2 && k3 < 2);
        let keep: bool = kani::any();
        let mut inner = Vec::with_capacity(1);
        inner.push(Box::new(AST::Variable { name: Identifier(name(k2).to_string()), value: Box::new(AST::Integer(2)) }));
        let mut outer = Vec::with_capacity(3);
        outer.push(Box::new(AST::Variable { name: Identifier(name(k1).to_string()), value: Box::new(AST::Integer(1)) }));
        outer.push(Box::new(AST::Block(inner)));
        outer.push(Box::new(AST::AccessVariable { name: Identifier(name(k3).to_string()) }));
        let ast = AST::Block(outer);
        let mut generator = presized_generator();
        let mut buffer = Code::from(Vec::with_capacity(16));
        let mut genv = Environment::new();
        let mut frame = CFrame::new();
        let r = ast.compile_into(&mut generator, &mut buffer, &mut genv, &mut frame, keep);
        assert!(r.is_ok());
        let n = buffer.length();
        // lit 1; set local 0; drop; lit 2; set local 1; drop; get ...; [drop if !keep after fix]
        let get = *buffer.get(Address::from_usize(6)).unwrap();
        if k3 == k1 { assert!(get == OpCode::GetLocal { index: LocalFrameIndex::new(0) }); }
        else { match get { OpCode::GetGlobal { .. } => {}, _ => assert!(false) } }
        assert!(*buffer.get(Address::from_usize(4)).unwrap() == OpCode::SetLocal { index: LocalFrameIndex::new(1) });
        kani::cover!(n == 7, "len7");
        kani::cover!(n == 8, "len8");
        forget(r); forget(generator); forget(buffer); forget(genv); forget(frame); forget(ast);
    }
}
