import re, sys, glob, time, itertools
import z3
f = sorted(glob.glob('/repo/target/debug/build/fml-*/out/fml.rs'))[0]
src = open(f).read()
def table(name):
    m = re.search(r'const %s: &\'static \[i16\] = &\[(.*?)\];' % name, src, re.S)
    body = re.sub(r'//[^\n]*', '', m.group(1))
    return [int(x) for x in re.findall(r'-?\d+', body)]
ACTION = table('__ACTION'); EOFA = table('__EOF_ACTION'); GOTO = table('__GOTO')
m = re.search(r'const __TERMINAL: &\'static \[&\'static str\] = &\[(.*?)\];', src, re.S)
TERMS = re.findall(r'r###"(.*?)"###', m.group(1))
NT = len(TERMS); NS = len(EOFA); NNT = len(GOTO)//NS
assert len(ACTION) == NS*NT, (len(ACTION), NS, NT)
prods = {}
for mm in re.finditer(r'pub\(crate\) fn __reduce(\d+)<.*?// (.*?) => ActionFn\((\d+)\);.*?\n\s*\((\d+), (\d+)\)\n', src, re.S):
    prods[int(mm.group(1))] = (mm.group(2).strip(), int(mm.group(3)), int(mm.group(4)), int(mm.group(5)))
print('states', NS, 'terminals', NT, 'nonterminals', NNT, 'productions', len(prods))
T = {n:i for i,n in enumerate(TERMS)}
OPS = ['MULTIPLY','DIVIDE','MODULE','PLUS','MINUS','EQUAL','UNEQUAL','GREATER','GREATER_EQUAL','LESS','LESS_EQUAL','AND','OR']
LEVEL = {'MULTIPLY':1,'DIVIDE':1,'MODULE':1,'PLUS':2,'MINUS':2,'EQUAL':3,'UNEQUAL':3,'GREATER':3,'GREATER_EQUAL':3,'LESS':3,'LESS_EQUAL':3,'AND':4,'OR':5}

class Node:
    def __init__(s, label, kids, lo, hi): s.label, s.kids, s.lo, s.hi = label, kids, lo, hi

def run(tokens, domains, stats):
    """tokens: list of terminal index or ('sym', k). domains: dict k -> frozenset of terminal indices.
       yields (domains, tree) for each path."""
    work = [([0], [], 0, dict(domains))]   # states, nodes, pos, domains
    while work:
        states, nodes, pos, dom = work.pop()
        while True:
            st = states[-1]
            if pos < len(tokens):
                tk = tokens[pos]
                if isinstance(tk, tuple):
                    cand = dom[tk[1]]
                    groups = {}
                    for t in cand: groups.setdefault(ACTION[st*NT+t], set()).add(t)
                    if len(groups) > 1:
                        stats['forks'] += len(groups)-1
                        for a, g in groups.items():
                            d2 = dict(dom); d2[tk[1]] = frozenset(g)
                            work.append((list(states), list(nodes), pos, d2))
                        break
                    act = next(iter(groups))
                else:
                    act = ACTION[st*NT+tk]
            else:
                act = EOFA[st]
            stats['steps'] += 1
            if act > 0:
                states.append(act-1); nodes.append(Node(('tok', pos), [], pos, pos)); pos += 1
            elif act < 0:
                p = -act-1
                if p not in prods:      # the augmented start production: accept
                    yield dom, nodes[-1]; break
                name, afn, pop, nt = prods[p]
                kids = nodes[len(nodes)-pop:] if pop else []
                lo = kids[0].lo if kids else pos; hi = kids[-1].hi if kids else pos-1
                if pop: del states[-pop:]; del nodes[-pop:]
                nodes.append(Node((name, afn), kids, lo, hi))
                states.append(GOTO[states[-1]*NNT+nt]-1)
            else:
                yield dom, None; break

def spans_for(tree, oppos):
    # for operator token at position p: r = end of smallest node starting at p with >1 token... ; l = start of smallest node containing p that starts at an even (operand) index
    res = {}
    def walk(n):
        for p in oppos:
            if n.lo == p and n.hi > p:
                if p not in res or (n.hi - n.lo) < res[p][1]: res.setdefault('r', {}); 
        for k in n.kids: walk(k)
    allnodes = []
    def coll(n):
        allnodes.append(n)
        for k in n.kids: coll(k)
    coll(tree)
    out = {}
    for p in oppos:
        rs = [n for n in allnodes if n.lo == p and n.hi > p]
        r = min(rs, key=lambda n: n.hi-n.lo).hi
        ls = [n for n in allnodes if n.lo < p <= n.hi and n.lo % 2 == 0 and n.hi > p]
        l = min(ls, key=lambda n: n.hi-n.lo).lo
        out[p] = (l, r)
    return out

def check_triples(nops):
    ident = T['IDENTIFIER']
    tokens = []
    for i in range(nops):
        tokens += [ident, ('sym', i)]
    tokens.append(ident)
    oppos = [2*i+1 for i in range(nops)]
    domains = {i: frozenset(T[o] for o in OPS) for i in range(nops)}
    stats = {'forks':0, 'steps':0}
    paths = 0; queries = 0; t0 = time.time(); solver_t = 0.0
    # z3 level function
    o = [z3.Int('o%d'%i) for i in range(nops)]
    def lvl(x):
        e = z3.IntVal(0)
        for name in OPS: e = z3.If(x == T[name], LEVEL[name], e)
        return e
    L = [lvl(x) for x in o]
    n_tok = len(tokens)
    def ref_r(i):   # end index of right operand of operator i
        e = z3.IntVal(n_tok-1)
        for j in range(nops-1, i, -1):
            e = z3.If(L[j] >= L[i], 2*j+1-1, e)
        return e
    def ref_l(i):   # start index of the list containing operator i
        e = z3.IntVal(0)
        for k in range(0, i):
            e = z3.If(L[k] > L[i], 2*k+1+1, e)
        return e
    for dom, tree in run(tokens, domains, stats):
        paths += 1
        s = z3.Solver()
        for i in range(nops): s.add(z3.Or([o[i] == t for t in dom[i]]))
        if tree is None:
            bad = z3.BoolVal(True)   # parser rejected: violation for every token in the path condition
        else:
            obs = spans_for(tree, oppos)
            bad = z3.Or([z3.Or(ref_l(i) != obs[2*i+1][0], ref_r(i) != obs[2*i+1][1]) for i in range(nops)])
        s.add(bad)
        t1 = time.time(); r = s.check(); solver_t += time.time()-t1; queries += 1
        if r == z3.sat:
            mdl = s.model()
            print('VIOLATION tokens:', [TERMS[mdl[x].as_long()] for x in o], 'observed', None if tree is None else spans_for(tree, oppos))
            return False
    print('ops=%d paths=%d forks=%d steps=%d queries=%d all unsat; wall %.2fs solver %.2fs' % (nops, paths, stats['forks'], stats['steps'], queries, time.time()-t0, solver_t))
    return True

for n in (1,2,3,4):
    check_triples(n)
