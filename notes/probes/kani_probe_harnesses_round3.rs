#![allow(dead_code, unused_imports, unused_macros, unused_variables)]
#[path = "/repo/src/parser/mod.rs"]
pub mod parser;
#[path = "/repo/src/bytecode/mod.rs"]
pub mod bytecode;

#[cfg(kani)]
mod proofs {
    use crate::bytecode::program::*;
    use crate::bytecode::bytecode::OpCode;
    use crate::bytecode::state::*;
    use crate::bytecode::heap::*;
    use crate::bytecode::interpreter::*;
    use anyhow::Error as AnyErr;
    use std::mem::forget;
    fn fmt_stub(_args: std::fmt::Arguments<'_>) -> String { String::new() }
    fn drop_stub(_e: &mut AnyErr) { }

    #[kani::proof]
    #[kani::unwind(4)]
    #[kani::stub(std::fmt::format, fmt_stub)]
    #[kani::stub(<AnyErr as std::ops::Drop>::drop, drop_stub)]
    fn t1_pop_sequence() {
        let mut st = OperandStack::from(Vec::with_capacity(8));
        let a: i32 = kani::any(); let b: i32 = kani::any();
        st.push(Pointer::from(9)); st.push(Pointer::from(a)); st.push(Pointer::from(b));
        let v = st.pop_sequence(2).unwrap();
        assert!(v.len() == 2);
        assert!(v[0] == Pointer::from(a) && v[1] == Pointer::from(b));
        forget(v); forget(st);
    }
    #[kani::proof]
    #[kani::unwind(4)]
    fn t2_make_vector() {
        let v = Size::new(2).make_vector(Pointer::Null);
        assert!(v.len() == 2 && v[1] == Pointer::Null);
        forget(v);
    }
    #[kani::proof]
    #[kani::unwind(5)]
    fn t3_veccat_frame() {
        let a: i32 = kani::any();
        let mut x = Vec::with_capacity(2); x.push(Pointer::from(a)); x.push(Pointer::from(2));
        let mut y = Vec::with_capacity(1); y.push(Pointer::Null);
        let z: Vec<Pointer> = crate::veccat!(x, y);
        let f = Frame::from(None, z);
        assert!(*f.get(&LocalFrameIndex::new(0)).unwrap() == Pointer::from(a));
        assert!(*f.get(&LocalFrameIndex::new(2)).unwrap() == Pointer::Null);
        let mut fs = FrameStack::from((GlobalFrame::new(), GlobalFunctions::new()));
        fs.push(Frame::from(None, Vec::with_capacity(1)));
        fs.push(f);
        assert!(*fs.get_locals().unwrap().get(&LocalFrameIndex::new(1)).unwrap() == Pointer::from(2));
        forget(fs);
    }

    use crate::bytecode::compiler::{ProgramGenerator, Environment, Compiled, LabelGenerator, Frame as CFrame};
    use crate::parser::*;
    fn presized_generator() -> ProgramGenerator {
        ProgramGenerator {
            constant_pool: ConstantPool::from(Vec::<ProgramObject>::with_capacity(16)),
            labels: LabelGenerator::new(),
            completed_code: Code::from(Vec::with_capacity(32)),
            globals: Globals::from(Vec::with_capacity(8)),
            entry: Entry::new(),
        }
    }
    // reference resolver: fixed arrays
    struct RefEnv { scopes: [u8; 4], depth: usize, seq: u8, defs: [(u8, u8); 4], ndefs: usize }   // defs: (scope id, name 0/1), slot = position
    impl RefEnv {
        fn lookup(&self, name: u8) -> Option<usize> {
            let mut d = self.depth;
            while d > 0 {
                let sc = self.scopes[d - 1];
                let mut i = 0;
                while i < self.ndefs { if self.defs[i].0 == sc && self.defs[i].1 == name { return Some(i); } i += 1; }
                d -= 1;
            }
            None
        }
    }
    fn step(k: u8, name: u8, re: &mut RefEnv, generator: &mut ProgramGenerator, buffer: &mut Code, genv: &mut Environment, frame: &mut CFrame) {
        let nm = if name == 0 { "x" } else { "y" };
        match k {
            0 => { // enter
                kani::assume(re.depth < 4);
                if let CFrame::Local(e) = frame { e.enter_scope(); }
                re.seq += 1; re.scopes[re.depth] = re.seq; re.depth += 1;
            }
            1 => { // leave
                kani::assume(re.depth > 1);
                if let CFrame::Local(e) = frame { e.leave_scope(); }
                re.depth -= 1;
            }
            2 => { // let
                let sc = re.scopes[re.depth - 1];
                let mut i = 0; let mut dup = false;
                while i < re.ndefs { if re.defs[i].0 == sc && re.defs[i].1 == name { dup = true; } i += 1; }
                kani::assume(!dup && re.ndefs < 4);
                let ast = AST::Variable { name: Identifier(nm.to_string()), value: Box::new(AST::Null) };
                let before = buffer.length();
                let r = ast.compile_into(generator, buffer, genv, frame, true);
                assert!(r.is_ok());
                let last = *buffer.get(Address::from_usize(buffer.length() - 1)).unwrap();
                assert!(last == OpCode::SetLocal { index: LocalFrameIndex::new(re.ndefs as u16) });
                re.defs[re.ndefs] = (sc, name); re.ndefs += 1;
                forget(r); forget(ast);
            }
            _ => { // read
                let ast = AST::AccessVariable { name: Identifier(nm.to_string()) };
                let r = ast.compile_into(generator, buffer, genv, frame, true);
                assert!(r.is_ok());
                let last = *buffer.get(Address::from_usize(buffer.length() - 1)).unwrap();
                match re.lookup(name) {
                    Some(i) => assert!(last == OpCode::GetLocal { index: LocalFrameIndex::new(i as u16) }),
                    None => match last { OpCode::GetGlobal { .. } => {}, _ => assert!(false) },
                }
                forget(r); forget(ast);
            }
        }
    }
    #[kani::proof]
    #[kani::unwind(6)]
    #[kani::stub(std::fmt::format, fmt_stub)]
    #[kani::stub(<AnyErr as std::ops::Drop>::drop, drop_stub)]
    fn u3_scope_sequence3() {
        let mut generator = presized_generator();
        let mut buffer = Code::from(Vec::with_capacity(16));
        let mut genv = Environment::new();
        let mut frame = CFrame::new();
        let mut re = RefEnv { scopes: [0; 4], depth: 1, seq: 0, defs: [(0, 0); 4], ndefs: 0 };
        let mut t = 0;
        while t < 3 {
            let k: u8 = kani::any(); kani::assume(k < 4);
            let name: u8 = kani::any(); kani::assume(name < 2);
            step(k, name, &mut re, &mut generator, &mut buffer, &mut genv, &mut frame);
            t += 1;
        }
        // final read of a symbolic name
        let name: u8 = kani::any(); kani::assume(name < 2);
        step(3, name, &mut re, &mut generator, &mut buffer, &mut genv, &mut frame);
        forget(generator); forget(buffer); forget(genv); forget(frame);
    }
}
