#![allow(dead_code, unused_imports, unused_macros)]
#[path = "/repo/src/parser/mod.rs"]
pub mod parser;
#[path = "/repo/src/bytecode/mod.rs"]
pub mod bytecode;

#[cfg(kani)]
mod proofs {
    use crate::bytecode::program::*;
    use crate::bytecode::bytecode::OpCode;
    use crate::bytecode::state::*;
    use crate::bytecode::heap::*;
    use crate::bytecode::interpreter::*;
    use crate::bytecode::serializable::*;
    use crate::parser::*;

    fn fmt_stub(_args: std::fmt::Arguments<'_>) -> String { String::new() }
    use anyhow::Error as AnyErr0;
    fn drop_stub0(_e: &mut AnyErr0) { }
    static mut CTR: u8 = 0;
    fn fmt_unique(_args: std::fmt::Arguments<'_>) -> String {
        unsafe { CTR += 1; let v = vec![b'L', b'0' + CTR]; String::from_utf8_unchecked(v) }
    }

    // P1: integer add through eval_call_method, fmt stubbed
    #[kani::proof]
    #[kani::unwind(8)]
    #[kani::stub(std::fmt::format, fmt_stub)]
    #[kani::stub(<AnyErr0 as std::ops::Drop>::drop, drop_stub0)]
    fn p1_int_add() {
        let a: i32 = kani::any();
        let b: i32 = kani::any();
        let code = Code::from(vec![OpCode::CallMethod { name: ConstantPoolIndex::new(0), arguments: Arity::new(2) }]);
        let constants = ConstantPool::from(vec!["+"]);
        let program = Program::from(code, constants, Globals::new(), Entry::new()).unwrap();
        let mut state = State::minimal();
        state.operand_stack.push(Pointer::from(a));
        state.operand_stack.push(Pointer::from(b));
        let r = eval_call_method(&program, &mut state, &ConstantPoolIndex::new(0), &Arity::new(2));
        assert!(r.is_ok());
        assert!(state.operand_stack.pop().unwrap() == Pointer::from(a.wrapping_add(b)));
    }

    fn any_cpi() -> ConstantPoolIndex { ConstantPoolIndex::new(kani::any()) }
    fn any_opcode() -> OpCode {
        let k: u8 = kani::any();
        kani::assume(k < 17);
        match k {
            0 => OpCode::Label { name: any_cpi() },
            1 => OpCode::Literal { index: any_cpi() },
            2 => OpCode::Print { format: any_cpi(), arguments: Arity::new(kani::any()) },
            3 => OpCode::Array,
            4 => OpCode::Object { class: any_cpi() },
            5 => OpCode::GetField { name: any_cpi() },
            6 => OpCode::SetField { name: any_cpi() },
            7 => OpCode::CallMethod { name: any_cpi(), arguments: Arity::new(kani::any()) },
            8 => OpCode::CallFunction { name: any_cpi(), arguments: Arity::new(kani::any()) },
            9 => OpCode::SetLocal { index: LocalFrameIndex::new(kani::any()) },
            10 => OpCode::GetLocal { index: LocalFrameIndex::new(kani::any()) },
            11 => OpCode::SetGlobal { name: any_cpi() },
            12 => OpCode::GetGlobal { name: any_cpi() },
            13 => OpCode::Branch { label: any_cpi() },
            14 => OpCode::Jump { label: any_cpi() },
            15 => OpCode::Return,
            _ => OpCode::Drop,
        }
    }

    // P2: opcode roundtrip
    #[kani::proof]
    #[kani::unwind(6)]
    #[kani::stub(std::fmt::format, fmt_stub)]
    fn p2_opcode_roundtrip() {
        let op = any_opcode();
        let mut bytes: Vec<u8> = Vec::new();
        op.serialize(&mut bytes).unwrap();
        assert!(bytes.len() >= 1 && bytes.len() <= 4);
        let mut rd: &[u8] = &bytes[..];
        let back = OpCode::from_bytes(&mut rd);
        assert!(back == op);
        assert!(rd.is_empty());
    }

    // P3: short-write sink
    struct Choppy { data: Vec<u8>, }
    impl std::io::Write for Choppy {
        fn write(&mut self, buf: &[u8]) -> std::io::Result<usize> {
            if buf.is_empty() { return Ok(0); }
            let k: usize = kani::any();
            kani::assume(k >= 1 && k <= buf.len());
            self.data.extend_from_slice(&buf[..k]);
            Ok(k)
        }
        fn flush(&mut self) -> std::io::Result<()> { Ok(()) }
    }
    #[kani::proof]
    #[kani::unwind(6)]
    #[kani::stub(std::fmt::format, fmt_stub)]
    fn p3_short_write_opcode() {
        let op = any_opcode();
        let mut full: Vec<u8> = Vec::new();
        op.serialize(&mut full).unwrap();
        let mut sink = Choppy { data: Vec::new() };
        let r = op.serialize(&mut sink);
        if r.is_ok() {
            assert!(sink.data.len() == full.len());
        }
    }

    // P4: print state machine, symbolic 3-byte format, no args
    #[kani::proof]
    #[kani::unwind(8)]
    #[kani::stub(std::fmt::format, fmt_stub)]
    #[kani::stub(<AnyErr0 as std::ops::Drop>::drop, drop_stub0)]
    fn p4_print() {
        let b: [u8; 3] = kani::any();
        kani::assume(b[0] < 128 && b[1] < 128 && b[2] < 128);
        let s = String::from_utf8(b.to_vec()).unwrap();
        let code = Code::from(vec![OpCode::Print { format: ConstantPoolIndex::new(0), arguments: Arity::new(0) }]);
        let constants = ConstantPool::from(vec![ProgramObject::String(s)]);
        let program = Program::from(code, constants, Globals::new(), Entry::new()).unwrap();
        let mut state = State::minimal();
        let mut out = String::new();
        let r = eval_print(&program, &mut state, &mut out, &ConstantPoolIndex::new(0), &Arity::new(0));
        if b[0] == b'a' && b[1] == b'\\' && b[2] == b'n' {
            assert!(r.is_ok());
            assert!(out.as_bytes() == b"a\n");
        }
        if b[0] == b'~' { assert!(r.is_err()); }
    }

    // P5: compile concrete AST: let x = 1; print("~", x)
    #[kani::proof]
    #[kani::unwind(12)]
    #[kani::stub(std::fmt::format, fmt_unique)]
    #[kani::stub(<AnyErr0 as std::ops::Drop>::drop, drop_stub0)]
    fn p5_compile_concrete() {
        let ast = AST::top(vec![
            AST::variable(Identifier::from("x"), AST::integer(1)),
            AST::print("~".to_string(), vec![AST::access_variable(Identifier::from("x"))]),
        ]);
        let program = crate::bytecode::compile(&ast).unwrap();
        assert!(program.code.length() == 5);
    }

    // P6: State::from on small program (HashMaps)
    #[kani::proof]
    #[kani::unwind(8)]
    #[kani::stub(std::fmt::format, fmt_stub)]
    #[kani::stub(<AnyErr0 as std::ops::Drop>::drop, drop_stub0)]
    fn p6_state_from() {
        let code = Code::from(vec![OpCode::Return]);
        let constants = ConstantPool::from(vec![
            ProgramObject::from_str("x"),
            ProgramObject::slot_from_u16(0),
            ProgramObject::from_str("main"),
            ProgramObject::Method { name: ConstantPoolIndex::new(2), parameters: Arity::new(0), locals: Size::new(1), code: AddressRange::from(0, 1) },
        ]);
        let program = Program::from(code, constants, Globals::from(vec![ConstantPoolIndex::new(1)]), Entry::from(3u16)).unwrap();
        let state = State::from(&program).unwrap();
        assert!(*state.frame_stack.globals.get("x").unwrap() == Pointer::Null);
    }

    fn mk(flag: bool) -> anyhow::Result<u32> {
        if flag { anyhow::bail!("lit") }
        Ok(3)
    }
    fn mk2(flag: bool, n: u32) -> anyhow::Result<u32> {
        if flag { anyhow::bail!("fmt {}", n) }
        Ok(3)
    }
    #[kani::proof]
    #[kani::unwind(4)]
    fn e1_forget() {
        let r = mk(kani::any());
        let ok = r.is_ok();
        std::mem::forget(r);
        assert!(ok || !ok);
    }
    #[kani::proof]
    #[kani::unwind(4)]
    fn e2_drop() {
        let r = mk(kani::any());
        assert!(r.is_ok() || r.is_err());
    }
    #[kani::proof]
    #[kani::unwind(4)]
    #[kani::stub(std::fmt::format, fmt_stub)]
    fn e3_fmt_forget() {
        let r = mk2(kani::any(), kani::any());
        let ok = r.is_ok();
        std::mem::forget(r);
        assert!(ok || !ok);
    }
    #[kani::proof]
    #[kani::unwind(4)]
    #[kani::stub(std::fmt::format, fmt_stub)]
    fn e4_context_forget() {
        use anyhow::Context;
        let o: Option<u32> = kani::any();
        let r = o.with_context(|| format!("x {}", 1));
        let ok = r.is_ok();
        std::mem::forget(r);
        assert!(ok || !ok);
    }
    #[kani::proof]
    #[kani::unwind(4)]
    #[kani::stub(std::fmt::format, fmt_stub)]
    fn e5_context_on_result_forget() {
        use anyhow::Context;
        let r = mk(kani::any()).with_context(|| format!("x {}", 1));
        let ok = r.is_ok();
        std::mem::forget(r);
        assert!(ok || !ok);
    }

    use anyhow::Error as AnyErr;
    fn drop_stub(_e: &mut AnyErr) { }
    #[kani::proof]
    #[kani::unwind(4)]
    #[kani::stub(<AnyErr as std::ops::Drop>::drop, drop_stub)]
    fn e6_drop_stubbed() {
        let r = mk(kani::any());
        assert!(r.is_ok() || r.is_err());
    }

    use std::collections::HashMap;
    use std::hash::{Hasher, DefaultHasher};
    fn hw_stub(_h: &mut DefaultHasher, _b: &[u8]) { }
    fn hws_stub(_h: &mut DefaultHasher, _b: &str) { }
    fn hf_stub(_h: &DefaultHasher) -> u64 { 0 }
    #[kani::proof]
    #[kani::unwind(6)]
    fn h1_new() {
        let m: HashMap<String, u32> = HashMap::new();
        assert!(m.len() == 0);
        std::mem::forget(m);
    }
    #[kani::proof]
    #[kani::unwind(10)]
    fn h2_insert_get() {
        let mut m: HashMap<String, u32> = HashMap::new();
        let v: u32 = kani::any();
        m.insert("ab".to_string(), v);
        m.insert("cd".to_string(), 7);
        assert!(*m.get("ab").unwrap() == v);
        assert!(m.get("zz").is_none());
        std::mem::forget(m);
    }
    #[kani::proof]
    #[kani::unwind(10)]
    #[kani::stub(<DefaultHasher as Hasher>::write, hw_stub)]
    #[kani::stub(<DefaultHasher as Hasher>::write_str, hws_stub)]
    #[kani::stub(<DefaultHasher as Hasher>::finish, hf_stub)]
    fn h3_insert_get_stubbed() {
        let mut m: HashMap<String, u32> = HashMap::new();
        let v: u32 = kani::any();
        m.insert("ab".to_string(), v);
        m.insert("cd".to_string(), 7);
        assert!(*m.get("ab").unwrap() == v);
        assert!(m.get("zz").is_none());
        std::mem::forget(m);
    }

    use std::hash::RandomState;
    fn rs_stub() -> RandomState { unsafe { std::mem::transmute::<(u64,u64), RandomState>((0u64,0u64)) } }
    #[kani::proof]
    #[kani::unwind(10)]
    #[kani::stub(std::hash::RandomState::new, rs_stub)]
    #[kani::stub(<DefaultHasher as Hasher>::write, hw_stub)]
    #[kani::stub(<DefaultHasher as Hasher>::write_str, hws_stub)]
    #[kani::stub(<DefaultHasher as Hasher>::finish, hf_stub)]
    fn h4_all_stubbed() {
        let mut m: HashMap<String, u32> = HashMap::new();
        let v: u32 = kani::any();
        m.insert("ab".to_string(), v);
        m.insert("cd".to_string(), 7);
        assert!(*m.get("ab").unwrap() == v);
        assert!(m.get("zz").is_none());
        std::mem::forget(m);
    }
    #[kani::proof]
    #[kani::unwind(10)]
    #[kani::stub(std::hash::RandomState::new, rs_stub)]
    fn h5_rs_stubbed() {
        let mut m: HashMap<String, u32> = HashMap::new();
        let v: u32 = kani::any();
        m.insert("ab".to_string(), v);
        m.insert("cd".to_string(), 7);
        assert!(*m.get("ab").unwrap() == v);
        assert!(m.get("zz").is_none());
        std::mem::forget(m);
    }

    fn prog(code: Vec<OpCode>, constants: Vec<ProgramObject>) -> Program {
        Program { constant_pool: ConstantPool::from(constants), labels: Labels::new(), code: Code::from(code), globals: Globals::new(), entry: Entry::new() }
    }
    #[kani::proof]
    #[kani::unwind(8)]
    #[kani::stub(std::fmt::format, fmt_stub)]
    #[kani::stub(<AnyErr0 as std::ops::Drop>::drop, drop_stub0)]
    fn q1_int_add() {
        let a: i32 = kani::any();
        let b: i32 = kani::any();
        let program = prog(vec![OpCode::CallMethod { name: ConstantPoolIndex::new(0), arguments: Arity::new(2) }], vec![ProgramObject::String("+".to_string())]);
        let mut state = State::minimal();
        state.operand_stack.push(Pointer::from(a));
        state.operand_stack.push(Pointer::from(b));
        let r = eval_call_method(&program, &mut state, &ConstantPoolIndex::new(0), &Arity::new(2));
        assert!(r.is_ok());
        assert!(state.operand_stack.pop().unwrap() == Pointer::from(a.wrapping_add(b)));
    }
    #[kani::proof]
    #[kani::unwind(8)]
    #[kani::stub(std::fmt::format, fmt_stub)]
    #[kani::stub(<AnyErr0 as std::ops::Drop>::drop, drop_stub0)]
    fn q4_print() {
        let b: [u8; 3] = kani::any();
        kani::assume(b[0] < 128 && b[1] < 128 && b[2] < 128);
        let s = unsafe { String::from_utf8_unchecked(b.to_vec()) };
        let program = prog(vec![OpCode::Print { format: ConstantPoolIndex::new(0), arguments: Arity::new(0) }], vec![ProgramObject::String(s)]);
        let mut state = State::minimal();
        let mut out = String::new();
        let r = eval_print(&program, &mut state, &mut out, &ConstantPoolIndex::new(0), &Arity::new(0));
        if b[0] == b'a' && b[1] == b'\\' && b[2] == b'n' {
            assert!(r.is_ok());
            assert!(out.len() == 2 && out.as_bytes()[0] == b'a' && out.as_bytes()[1] == b'\n');
        }
        if b[0] == b'~' { assert!(r.is_err()); }
    }

    use crate::bytecode::compiler::{ProgramGenerator, Environment, Compiled, Frame as CFrame};
    fn any_name() -> &'static str {
        let k: u8 = kani::any();
        kani::assume(k < 3);
        match k { 0 => "x", 1 => "y", _ => "z" }
    }
    // c1: single-node compile of AccessVariable in a Local frame with [x, y]
    #[kani::proof]
    #[kani::unwind(6)]
    #[kani::stub(std::fmt::format, fmt_stub)]
    #[kani::stub(<AnyErr0 as std::ops::Drop>::drop, drop_stub0)]
    fn c1_access_variable() {
        let name = any_name();
        let keep: bool = kani::any();
        let ast = AST::access_variable(Identifier::from(name));
        let mut generator = ProgramGenerator::new();
        let mut buffer = Code::new();
        let mut genv = Environment::new();
        let mut frame = CFrame::from_locals(vec!["x".to_string(), "y".to_string()]);
        let r = ast.compile_into(&mut generator, &mut buffer, &mut genv, &mut frame, keep);
        assert!(r.is_ok());
        let n = buffer.length();
        let first = *buffer.get(Address::from_usize(0)).unwrap();
        if name == "x" { assert!(first == OpCode::GetLocal { index: LocalFrameIndex::new(0) }); }
        if name == "y" { assert!(first == OpCode::GetLocal { index: LocalFrameIndex::new(1) }); }
        if name == "z" { assert!(first == OpCode::GetGlobal { name: ConstantPoolIndex::new(0) }); }
        // stack balance: keep => 1 instr, !keep => value must be dropped
        if keep { assert!(n == 1); } else { assert!(n == 2); }
    }
    // c2: let in nested block then access: begin let x = 1; begin let x = 2 end; x end   (Local frame)
    #[kani::proof]
    #[kani::unwind(8)]
    #[kani::stub(std::fmt::format, fmt_stub)]
    #[kani::stub(<AnyErr0 as std::ops::Drop>::drop, drop_stub0)]
    fn c2_block_shadow() {
        let n1 = any_name();
        let n2 = any_name();
        let n3 = any_name();
        let ast = AST::block(vec![
            AST::variable(Identifier::from(n1), AST::integer(1)),
            AST::block(vec![AST::variable(Identifier::from(n2), AST::integer(2))]),
            AST::access_variable(Identifier::from(n3)),
        ]);
        let mut generator = ProgramGenerator::new();
        let mut buffer = Code::new();
        let mut genv = Environment::new();
        let mut frame = CFrame::new();
        let r = ast.compile_into(&mut generator, &mut buffer, &mut genv, &mut frame, true);
        assert!(r.is_ok());
        let last = *buffer.get(Address::from_usize(buffer.length() - 1)).unwrap();
        if n3 == n1 { assert!(last == OpCode::GetLocal { index: LocalFrameIndex::new(0) }); }
        else { match last { OpCode::GetGlobal { .. } => {}, _ => assert!(false) } }
    }
    // s1: one VM step GetGlobal/SetGlobal with a global frame of 2 names
    #[kani::proof]
    #[kani::unwind(8)]
    #[kani::stub(std::fmt::format, fmt_stub)]
    #[kani::stub(<AnyErr0 as std::ops::Drop>::drop, drop_stub0)]
    fn s1_global_step() {
        let program = prog(vec![OpCode::SetGlobal { name: ConstantPoolIndex::new(0) }, OpCode::GetGlobal { name: ConstantPoolIndex::new(1) }],
                           vec![ProgramObject::String("x".to_string()), ProgramObject::String("y".to_string())]);
        let mut state = State::minimal();
        state.frame_stack.globals = GlobalFrame::from(vec!["x".to_string(), "y".to_string()], Pointer::Null).unwrap();
        let v: i32 = kani::any();
        state.operand_stack.push(Pointer::from(v));
        let mut out = String::new();
        step_with(&program, &mut state, &mut out).unwrap();
        step_with(&program, &mut state, &mut out).unwrap();
        assert!(state.operand_stack.pop().unwrap() == Pointer::Null);
        assert!(state.operand_stack.pop().unwrap() == Pointer::from(v));
        assert!(*state.frame_stack.globals.get("x").unwrap() == Pointer::from(v));
    }

    struct Sink { buf: [char; 8], n: usize }
    impl std::fmt::Write for Sink {
        fn write_str(&mut self, s: &str) -> std::fmt::Result {
            for c in s.chars() { if self.n >= 8 { return Err(std::fmt::Error); } self.buf[self.n] = c; self.n += 1; }
            Ok(())
        }
        fn write_char(&mut self, c: char) -> std::fmt::Result {
            if self.n >= 8 { return Err(std::fmt::Error); }
            self.buf[self.n] = c; self.n += 1; Ok(())
        }
    }
    #[kani::proof]
    #[kani::unwind(8)]
    #[kani::stub(std::fmt::format, fmt_stub)]
    #[kani::stub(<AnyErr0 as std::ops::Drop>::drop, drop_stub0)]
    fn q4b_print_sink() {
        let b: [u8; 3] = kani::any();
        kani::assume(b[0] < 128 && b[1] < 128 && b[2] < 128);
        let s = unsafe { String::from_utf8_unchecked(b.to_vec()) };
        let program = prog(vec![OpCode::Print { format: ConstantPoolIndex::new(0), arguments: Arity::new(0) }], vec![ProgramObject::String(s)]);
        let mut state = State::minimal();
        let mut out = Sink { buf: ['\0'; 8], n: 0 };
        let r = eval_print(&program, &mut state, &mut out, &ConstantPoolIndex::new(0), &Arity::new(0));
        // reference state machine
        let mut exp = ['\0'; 8]; let mut m = 0usize; let mut esc = false; let mut fail = false;
        let mut i = 0;
        while i < 3 && !fail {
            let c = b[i] as char;
            if esc {
                let d = match c { '~' => Some('~'), '\\' => Some('\\'), '"' => Some('"'), 'n' => Some('\n'), 't' => Some('\t'), 'r' => Some('\r'), _ => None };
                match d { Some(d) => { exp[m] = d; m += 1; esc = false; } None => { fail = true; } }
            } else if c == '\\' { esc = true; }
            else if c == '~' { fail = true; }
            else { exp[m] = c; m += 1; }
            i += 1;
        }
        if fail { assert!(r.is_err()); } else {
            assert!(r.is_ok());
            assert!(out.n == m);
            let mut j = 0; while j < m { assert!(out.buf[j] == exp[j]); j += 1; }
        }
    }

    use indexmap::IndexMap;
    fn any_ptr2() -> Pointer {
        let k: u8 = kani::any();
        kani::assume(k < 4);
        match k { 0 => Pointer::Null, 1 => Pointer::Integer(7), 2 => Pointer::Reference(HeapIndex::from(0usize)), _ => Pointer::Reference(HeapIndex::from(1usize)) }
    }
    // f1: get_field / set_field on a one-field object
    #[kani::proof]
    #[kani::unwind(6)]
    #[kani::stub(std::fmt::format, fmt_stub)]
    #[kani::stub(<AnyErr0 as std::ops::Drop>::drop, drop_stub0)]
    fn f1_fields() {
        let program = prog(vec![], vec![ProgramObject::String("f".to_string()), ProgramObject::String("g".to_string())]);
        let mut state = State::minimal();
        let mut fields = IndexMap::new();
        fields.insert("f".to_string(), Pointer::Integer(1));
        let idx = state.heap.allocate(HeapObject::new_object(Pointer::Null, fields, IndexMap::new()));
        let v: i32 = kani::any();
        let which: bool = kani::any();
        state.operand_stack.push(Pointer::from(idx));
        state.operand_stack.push(Pointer::from(v));
        let name = ConstantPoolIndex::new(if which { 0 } else { 1 });
        let r = eval_set_field(&program, &mut state, &name);
        if which {
            assert!(r.is_ok());
            assert!(state.operand_stack.pop().unwrap() == Pointer::from(v));
            state.operand_stack.push(Pointer::from(idx));
            eval_get_field(&program, &mut state, &ConstantPoolIndex::new(0)).unwrap();
            assert!(state.operand_stack.pop().unwrap() == Pointer::from(v));
        } else {
            assert!(r.is_err());
        }
    }
    // f3: rendering terminates on any 2-object heap? (expected: unwinding failure on cycles)
    #[kani::proof]
    #[kani::unwind(5)]
    #[kani::stub(std::fmt::format, fmt_stub)]
    #[kani::stub(<AnyErr0 as std::ops::Drop>::drop, drop_stub0)]
    fn f3_render_cycle() {
        let mut heap = Heap::new();
        let a = HeapObject::from_pointers(vec![any_ptr2()]);
        let b = HeapObject::from_pointers(vec![any_ptr2()]);
        heap.allocate(a);
        heap.allocate(b);
        let r = Pointer::Reference(HeapIndex::from(0usize)).evaluate_as_string(&heap);
        std::mem::forget(r);
    }
    // c3: concrete nested block compile
    #[kani::proof]
    #[kani::unwind(8)]
    #[kani::stub(std::fmt::format, fmt_stub)]
    #[kani::stub(<AnyErr0 as std::ops::Drop>::drop, drop_stub0)]
    fn c3_block_concrete() {
        let ast = AST::block(vec![
            AST::variable(Identifier::from("x"), AST::integer(1)),
            AST::block(vec![AST::variable(Identifier::from("x"), AST::integer(2))]),
            AST::access_variable(Identifier::from("x")),
        ]);
        let mut generator = ProgramGenerator::new();
        let mut buffer = Code::new();
        let mut genv = Environment::new();
        let mut frame = CFrame::new();
        let r = ast.compile_into(&mut generator, &mut buffer, &mut genv, &mut frame, true);
        assert!(r.is_ok());
        let last = *buffer.get(Address::from_usize(buffer.length() - 1)).unwrap();
        assert!(last == OpCode::GetLocal { index: LocalFrameIndex::new(0) });
    }
    // f2: program object roundtrip (non-method kinds + small string)
    #[kani::proof]
    #[kani::unwind(6)]
    #[kani::stub(std::fmt::format, fmt_stub)]
    #[kani::stub(<AnyErr0 as std::ops::Drop>::drop, drop_stub0)]
    fn f2_constant_roundtrip() {
        let k: u8 = kani::any();
        kani::assume(k < 6);
        let po = match k {
            0 => ProgramObject::Integer(kani::any()),
            1 => ProgramObject::Boolean(kani::any()),
            2 => ProgramObject::Null,
            3 => { let b: [u8; 2] = kani::any(); kani::assume(b[0] < 128 && b[1] < 128); ProgramObject::String(unsafe { String::from_utf8_unchecked(b.to_vec()) }) },
            4 => ProgramObject::Slot { name: any_cpi() },
            _ => ProgramObject::Class(vec![any_cpi(), any_cpi()]),
        };
        let code = Code::new();
        let mut bytes: Vec<u8> = Vec::new();
        po.serialize(&mut bytes, &code).unwrap();
        let mut rd: &[u8] = &bytes[..];
        let mut code2 = Code::new();
        let back = ProgramObject::from_bytes(&mut rd, &mut code2);
        assert!(back == po);
        assert!(rd.is_empty());
    }

    // f5: render a small array without the format stub (real fmt machinery)
    #[kani::proof]
    #[kani::unwind(6)]
    #[kani::stub(<AnyErr0 as std::ops::Drop>::drop, drop_stub0)]
    fn f5_render_array_realfmt() {
        let mut heap = Heap::new();
        let b: bool = kani::any();
        let a = HeapObject::from_pointers(vec![Pointer::Null, Pointer::Boolean(b)]);
        heap.allocate(a);
        let r = Pointer::Reference(HeapIndex::from(0usize)).evaluate_as_string(&heap).unwrap();
        if b { assert!(r.as_bytes() == b"[null, true]"); } else { assert!(r.as_bytes() == b"[null, false]"); }
    }
    // d1: Display of a symbolic opcode (real fmt), check prefix only
    #[kani::proof]
    #[kani::unwind(8)]
    #[kani::stub(<AnyErr0 as std::ops::Drop>::drop, drop_stub0)]
    fn d1_opcode_display() {
        let idx: u16 = kani::any();
        kani::assume(idx < 10);
        let op = OpCode::Literal { index: ConstantPoolIndex::new(idx) };
        let s = op.to_string();
        let bytes = s.as_bytes();
        assert!(bytes.len() == 6);
        assert!(bytes[0] == b'l' && bytes[4] == b'#' && bytes[5] == b'0' + (idx as u8));
    }
    // c4: Conditional with atom children, symbolic keep
    #[kani::proof]
    #[kani::unwind(8)]
    #[kani::stub(std::fmt::format, fmt_unique)]
    #[kani::stub(<AnyErr0 as std::ops::Drop>::drop, drop_stub0)]
    fn c4_conditional() {
        let keep: bool = kani::any();
        let ast = AST::conditional(AST::boolean(true), AST::integer(1), AST::integer(2));
        let mut generator = ProgramGenerator::new();
        let mut buffer = Code::new();
        let mut genv = Environment::new();
        let mut frame = CFrame::Top;
        let r = ast.compile_into(&mut generator, &mut buffer, &mut genv, &mut frame, keep);
        assert!(r.is_ok());
        let n = buffer.length();
        if keep { assert!(n == 7); } else { assert!(n == 9); }
    }
    // o1: object method dispatch through a parent link
    #[kani::proof]
    #[kani::unwind(6)]
    #[kani::stub(std::fmt::format, fmt_stub)]
    #[kani::stub(<AnyErr0 as std::ops::Drop>::drop, drop_stub0)]
    fn o1_dispatch_parent() {
        let program = prog(vec![OpCode::Return, OpCode::Return, OpCode::Return],
            vec![ProgramObject::String("m".to_string()), ProgramObject::String("+".to_string())]);
        let mut state = State::minimal();
        let method = ProgramObject::Method { name: ConstantPoolIndex::new(0), parameters: Arity::new(2), locals: Size::new(1), code: AddressRange::from(1, 1) };
        let mut methods = IndexMap::new();
        methods.insert("m".to_string(), method);
        let parent = state.heap.allocate(HeapObject::new_object(Pointer::Integer(40), IndexMap::new(), methods));
        let child = state.heap.allocate(HeapObject::new_object(Pointer::from(parent), IndexMap::new(), IndexMap::new()));
        let which: bool = kani::any();
        let v: i32 = kani::any();
        state.operand_stack.push(Pointer::from(child));
        state.operand_stack.push(Pointer::from(v));
        let r = eval_call_method(&program, &mut state, &ConstantPoolIndex::new(if which { 0 } else { 1 }), &Arity::new(2));
        assert!(r.is_ok());
        if which {
            // user method found in parent: new frame [receiver=parent?, arg, local], ip -> 1
            assert!(state.instruction_pointer.get() == Some(Address::from_usize(1)));
            let f = state.frame_stack.get_locals().unwrap();
            assert!(*f.get(&LocalFrameIndex::new(1)).unwrap() == Pointer::from(v));
            assert!(*f.get(&LocalFrameIndex::new(2)).unwrap() == Pointer::Null);
        } else {
            // falls through to the integer 40 at the end of the chain
            assert!(state.operand_stack.pop().unwrap() == Pointer::from(40i32.wrapping_add(v)));
        }
    }

    fn presized_generator() -> ProgramGenerator {
        ProgramGenerator {
            constant_pool: ConstantPool::from(Vec::<ProgramObject>::with_capacity(16)),
            labels: crate::bytecode::compiler::LabelGenerator::new(),
            completed_code: Code::from(Vec::with_capacity(32)),
            globals: Globals::from(Vec::with_capacity(8)),
            entry: Entry::new(),
        }
    }
    #[kani::proof]
    #[kani::unwind(8)]
    #[kani::stub(std::fmt::format, fmt_stub)]
    #[kani::stub(<AnyErr0 as std::ops::Drop>::drop, drop_stub0)]
    fn c3p_block_concrete_presized() {
        let ast = AST::block(vec![
            AST::variable(Identifier::from("x"), AST::integer(1)),
            AST::block(vec![AST::variable(Identifier::from("x"), AST::integer(2))]),
            AST::access_variable(Identifier::from("x")),
        ]);
        let mut generator = presized_generator();
        let mut buffer = Code::from(Vec::with_capacity(32));
        let mut genv = Environment::new();
        let mut frame = CFrame::new();
        let r = ast.compile_into(&mut generator, &mut buffer, &mut genv, &mut frame, true);
        assert!(r.is_ok());
        let last = *buffer.get(Address::from_usize(buffer.length() - 1)).unwrap();
        assert!(last == OpCode::GetLocal { index: LocalFrameIndex::new(0) });
    }
    #[kani::proof]
    #[kani::unwind(8)]
    #[kani::stub(std::fmt::format, fmt_stub)]
    #[kani::stub(<AnyErr0 as std::ops::Drop>::drop, drop_stub0)]
    fn c2p_block_shadow_presized() {
        let n1 = any_name();
        let n2 = any_name();
        let n3 = any_name();
        let ast = AST::block(vec![
            AST::variable(Identifier::from(n1), AST::integer(1)),
            AST::block(vec![AST::variable(Identifier::from(n2), AST::integer(2))]),
            AST::access_variable(Identifier::from(n3)),
        ]);
        let mut generator = presized_generator();
        let mut buffer = Code::from(Vec::with_capacity(32));
        let mut genv = Environment::new();
        let mut frame = CFrame::new();
        let r = ast.compile_into(&mut generator, &mut buffer, &mut genv, &mut frame, true);
        assert!(r.is_ok());
        let last = *buffer.get(Address::from_usize(buffer.length() - 1)).unwrap();
        if n3 == n1 { assert!(last == OpCode::GetLocal { index: LocalFrameIndex::new(0) }); }
        else { match last { OpCode::GetGlobal { .. } => {}, _ => assert!(false) } }
    }
    #[kani::proof]
    #[kani::unwind(6)]
    #[kani::stub(std::fmt::format, fmt_stub)]
    #[kani::stub(<AnyErr0 as std::ops::Drop>::drop, drop_stub0)]
    fn f2p_constant_roundtrip_arraysink() {
        let k: u8 = kani::any();
        kani::assume(k < 6);
        let po = match k {
            0 => ProgramObject::Integer(kani::any()),
            1 => ProgramObject::Boolean(kani::any()),
            2 => ProgramObject::Null,
            3 => { let b: [u8; 2] = kani::any(); kani::assume(b[0] < 128 && b[1] < 128); ProgramObject::String(unsafe { String::from_utf8_unchecked(b.to_vec()) }) },
            4 => ProgramObject::Slot { name: any_cpi() },
            _ => ProgramObject::Class(vec![any_cpi(), any_cpi()]),
        };
        let code = Code::new();
        let mut buf = [0u8; 16];
        let used;
        {
            let mut w: &mut [u8] = &mut buf[..];
            po.serialize(&mut w, &code).unwrap();
            used = 16 - w.len();
        }
        let mut rd: &[u8] = &buf[..used];
        let mut code2 = Code::new();
        let back = ProgramObject::from_bytes(&mut rd, &mut code2);
        assert!(back == po);
        assert!(rd.is_empty());
    }
    #[kani::proof]
    #[kani::unwind(8)]
    #[kani::stub(std::fmt::format, fmt_stub)]
    #[kani::stub(<AnyErr0 as std::ops::Drop>::drop, drop_stub0)]
    fn s1p_global_step_direct() {
        let program = prog(vec![], vec![ProgramObject::String("x".to_string()), ProgramObject::String("y".to_string())]);
        let mut state = State::minimal();
        state.operand_stack = OperandStack::from(Vec::with_capacity(8));
        state.frame_stack.globals = GlobalFrame::from(vec!["x".to_string(), "y".to_string()], Pointer::Null).unwrap();
        let v: i32 = kani::any();
        state.operand_stack.push(Pointer::from(v));
        eval_set_global(&program, &mut state, &ConstantPoolIndex::new(0)).unwrap();
        eval_get_global(&program, &mut state, &ConstantPoolIndex::new(1)).unwrap();
        assert!(state.operand_stack.pop().unwrap() == Pointer::Null);
        assert!(state.operand_stack.pop().unwrap() == Pointer::from(v));
        assert!(*state.frame_stack.globals.get("x").unwrap() == Pointer::from(v));
    }

    #[kani::proof]
    #[kani::unwind(3)]
    #[kani::stub(std::fmt::format, fmt_unique)]
    #[kani::stub(<AnyErr0 as std::ops::Drop>::drop, drop_stub0)]
    fn c4u_conditional() {
        let keep: bool = kani::any();
        let ast = AST::conditional(AST::boolean(true), AST::integer(1), AST::integer(2));
        let mut generator = presized_generator();
        let mut buffer = Code::from(Vec::with_capacity(16));
        let mut genv = Environment::new();
        let mut frame = CFrame::Top;
        let r = ast.compile_into(&mut generator, &mut buffer, &mut genv, &mut frame, keep);
        assert!(r.is_ok());
        let n = buffer.length();
        if keep { assert!(n == 7); } else { assert!(n == 9); }
    }
    #[kani::proof]
    #[kani::unwind(4)]
    #[kani::stub(std::fmt::format, fmt_stub)]
    #[kani::stub(<AnyErr0 as std::ops::Drop>::drop, drop_stub0)]
    fn f2s_string_roundtrip_len2() {
        let b: [u8; 2] = kani::any();
        kani::assume(b[0] < 128 && b[1] < 128);
        let po = ProgramObject::String(unsafe { String::from_utf8_unchecked(b.to_vec()) });
        let code = Code::new();
        let mut buf = [0u8; 16];
        let used;
        {
            let mut w: &mut [u8] = &mut buf[..];
            po.serialize(&mut w, &code).unwrap();
            used = 16 - w.len();
        }
        assert!(used == 7);
        assert!(buf[0] == 2 && buf[1] == 2 && buf[2] == 0 && buf[3] == 0 && buf[4] == 0 && buf[5] == b[0] && buf[6] == b[1]);
        let mut rd: &[u8] = &buf[..used];
        let mut code2 = Code::new();
        let back = ProgramObject::from_bytes(&mut rd, &mut code2);
        assert!(back == po);
        assert!(rd.is_empty());
    }

    fn marker_other_arm() -> u32 { 77 }
    #[kani::proof]
    #[kani::unwind(3)]
    fn b1_box_concreteness() {
        let ast = AST::conditional(AST::boolean(true), AST::integer(1), AST::integer(2));
        let mut total = 0u32;
        if let AST::Conditional { condition, consequent, alternative } = &ast {
            match **condition { AST::Boolean(b) => { if b { total += 1; } }, _ => { total += marker_other_arm(); } }
            match **consequent { AST::Integer(i) => { total += i as u32; }, _ => { total += marker_other_arm(); } }
            match **alternative { AST::Integer(i) => { total += i as u32; }, _ => { total += marker_other_arm(); } }
        }
        assert!(total == 4);
        std::mem::forget(ast);
    }
}
