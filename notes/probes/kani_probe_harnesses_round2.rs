#![allow(dead_code, unused_imports, unused_macros, unused_variables)]
#[path = "/repo/src/parser/mod.rs"]
pub mod parser;
#[path = "/repo/src/bytecode/mod.rs"]
pub mod bytecode;

#[cfg(kani)]
mod proofs {
    use crate::bytecode::program::*;
    use crate::bytecode::bytecode::OpCode;
    use crate::bytecode::state::*;
    use crate::bytecode::heap::*;
    use crate::bytecode::interpreter::*;
    use crate::bytecode::serializable::*;
    use crate::bytecode::compiler::{ProgramGenerator, Environment, Compiled, LabelGenerator, Frame as CFrame};
    use crate::parser::*;
    use indexmap::IndexMap;
    use anyhow::Error as AnyErr;
    use std::mem::forget;

    fn fmt_stub(_args: std::fmt::Arguments<'_>) -> String { String::new() }
    fn drop_stub(_e: &mut AnyErr) { }
    static mut CTR: u8 = 0;
    fn fmt_unique(_args: std::fmt::Arguments<'_>) -> String {
        unsafe { CTR += 1; let mut v = Vec::with_capacity(2); v.push(b'L'); v.push(b'0' + CTR); String::from_utf8_unchecked(v) }
    }
    fn prog(code: Vec<OpCode>, constants: Vec<ProgramObject>) -> Program {
        Program { constant_pool: ConstantPool::from(constants), labels: Labels::new(), code: Code::from(code), globals: Globals::new(), entry: Entry::new() }
    }
    fn presized_generator() -> ProgramGenerator {
        ProgramGenerator {
            constant_pool: ConstantPool::from(Vec::<ProgramObject>::with_capacity(16)),
            labels: LabelGenerator::new(),
            completed_code: Code::from(Vec::with_capacity(32)),
            globals: Globals::from(Vec::with_capacity(8)),
            entry: Entry::new(),
        }
    }
    fn any_name() -> &'static str {
        let k: u8 = kani::any();
        kani::assume(k < 2);
        match k { 0 => "x", _ => "y" }
    }

    // A. one-key global get
    #[kani::proof]
    #[kani::unwind(4)]
    #[kani::stub(std::fmt::format, fmt_stub)]
    #[kani::stub(<AnyErr as std::ops::Drop>::drop, drop_stub)]
    fn a_global_one_key() {
        let mut cp = Vec::with_capacity(2);
        cp.push(ProgramObject::String("x".to_string()));
        cp.push(ProgramObject::String("y".to_string()));
        let program = prog(Vec::new(), cp);
        let mut state = State::minimal();
        state.operand_stack = OperandStack::from(Vec::with_capacity(8));
        let mut names = Vec::with_capacity(1); names.push("x".to_string());
        state.frame_stack.globals = GlobalFrame::from(names, Pointer::Null).unwrap();
        let v: i32 = kani::any();
        let which: bool = kani::any();
        state.operand_stack.push(Pointer::from(v));
        let idx = ConstantPoolIndex::new(if which { 0 } else { 1 });
        let r = eval_set_global(&program, &mut state, &idx);
        if which {
            assert!(r.is_ok());
            let r2 = eval_get_global(&program, &mut state, &idx);
            assert!(r2.is_ok());
            assert!(state.operand_stack.pop().unwrap() == Pointer::from(v));
            forget(r2);
        } else {
            assert!(r.is_err());
        }
        forget(r); forget(state); forget(program);
    }

    // B. render array with real fmt
    #[kani::proof]
    #[kani::unwind(5)]
    #[kani::stub(<AnyErr as std::ops::Drop>::drop, drop_stub)]
    fn b_render_array() {
        let mut mem = Vec::with_capacity(2);
        let b: bool = kani::any();
        let mut el = Vec::with_capacity(2); el.push(Pointer::Null); el.push(Pointer::Boolean(b));
        mem.push(HeapObject::from_pointers(el));
        let heap = Heap::from(mem);
        let r = Pointer::Reference(HeapIndex::from(0usize)).evaluate_as_string(&heap).unwrap();
        let bytes = r.as_bytes();
        if b { assert!(bytes.len() == 12 && bytes[7] == b't'); } else { assert!(bytes.len() == 13 && bytes[7] == b'f'); }
        assert!(bytes[0] == b'[' && bytes[5] == b',' && bytes[6] == b' ');
        forget(r); forget(heap);
    }

    // C. scope kernel idiom: let n1 = null (Local frame) ; read n2
    #[kani::proof]
    #[kani::unwind(4)]
    #[kani::stub(std::fmt::format, fmt_stub)]
    #[kani::stub(<AnyErr as std::ops::Drop>::drop, drop_stub)]
    fn c_let_then_read() {
        let n1 = any_name();
        let n2 = any_name();
        let let_ast = AST::Variable { name: Identifier(n1.to_string()), value: Box::new(AST::Null) };
        let read_ast = AST::AccessVariable { name: Identifier(n2.to_string()) };
        let mut generator = presized_generator();
        let mut buffer = Code::from(Vec::with_capacity(16));
        let mut genv = Environment::new();
        let mut frame = CFrame::new();
        let r1 = let_ast.compile_into(&mut generator, &mut buffer, &mut genv, &mut frame, false);
        assert!(r1.is_ok());
        let r2 = read_ast.compile_into(&mut generator, &mut buffer, &mut genv, &mut frame, true);
        assert!(r2.is_ok());
        let last = *buffer.get(Address::from_usize(buffer.length() - 1)).unwrap();
        if n1 == n2 { assert!(last == OpCode::GetLocal { index: LocalFrameIndex::new(0) }); }
        else { match last { OpCode::GetGlobal { .. } => {}, _ => assert!(false) } }
        forget(r1); forget(r2); forget(generator); forget(buffer); forget(genv); forget(frame); forget(let_ast); forget(read_ast);
    }

    // D. Conditional arm, atoms as children
    #[kani::proof]
    #[kani::unwind(4)]
    #[kani::stub(std::fmt::format, fmt_unique)]
    #[kani::stub(<AnyErr as std::ops::Drop>::drop, drop_stub)]
    fn d_conditional() {
        let keep: bool = kani::any();
        let ast = AST::Conditional { condition: Box::new(AST::Boolean(true)), consequent: Box::new(AST::Integer(1)), alternative: Box::new(AST::Integer(2)) };
        let mut generator = presized_generator();
        let mut buffer = Code::from(Vec::with_capacity(16));
        let mut genv = Environment::new();
        let mut frame = CFrame::Top;
        let r = ast.compile_into(&mut generator, &mut buffer, &mut genv, &mut frame, keep);
        assert!(r.is_ok());
        let n = buffer.length();
        if keep { assert!(n == 7); } else { assert!(n == 9); }
        forget(r); forget(generator); forget(buffer); forget(genv); forget(frame); forget(ast);
    }

    // E. operator fold
    fn any_op() -> Operator {
        let k: u8 = kani::any();
        kani::assume(k < 13);
        match k { 0 => Operator::Multiplication, 1 => Operator::Division, 2 => Operator::Module, 3 => Operator::Addition, 4 => Operator::Subtraction,
                  5 => Operator::Inequality, 6 => Operator::Equality, 7 => Operator::Less, 8 => Operator::LessEqual, 9 => Operator::Greater,
                  10 => Operator::GreaterEqual, 11 => Operator::Disjunction, _ => Operator::Conjunction }
    }
    #[kani::proof]
    #[kani::unwind(4)]
    fn e_fold_left() {
        let o1 = any_op(); let o2 = any_op();
        let mut tail = Vec::with_capacity(2);
        tail.push((o1, AST::Integer(2))); tail.push((o2, AST::Integer(3)));
        let ast = AST::from_binary_expression(AST::Integer(1), tail);
        match &ast {
            AST::CallMethod { object, name, arguments } => {
                assert!(name.as_str() == o2.as_str());
                assert!(arguments.len() == 1);
                match **object {
                    AST::CallMethod { object: ref inner, name: ref n1, arguments: ref a1 } => {
                        assert!(n1.as_str() == o1.as_str());
                        match **inner { AST::Integer(1) => {}, _ => assert!(false) }
                    }
                    _ => assert!(false),
                }
            }
            _ => assert!(false),
        }
        forget(ast);
    }

    // F. dispatch through a parent link
    #[kani::proof]
    #[kani::unwind(4)]
    #[kani::stub(std::fmt::format, fmt_stub)]
    #[kani::stub(<AnyErr as std::ops::Drop>::drop, drop_stub)]
    fn f_dispatch_parent() {
        let mut code = Vec::with_capacity(3); code.push(OpCode::Return); code.push(OpCode::Return); code.push(OpCode::Return);
        let mut cp = Vec::with_capacity(2);
        cp.push(ProgramObject::String("m".to_string())); cp.push(ProgramObject::String("+".to_string()));
        let program = prog(code, cp);
        let mut state = State::minimal();
        state.operand_stack = OperandStack::from(Vec::with_capacity(8));
        let method = ProgramObject::Method { name: ConstantPoolIndex::new(0), parameters: Arity::new(2), locals: Size::new(1), code: AddressRange::from(1, 1) };
        let mut methods = IndexMap::new();
        methods.insert("m".to_string(), method);
        let mut mem = Vec::with_capacity(2);
        mem.push(HeapObject::new_object(Pointer::Integer(40), IndexMap::new(), methods));
        mem.push(HeapObject::new_object(Pointer::from(0usize), IndexMap::new(), IndexMap::new()));
        state.heap = Heap::from(mem);
        let which: bool = kani::any();
        let v: i32 = kani::any();
        state.operand_stack.push(Pointer::from(1usize));
        state.operand_stack.push(Pointer::from(v));
        let r = eval_call_method(&program, &mut state, &ConstantPoolIndex::new(if which { 0 } else { 1 }), &Arity::new(2));
        assert!(r.is_ok());
        if which {
            assert!(state.instruction_pointer.get() == Some(Address::from_usize(1)));
            let f = state.frame_stack.get_locals().unwrap();
            assert!(*f.get(&LocalFrameIndex::new(1)).unwrap() == Pointer::from(v));
            assert!(*f.get(&LocalFrameIndex::new(2)).unwrap() == Pointer::Null);
        } else {
            assert!(state.operand_stack.pop().unwrap() == Pointer::from(40i32.wrapping_add(v)));
        }
        forget(r); forget(state); forget(program);
    }

    #[kani::proof]
    #[kani::unwind(4)]
    fn g1_op_to_string_concrete() {
        let s = Operator::GreaterEqual.to_string();
        assert!(s.as_str() == ">=");
        forget(s);
    }
    #[kani::proof]
    #[kani::unwind(4)]
    fn g2_op_to_string_symbolic() {
        let o = any_op();
        let s = o.to_string();
        assert!(s.len() == o.as_str().len());
        assert!(s.as_str() == o.as_str());
        forget(s);
    }
    #[kani::proof]
    #[kani::unwind(8)]
    fn g3_op_to_string_symbolic_u8() {
        let o = any_op();
        let s = o.to_string();
        assert!(s.as_str() == o.as_str());
        forget(s);
    }

    #[kani::proof]
    #[kani::unwind(4)]
    fn g4_as_str_twice() {
        let o = any_op();
        let a = o.as_str(); let b = o.as_str();
        assert!(a == b);
    }
    #[kani::proof]
    #[kani::unwind(4)]
    fn g5_string_from() {
        let o = any_op();
        let s = String::from(o.as_str());
        assert!(s.as_str() == o.as_str());
        forget(s);
    }
    #[kani::proof]
    #[kani::unwind(4)]
    fn g6_to_string_bytes() {
        let o = any_op();
        let s = o.to_string();
        let e = o.as_str().as_bytes();
        let g = s.as_bytes();
        assert!(g.len() == e.len());
        assert!(g[0] == e[0]);
        if e.len() == 2 { assert!(g[1] == e[1]); }
        forget(s);
    }

    fn pick(k: u8) -> &'static str { match k { 0 => "q", 1 => "qr", _ => "zz" } }
    #[kani::proof]
    #[kani::unwind(4)]
    fn g7_literal_prefix() {
        let k: u8 = kani::any(); kani::assume(k < 3);
        let s = String::from(pick(k));
        assert!(s.as_str() == pick(k));
        forget(s);
    }
    fn pick2(k: u8) -> &'static str { match k { 0 => "q", 1 => "wr", _ => "zz" } }
    #[kani::proof]
    #[kani::unwind(4)]
    fn g8_literal_noprefix() {
        let k: u8 = kani::any(); kani::assume(k < 3);
        let s = String::from(pick2(k));
        assert!(s.as_str() == pick2(k));
        forget(s);
    }

    fn pick3(k: u8) -> &'static str { match k { 0 => "qa", 1 => "wr", _ => "zz" } }
    #[kani::proof]
    #[kani::unwind(4)]
    fn g9_literal_samelen() {
        let k: u8 = kani::any(); kani::assume(k < 3);
        let s = String::from(pick3(k));
        assert!(s.as_str() == pick3(k));
        forget(s);
    }

    #[kani::proof]
    #[kani::unwind(6)]
    #[kani::stub(<AnyErr as std::ops::Drop>::drop, drop_stub)]
    fn b2_render_object_field_order() {
        let n1: u8 = kani::any(); let n2: u8 = kani::any();
        kani::assume(n1 >= b'a' && n1 <= b'z' && n2 >= b'a' && n2 <= b'z' && n1 != n2);
        let mut v1 = Vec::with_capacity(1); v1.push(n1);
        let mut v2 = Vec::with_capacity(1); v2.push(n2);
        let mut fields = IndexMap::new();
        fields.insert(unsafe { String::from_utf8_unchecked(v1) }, Pointer::Integer(1));
        fields.insert(unsafe { String::from_utf8_unchecked(v2) }, Pointer::Integer(2));
        let mut mem = Vec::with_capacity(1);
        mem.push(HeapObject::new_object(Pointer::Null, fields, IndexMap::new()));
        let heap = Heap::from(mem);
        let r = Pointer::Reference(HeapIndex::from(0usize)).evaluate_as_string(&heap).unwrap();
        let b = r.as_bytes();
        // object(a=1, b=2)
        assert!(b.len() == 16);
        let (lo, lov, hi, hiv) = if n1 < n2 { (n1, b'1', n2, b'2') } else { (n2, b'2', n1, b'1') };
        assert!(b[7] == lo && b[9] == lov && b[12] == hi && b[14] == hiv);
        forget(r); forget(heap);
    }
    // eval_opcode routing with opcode by value
    #[kani::proof]
    #[kani::unwind(4)]
    #[kani::stub(std::fmt::format, fmt_stub)]
    #[kani::stub(<AnyErr as std::ops::Drop>::drop, drop_stub)]
    fn h_route_drop() {
        let program = prog(Vec::with_capacity(1), Vec::with_capacity(1));
        let mut state = State::minimal();
        state.operand_stack = OperandStack::from(Vec::with_capacity(4));
        let v: i32 = kani::any();
        state.operand_stack.push(Pointer::from(7));
        state.operand_stack.push(Pointer::from(v));
        let mut out = String::new();
        let op = OpCode::Drop;
        let r = eval_opcode(&program, &mut state, &mut out, &op);
        assert!(r.is_ok());
        assert!(state.operand_stack.pop().unwrap() == Pointer::from(7));
        forget(r); forget(state); forget(program);
    }

    fn any_cpi() -> ConstantPoolIndex { ConstantPoolIndex::new(kani::any()) }
    fn any_opcode() -> OpCode {
        let k: u8 = kani::any();
        kani::assume(k < 17);
        match k {
            0 => OpCode::Label { name: any_cpi() },
            1 => OpCode::Literal { index: any_cpi() },
            2 => OpCode::Print { format: any_cpi(), arguments: Arity::new(kani::any()) },
            3 => OpCode::Array,
            4 => OpCode::Object { class: any_cpi() },
            5 => OpCode::GetField { name: any_cpi() },
            6 => OpCode::SetField { name: any_cpi() },
            7 => OpCode::CallMethod { name: any_cpi(), arguments: Arity::new(kani::any()) },
            8 => OpCode::CallFunction { name: any_cpi(), arguments: Arity::new(kani::any()) },
            9 => OpCode::SetLocal { index: LocalFrameIndex::new(kani::any()) },
            10 => OpCode::GetLocal { index: LocalFrameIndex::new(kani::any()) },
            11 => OpCode::SetGlobal { name: any_cpi() },
            12 => OpCode::GetGlobal { name: any_cpi() },
            13 => OpCode::Branch { label: any_cpi() },
            14 => OpCode::Jump { label: any_cpi() },
            15 => OpCode::Return,
            _ => OpCode::Drop,
        }
    }
    // Method constant with two Return/Drop-sized (1-byte) opcodes: sizes concrete, operands none; plus symbolic header
    #[kani::proof]
    #[kani::unwind(5)]
    #[kani::stub(std::fmt::format, fmt_stub)]
    #[kani::stub(<AnyErr as std::ops::Drop>::drop, drop_stub)]
    fn m1_method_roundtrip() {
        let mut ops = Vec::with_capacity(4);
        ops.push(OpCode::Literal { index: any_cpi() });
        ops.push(OpCode::SetLocal { index: LocalFrameIndex::new(kani::any()) });
        ops.push(OpCode::Return);
        let code = Code::from(ops);
        let po = ProgramObject::Method { name: any_cpi(), parameters: Arity::new(kani::any()), locals: Size::new(kani::any()), code: AddressRange::from(0, 3) };
        let mut buf = [0u8; 32];
        let used;
        {
            let mut w: &mut [u8] = &mut buf[..];
            po.serialize(&mut w, &code).unwrap();
            used = 32 - w.len();
        }
        assert!(used == 1 + 2 + 1 + 2 + 4 + 3 + 3 + 1);
        let mut rd: &[u8] = &buf[..used];
        let mut code2 = Code::from(Vec::with_capacity(4));
        let back = ProgramObject::from_bytes(&mut rd, &mut code2);
        assert!(back == po);
        assert!(code2 == code);
        assert!(rd.is_empty());
        forget(back); forget(po); forget(code); forget(code2);
    }
    struct Choppy { data: [u8; 32], n: usize }
    impl std::io::Write for Choppy {
        fn write(&mut self, buf: &[u8]) -> std::io::Result<usize> {
            if buf.is_empty() { return Ok(0); }
            let k: usize = kani::any();
            kani::assume(k >= 1 && k <= buf.len());
            let mut i = 0;
            while i < k { self.data[self.n + i] = buf[i]; i += 1; }
            self.n += k;
            Ok(k)
        }
        fn flush(&mut self) -> std::io::Result<()> { Ok(()) }
    }
    #[kani::proof]
    #[kani::unwind(6)]
    #[kani::stub(std::fmt::format, fmt_stub)]
    #[kani::stub(<AnyErr as std::ops::Drop>::drop, drop_stub)]
    fn m2_method_shortwrite() {
        let mut ops = Vec::with_capacity(4);
        ops.push(OpCode::Literal { index: any_cpi() });
        ops.push(OpCode::Return);
        let code = Code::from(ops);
        let po = ProgramObject::Method { name: any_cpi(), parameters: Arity::new(kani::any()), locals: Size::new(kani::any()), code: AddressRange::from(0, 2) };
        let mut sink = Choppy { data: [0u8; 32], n: 0 };
        let r = po.serialize(&mut sink, &code);
        if r.is_ok() { assert!(sink.n == 14); }
        forget(r); forget(po); forget(code);
    }

    fn any_ref2() -> Pointer {
        let k: u8 = kani::any();
        kani::assume(k < 3);
        match k { 0 => Pointer::Null, 1 => Pointer::Reference(HeapIndex::from(0usize)), _ => Pointer::Reference(HeapIndex::from(1usize)) }
    }
    // (b) termination of rendering on arbitrary 2-cell heaps (format stubbed: only recursion matters)
    #[kani::proof]
    #[kani::unwind(4)]
    #[kani::stub(std::fmt::format, fmt_stub)]
    #[kani::stub(<AnyErr as std::ops::Drop>::drop, drop_stub)]
    fn k_render_terminates() {
        let mut mem = Vec::with_capacity(2);
        let mut e0 = Vec::with_capacity(1); e0.push(any_ref2());
        let mut e1 = Vec::with_capacity(1); e1.push(any_ref2());
        mem.push(HeapObject::from_pointers(e0));
        mem.push(HeapObject::from_pointers(e1));
        let heap = Heap::from(mem);
        let r = Pointer::Reference(HeapIndex::from(0usize)).evaluate_as_string(&heap);
        forget(r); forget(heap);
    }
    // acyclic variant must pass: cell1 may not point anywhere, cell0 may point to cell1
    #[kani::proof]
    #[kani::unwind(4)]
    #[kani::stub(std::fmt::format, fmt_stub)]
    #[kani::stub(<AnyErr as std::ops::Drop>::drop, drop_stub)]
    fn k_render_terminates_acyclic() {
        let mut mem = Vec::with_capacity(2);
        let p0 = any_ref2();
        kani::assume(p0 != Pointer::Reference(HeapIndex::from(0usize)));
        let mut e0 = Vec::with_capacity(1); e0.push(p0);
        let mut e1 = Vec::with_capacity(1); e1.push(Pointer::Null);
        mem.push(HeapObject::from_pointers(e0));
        mem.push(HeapObject::from_pointers(e1));
        let heap = Heap::from(mem);
        let r = Pointer::Reference(HeapIndex::from(0usize)).evaluate_as_string(&heap);
        forget(r); forget(heap);
    }
    // (a) call function + return
    #[kani::proof]
    #[kani::unwind(5)]
    #[kani::stub(std::fmt::format, fmt_stub)]
    #[kani::stub(<AnyErr as std::ops::Drop>::drop, drop_stub)]
    fn l_call_function() {
        let mut code = Vec::with_capacity(4);
        code.push(OpCode::Return); code.push(OpCode::Return); code.push(OpCode::Return); code.push(OpCode::Return);
        let mut cp = Vec::with_capacity(2);
        cp.push(ProgramObject::String("f".to_string()));
        let params: u8 = kani::any(); kani::assume(params <= 3);
        cp.push(ProgramObject::Method { name: ConstantPoolIndex::new(0), parameters: Arity::new(params), locals: Size::new(1), code: AddressRange::from(2, 1) });
        let program = prog(code, cp);
        let mut state = State::minimal();
        state.operand_stack = OperandStack::from(Vec::with_capacity(8));
        let mut fs = Vec::with_capacity(1); fs.push(("f".to_string(), ConstantPoolIndex::new(1)));
        state.frame_stack.functions = GlobalFunctions::from(fs).unwrap();
        let a: i32 = kani::any(); let b: i32 = kani::any();
        state.operand_stack.push(Pointer::from(99));
        state.operand_stack.push(Pointer::from(a));
        state.operand_stack.push(Pointer::from(b));
        let r = eval_call_function(&program, &mut state, &ConstantPoolIndex::new(0), &Arity::new(2));
        if params == 2 {
            assert!(r.is_ok());
            assert!(state.instruction_pointer.get() == Some(Address::from_usize(2)));
            {
                let f = state.frame_stack.get_locals().unwrap();
                assert!(*f.get(&LocalFrameIndex::new(0)).unwrap() == Pointer::from(a));
                assert!(*f.get(&LocalFrameIndex::new(1)).unwrap() == Pointer::from(b));
                assert!(*f.get(&LocalFrameIndex::new(2)).unwrap() == Pointer::Null);
                assert!(f.get(&LocalFrameIndex::new(3)).is_err());
            }
            assert!(state.operand_stack.pop().unwrap() == Pointer::from(99));
            let r2 = eval_return(&program, &mut state);
            assert!(r2.is_ok());
            assert!(state.instruction_pointer.get() == Some(Address::from_usize(1)));
            forget(r2);
        } else {
            assert!(r.is_err());
        }
        forget(r); forget(state); forget(program);
    }
    // (d) allocation accounting
    #[kani::proof]
    #[kani::unwind(5)]
    #[kani::stub(std::fmt::format, fmt_stub)]
    #[kani::stub(<AnyErr as std::ops::Drop>::drop, drop_stub)]
    fn n_array_allocates_once() {
        let program = prog(Vec::with_capacity(1), Vec::with_capacity(1));
        let mut state = State::minimal();
        state.operand_stack = OperandStack::from(Vec::with_capacity(8));
        state.heap = Heap::from(Vec::with_capacity(4));
        let mb: usize = kani::any(); kani::assume(mb < (1usize << 40));
        state.heap.set_size(mb);
        let n: i32 = kani::any();
        let init: i32 = kani::any();
        state.operand_stack.push(Pointer::from(n));
        state.operand_stack.push(Pointer::from(init));
        kani::assume(n <= 2);
        let r = eval_array(&program, &mut state);
        if n >= 0 {
            assert!(r.is_ok());
            let p = state.operand_stack.pop().unwrap();
            assert!(p == Pointer::from(0usize));
            let cell = state.heap.dereference(&HeapIndex::from(0usize)).unwrap();
            match cell { HeapObject::Array(a) => { assert!(a.length() == n as usize); if n > 0 { assert!(*a.get_element(0).unwrap() == Pointer::from(init)); } }, _ => assert!(false) }
            assert!(state.heap.dereference(&HeapIndex::from(1usize)).is_err());
        } else {
            assert!(r.is_err());
            assert!(state.heap.dereference(&HeapIndex::from(0usize)).is_err());
        }
        forget(r); forget(state); forget(program);
    }

    #[kani::proof]
    #[kani::unwind(3)]
    #[kani::stub(std::fmt::format, fmt_stub)]
    #[kani::stub(<AnyErr as std::ops::Drop>::drop, drop_stub)]
    fn k2_render_selfloop() {
        let mut mem = Vec::with_capacity(1);
        let selfref: bool = kani::any();
        let mut e0 = Vec::with_capacity(1);
        e0.push(if selfref { Pointer::Reference(HeapIndex::from(0usize)) } else { Pointer::Null });
        mem.push(HeapObject::from_pointers(e0));
        let heap = Heap::from(mem);
        let r = Pointer::Reference(HeapIndex::from(0usize)).evaluate_as_string(&heap);
        forget(r); forget(heap);
    }
    #[kani::proof]
    #[kani::unwind(3)]
    #[kani::stub(std::fmt::format, fmt_stub)]
    #[kani::stub(<AnyErr as std::ops::Drop>::drop, drop_stub)]
    fn k3_render_noloop() {
        let mut mem = Vec::with_capacity(1);
        let v: i32 = kani::any(); kani::assume(v >= 0 && v < 10);
        let mut e0 = Vec::with_capacity(1);
        e0.push(Pointer::Integer(v));
        mem.push(HeapObject::from_pointers(e0));
        let heap = Heap::from(mem);
        let r = Pointer::Reference(HeapIndex::from(0usize)).evaluate_as_string(&heap);
        forget(r); forget(heap);
    }


    fn mk_state(globals: Vec<String>, functions: Vec<(String, ConstantPoolIndex)>, entry_locals: Vec<Pointer>, heap: Vec<HeapObject>) -> State {
        let gf = GlobalFrame::from(globals, Pointer::Null).unwrap();
        let ff = GlobalFunctions::from(functions).unwrap();
        let mut fs = FrameStack::from((gf, ff));
        fs.push(crate::bytecode::state::Frame::from(None, entry_locals));   // Vec::new() + push => capacity 4, no realloc for 3 more frames
        State { operand_stack: OperandStack::from(Vec::with_capacity(8)), frame_stack: fs, instruction_pointer: InstructionPointer::from(Address::from_usize(0)), heap: Heap::from(heap) }
    }
    #[kani::proof]
    #[kani::unwind(4)]
    #[kani::stub(std::fmt::format, fmt_stub)]
    #[kani::stub(<AnyErr as std::ops::Drop>::drop, drop_stub)]
    fn l2_call_function() {
        let mut code = Vec::with_capacity(4);
        code.push(OpCode::Return); code.push(OpCode::Return); code.push(OpCode::Return); code.push(OpCode::Return);
        let mut cp = Vec::with_capacity(2);
        cp.push(ProgramObject::String("f".to_string()));
        cp.push(ProgramObject::Method { name: ConstantPoolIndex::new(0), parameters: Arity::new(2), locals: Size::new(1), code: AddressRange::from(2, 1) });
        let program = prog(code, cp);
        let mut fs = Vec::with_capacity(1); fs.push(("f".to_string(), ConstantPoolIndex::new(1)));
        let mut state = mk_state(Vec::with_capacity(1), fs, Vec::with_capacity(1), Vec::with_capacity(1));
        let a: i32 = kani::any(); let b: i32 = kani::any();
        state.operand_stack.push(Pointer::from(99));
        state.operand_stack.push(Pointer::from(a));
        state.operand_stack.push(Pointer::from(b));
        let given: u8 = kani::any(); kani::assume(given == 1 || given == 2);
        let r = eval_call_function(&program, &mut state, &ConstantPoolIndex::new(0), &Arity::new(given));
        if given == 2 {
            assert!(r.is_ok());
            assert!(state.instruction_pointer.get() == Some(Address::from_usize(2)));
            {
                let f = state.frame_stack.get_locals().unwrap();
                assert!(*f.get(&LocalFrameIndex::new(0)).unwrap() == Pointer::from(a));
                assert!(*f.get(&LocalFrameIndex::new(1)).unwrap() == Pointer::from(b));
                assert!(*f.get(&LocalFrameIndex::new(2)).unwrap() == Pointer::Null);
                assert!(f.get(&LocalFrameIndex::new(3)).is_err());
            }
            assert!(state.operand_stack.pop().unwrap() == Pointer::from(99));
            let r2 = eval_return(&program, &mut state);
            assert!(r2.is_ok());
            assert!(state.instruction_pointer.get() == Some(Address::from_usize(1)));
            forget(r2);
        } else {
            assert!(r.is_err());
        }
        forget(r); forget(state); forget(program);
    }
    #[kani::proof]
    #[kani::unwind(5)]
    #[kani::stub(std::fmt::format, fmt_stub)]
    #[kani::stub(<AnyErr as std::ops::Drop>::drop, drop_stub)]
    fn f2_dispatch_parent() {
        let mut code = Vec::with_capacity(3); code.push(OpCode::Return); code.push(OpCode::Return); code.push(OpCode::Return);
        let mut cp = Vec::with_capacity(2);
        cp.push(ProgramObject::String("m".to_string())); cp.push(ProgramObject::String("+".to_string()));
        let program = prog(code, cp);
        let method = ProgramObject::Method { name: ConstantPoolIndex::new(0), parameters: Arity::new(2), locals: Size::new(1), code: AddressRange::from(1, 1) };
        let mut methods = IndexMap::new();
        methods.insert("m".to_string(), method);
        let mut mem = Vec::with_capacity(2);
        mem.push(HeapObject::new_object(Pointer::Integer(40), IndexMap::new(), methods));
        mem.push(HeapObject::new_object(Pointer::from(0usize), IndexMap::new(), IndexMap::new()));
        let mut state = mk_state(Vec::with_capacity(1), Vec::with_capacity(1), Vec::with_capacity(1), mem);
        let which: bool = kani::any();
        let v: i32 = kani::any();
        state.operand_stack.push(Pointer::from(1usize));
        state.operand_stack.push(Pointer::from(v));
        let r = eval_call_method(&program, &mut state, &ConstantPoolIndex::new(if which { 0 } else { 1 }), &Arity::new(2));
        assert!(r.is_ok());
        if which {
            assert!(state.instruction_pointer.get() == Some(Address::from_usize(1)));
            let f = state.frame_stack.get_locals().unwrap();
            assert!(*f.get(&LocalFrameIndex::new(1)).unwrap() == Pointer::from(v));
            assert!(*f.get(&LocalFrameIndex::new(2)).unwrap() == Pointer::Null);
        } else {
            assert!(state.operand_stack.pop().unwrap() == Pointer::from(40i32.wrapping_add(v)));
        }
        forget(r); forget(state); forget(program);
    }

    fn marker_obj() -> u32 { 5 }
    #[kani::proof]
    #[kani::unwind(3)]
    fn v1_variant_push() {
        let mut mem = Vec::with_capacity(1);
        let mut e0 = Vec::with_capacity(1); e0.push(Pointer::Null);
        mem.push(HeapObject::from_pointers(e0));
        let heap = Heap::from(mem);
        let t = match heap.dereference(&HeapIndex::from(0usize)) { Ok(HeapObject::Array(_)) => 1, Ok(HeapObject::Object(_)) => marker_obj(), Err(_) => marker_obj() + 1 };
        assert!(t == 1);
        forget(heap);
    }
    #[kani::proof]
    #[kani::unwind(3)]
    fn v2_variant_vecmacro() {
        let heap = Heap::from(vec![HeapObject::from_pointers(vec![Pointer::Null])]);
        let t = match heap.dereference(&HeapIndex::from(0usize)) { Ok(HeapObject::Array(_)) => 1, Ok(HeapObject::Object(_)) => marker_obj(), Err(_) => marker_obj() + 1 };
        assert!(t == 1);
        forget(heap);
    }
    #[kani::proof]
    #[kani::unwind(3)]
    fn v3_variant_allocate() {
        let mut heap = Heap::from(Vec::with_capacity(2));
        let mut e0 = Vec::with_capacity(1); e0.push(Pointer::Null);
        heap.allocate(HeapObject::from_pointers(e0));
        let t = match heap.dereference(&HeapIndex::from(0usize)) { Ok(HeapObject::Array(_)) => 1, Ok(HeapObject::Object(_)) => marker_obj(), Err(_) => marker_obj() + 1 };
        assert!(t == 1);
        forget(heap);
    }
    #[kani::proof]
    #[kani::unwind(4)]
    #[kani::stub(std::fmt::format, fmt_stub)]
    #[kani::stub(<AnyErr as std::ops::Drop>::drop, drop_stub)]
    fn l3_call_function_concrete_arity() {
        let mut code = Vec::with_capacity(4);
        code.push(OpCode::Return); code.push(OpCode::Return); code.push(OpCode::Return); code.push(OpCode::Return);
        let mut cp = Vec::with_capacity(2);
        cp.push(ProgramObject::String("f".to_string()));
        cp.push(ProgramObject::Method { name: ConstantPoolIndex::new(0), parameters: Arity::new(2), locals: Size::new(1), code: AddressRange::from(2, 1) });
        let program = prog(code, cp);
        let mut fs = Vec::with_capacity(1); fs.push(("f".to_string(), ConstantPoolIndex::new(1)));
        let mut state = mk_state(Vec::with_capacity(1), fs, Vec::with_capacity(1), Vec::with_capacity(1));
        let a: i32 = kani::any(); let b: i32 = kani::any();
        state.operand_stack.push(Pointer::from(99));
        state.operand_stack.push(Pointer::from(a));
        state.operand_stack.push(Pointer::from(b));
        let given: u8 = 2;
        let r = eval_call_function(&program, &mut state, &ConstantPoolIndex::new(0), &Arity::new(given));
        if given == 2 {
            assert!(r.is_ok());
            assert!(state.instruction_pointer.get() == Some(Address::from_usize(2)));
            {
                let f = state.frame_stack.get_locals().unwrap();
                assert!(*f.get(&LocalFrameIndex::new(0)).unwrap() == Pointer::from(a));
                assert!(*f.get(&LocalFrameIndex::new(1)).unwrap() == Pointer::from(b));
                assert!(*f.get(&LocalFrameIndex::new(2)).unwrap() == Pointer::Null);
                assert!(f.get(&LocalFrameIndex::new(3)).is_err());
            }
            assert!(state.operand_stack.pop().unwrap() == Pointer::from(99));
            let r2 = eval_return(&program, &mut state);
            assert!(r2.is_ok());
            assert!(state.instruction_pointer.get() == Some(Address::from_usize(1)));
            forget(r2);
        } else {
            assert!(r.is_err());
        }
        forget(r); forget(state); forget(program);
    }
}
