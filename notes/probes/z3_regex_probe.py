import z3, time
# comment regex from fml.lalrpop: /\*([^*]|[\r\n]|(\*+([^*/]|[\r\n])))*\*+/
def ch(c): return z3.Re(z3.StringVal(c))
allc = z3.AllChar(z3.ReSort(z3.StringSort()))
star = ch('*'); slash = ch('/')
not_star = z3.Diff(allc, star)
not_star_slash = z3.Diff(allc, z3.Union(star, slash))
crlf = z3.Union(ch('\r'), ch('\n'))
body = z3.Star(z3.Union(not_star, crlf, z3.Concat(z3.Plus(star), z3.Union(not_star_slash, crlf))))
impl = z3.Concat(ch('/'), star, body, z3.Plus(star), slash)
# reference: "/*" w "*/" where w does not contain "*/"
anys = z3.Star(allc)
contains_close = z3.Concat(anys, ch('*'), ch('/'), anys)
w = z3.Complement(contains_close)
# careful: w followed by "*/" where w + "*" must not create an earlier "*/": "/*" (w) "*/" with (w ++ "*") not containing "*/"... w itself has no "*/" and w does not end so that... e.g. w="a*" then "*/" gives "a**/" fine.
ref = z3.Concat(ch('/'), star, w, star, slash)
# but need: the *first* "*/" is the end: i.e., w"*" contains no "*/" : w has none, and w ends with anything -> w + "*" could contain "*/" only if... no, "*/" needs '/' after '*'.
s = z3.String('s')
sol = z3.Solver()
sol.add(z3.InRe(s, impl) != z3.InRe(s, ref))
t=time.time(); r = sol.check(); print(r, time.time()-t)
if r == z3.sat: print(repr(sol.model()[s]))
