import re, sys, glob, time
import z3
f = sorted(glob.glob('/repo/target/debug/build/fml-*/out/fml.rs'))[0]
src = open(f).read()
def table(name):
    m = re.search(r'const %s: &\'static \[i16\] = &\[(.*?)\];' % name, src, re.S)
    return [int(x) for x in re.findall(r'-?\d+', re.sub(r'//[^\n]*', '', m.group(1)))]
ACTION = table('__ACTION'); EOFA = table('__EOF_ACTION'); GOTO = table('__GOTO')
TERMS = re.findall(r'r###"(.*?)"###', re.search(r'const __TERMINAL: &\'static \[&\'static str\] = &\[(.*?)\];', src, re.S).group(1))
NT = len(TERMS); NS = len(EOFA); NNT = len(GOTO)//NS
prods = {}
for mm in re.finditer(r'pub\(crate\) fn __reduce(\d+)<.*?// (.*?) => ActionFn\((\d+)\);.*?\n\s*\((\d+), (\d+)\)\n', src, re.S):
    prods[int(mm.group(1))] = (mm.group(2).strip(), int(mm.group(3)), int(mm.group(4)), int(mm.group(5)))
T = {n:i for i,n in enumerate(TERMS)}
OPS = ['MULTIPLY','DIVIDE','MODULE','PLUS','MINUS','EQUAL','UNEQUAL','GREATER','GREATER_EQUAL','LESS','LESS_EQUAL','AND','OR']
LEVEL = {'MULTIPLY':1,'DIVIDE':1,'MODULE':1,'PLUS':2,'MINUS':2,'EQUAL':3,'UNEQUAL':3,'GREATER':3,'GREATER_EQUAL':3,'LESS':3,'LESS_EQUAL':3,'AND':4,'OR':5}

def explore(tokens, domains):
    """lock-step symbolic execution of the LR automaton with state merging.
       configuration = (states, spans-on-stack, pos, maxhi) ; path condition = per-symbol token sets (merged by union when configurations coincide is NOT sound in general:
       sets are per-symbol independent, so we merge only when all but one symbol's sets are equal)."""
    stats = dict(steps=0, forks=0, merges=0, maxfront=0)
    front = {}   # key -> list of domains (each a dict sym->frozenset)
    def add(d, key, dom):
        lst = d.setdefault(key, [])
        for i, other in enumerate(lst):
            diff = [k for k in dom if dom[k] != other[k]]
            if len(diff) == 0: stats['merges'] += 1; return
            if len(diff) == 1:
                k = diff[0]; nd = dict(other); nd[k] = other[k] | dom[k]; lst[i] = nd; stats['merges'] += 1; return
        lst.append(dom)
    add(front, ((0,), (), 0, ()), dict(domains))
    done = []   # (accepted?, maxhi, dom)
    while front:
        stats['maxfront'] = max(stats['maxfront'], sum(len(v) for v in front.values()))
        nxt = {}
        for (states, spans, pos, maxhi), doms in front.items():
            for dom in doms:
                st = states[-1]
                if pos < len(tokens):
                    tk = tokens[pos]
                    if isinstance(tk, tuple):
                        groups = {}
                        for t in dom[tk[1]]: groups.setdefault(ACTION[st*NT+t], set()).add(t)
                        stats['forks'] += len(groups)-1
                        alts = [(a, {**dom, tk[1]: frozenset(g)}) for a, g in groups.items()]
                    else:
                        alts = [(ACTION[st*NT+tk], dom)]
                else:
                    alts = [(EOFA[st], dom)]
                for act, d2 in alts:
                    stats['steps'] += 1
                    if act > 0:
                        mh = dict(maxhi); mh[pos] = max(mh.get(pos, -1), pos)
                        add(nxt, (states+(act-1,), spans+((pos,pos),), pos+1, tuple(sorted(mh.items()))), d2)
                    elif act < 0:
                        p = -act-1
                        if p not in prods: done.append((True, dict(maxhi), d2)); continue
                        name, afn, pop, nt = prods[p]
                        kids = spans[len(spans)-pop:] if pop else ()
                        lo = kids[0][0] if kids else pos; hi = kids[-1][1] if kids else pos-1
                        ns = states[:len(states)-pop] if pop else states
                        nsp = spans[:len(spans)-pop] if pop else spans
                        mh = dict(maxhi)
                        if pop: mh[lo] = max(mh.get(lo, -1), hi)
                        add(nxt, (ns+(GOTO[ns[-1]*NNT+nt]-1,), nsp+((lo,hi),), pos, tuple(sorted(mh.items()))), d2)
                    else:
                        done.append((False, dict(maxhi), d2))
        front = nxt
    return done, stats

def check(nops):
    ident = T['IDENTIFIER']
    tokens = []
    for i in range(nops): tokens += [ident, ('sym', i)]
    tokens.append(ident)
    n_tok = len(tokens)
    domains = {i: frozenset(T[o] for o in OPS) for i in range(nops)}
    t0 = time.time()
    done, stats = explore(tokens, domains)
    o = [z3.Int('o%d'%i) for i in range(nops)]
    def lvl(x):
        e = z3.IntVal(0)
        for name in OPS: e = z3.If(x == T[name], LEVEL[name], e)
        return e
    L = [lvl(x) for x in o]
    def ref_r(i):
        e = z3.IntVal(n_tok-1)
        for j in range(nops-1, i, -1): e = z3.If(L[j] >= L[i], 2*j, e)
        return e
    q = 0; ts = 0.0; combos = 0
    for ok, maxhi, dom in done:
        s = z3.Solver()
        for i in range(nops): s.add(z3.Or([o[i] == t for t in dom[i]]))
        c = 1
        for i in range(nops): c *= len(dom[i])
        combos += c
        if not ok: s.add(z3.BoolVal(True))
        else: s.add(z3.Or([ref_r(i) != maxhi[2*i+2] for i in range(nops)]))
        t1 = time.time(); r = s.check(); ts += time.time()-t1; q += 1
        if r == z3.sat:
            m = s.model(); print('VIOLATION', [TERMS[m[x].as_long()] for x in o], 'accepted' if ok else 'rejected', maxhi); return False
    print('ops=%d merged-paths=%d covering %d of %d operator tuples; forks=%d merges=%d steps=%d max-frontier=%d; %d z3 queries all unsat; wall %.2fs (solver %.2fs)'
          % (nops, len(done), combos, 13**nops, stats['forks'], stats['merges'], stats['steps'], stats['maxfront'], q, time.time()-t0, ts))
    return True
for n in (1,2,3,4): check(n)

# dangling else: IF c THEN IF c THEN a ELSE b   -- the ELSE must close the inner IF:
# observable: the largest node starting at the inner IF (token 3) must extend to the end (covers ELSE b), 
def concrete(tokens_names):
    toks = [T[n] for n in tokens_names]
    done, stats = explore(toks, {})
    return done
d = concrete(['IF','IDENTIFIER','THEN','IF','IDENTIFIER','THEN','IDENTIFIER','ELSE','IDENTIFIER'])
print('dangling else:', [(ok, mh.get(3)) for ok, mh, _ in d], '(inner IF at token 3 should span to 8)')
