#![allow(dead_code, unused_imports, unused_macros, unused_variables)]
#[path = "/repo/src/parser/mod.rs"]
pub mod parser;
#[path = "/repo/src/bytecode/mod.rs"]
pub mod bytecode;
#[cfg(kani)]
mod proofs {
    use crate::bytecode::program::*;
    use crate::bytecode::bytecode::OpCode;
    use crate::bytecode::state::*;
    use crate::bytecode::heap::*;
    use crate::bytecode::interpreter::*;
    use anyhow::Error as AnyErr;
    use std::mem::forget;
    fn fmt_stub(_args: std::fmt::Arguments<'_>) -> String { String::new() }
    fn drop_stub(_e: &mut AnyErr) { }
    #[kani::proof]
    #[kani::unwind(4)]
    #[kani::stub(std::fmt::format, fmt_stub)]
    #[kani::stub(<AnyErr as std::ops::Drop>::drop, drop_stub)]
    fn y1_object_one_field() {
        let mut cp = Vec::with_capacity(3);
        cp.push(ProgramObject::String("f".to_string()));
        cp.push(ProgramObject::Slot { name: ConstantPoolIndex::new(0) });
        let mut members = Vec::with_capacity(1); members.push(ConstantPoolIndex::new(1));
        cp.push(ProgramObject::Class(members));
        let program = Program { constant_pool: ConstantPool::from(cp), labels: Labels::new(), code: Code::from(Vec::with_capacity(1)), globals: Globals::new(), entry: Entry::new() };
        let mut state = State::minimal();
        state.operand_stack = OperandStack::from(Vec::with_capacity(8));
        state.heap = Heap::from(Vec::with_capacity(2));
        let p: i32 = kani::any(); let v: i32 = kani::any();
        state.operand_stack.push(Pointer::from(77));
        state.operand_stack.push(Pointer::from(p));   // parent
        state.operand_stack.push(Pointer::from(v));   // field f
        let r = eval_object(&program, &mut state, &ConstantPoolIndex::new(2));
        assert!(r.is_ok());
        assert!(state.operand_stack.pop().unwrap() == Pointer::from(0usize));
        assert!(state.operand_stack.pop().unwrap() == Pointer::from(77));
        match state.heap.dereference(&HeapIndex::from(0usize)).unwrap() {
            HeapObject::Object(o) => { assert!(o.parent == Pointer::from(p)); assert!(*o.get_field("f").unwrap() == Pointer::from(v)); }
            _ => assert!(false),
        }
        assert!(state.heap.dereference(&HeapIndex::from(1usize)).is_err());
        forget(r); forget(state); forget(program);
    }
}
