//! Native stand-in for the `kani` crate, used only to replay counterexamples against the real
//! code with the real containers (DESIGN R10). `any()` returns the bytes Kani's concrete playback
//! recorded, in order; `assume` is a no-op that flags a violated assumption; `cover!` does nothing.
use std::cell::RefCell;

thread_local! {
    static VALUES: RefCell<Vec<Vec<u8>>> = RefCell::new(Vec::new());
    static CURSOR: RefCell<usize> = RefCell::new(0);
    static ASSUME_BROKEN: RefCell<bool> = RefCell::new(false);
}

pub fn load(values: Vec<Vec<u8>>) {
    VALUES.with(|v| *v.borrow_mut() = values);
    CURSOR.with(|c| *c.borrow_mut() = 0);
    ASSUME_BROKEN.with(|c| *c.borrow_mut() = false);
}

pub fn assumption_broken() -> bool {
    ASSUME_BROKEN.with(|c| *c.borrow())
}

thread_local! {
    static RNG: RefCell<Option<u64>> = RefCell::new(None);
}

/// Smoke mode (not part of any claim): `any()` draws biased pseudo-random bytes instead of recorded values.
pub fn load_random(seed: u64) {
    RNG.with(|r| *r.borrow_mut() = Some(seed.wrapping_mul(0x9E3779B97F4A7C15) | 1));
    ASSUME_BROKEN.with(|c| *c.borrow_mut() = false);
}

fn rnd() -> Option<u64> {
    RNG.with(|r| {
        let mut r = r.borrow_mut();
        match *r {
            None => None,
            Some(mut x) => { x ^= x << 13; x ^= x >> 7; x ^= x << 17; *r = Some(x); Some(x) }
        }
    })
}

fn next(size: usize) -> Vec<u8> {
    if let Some(x) = rnd() {
        let mut bytes = vec![0u8; size];
        let style = x % 8;
        if style <= 4 {
            bytes[0] = ((x >> 8) % 6) as u8; // small value
        } else if style == 5 {
            // boundary values
            let pick = (x >> 8) % 4;
            for (i, b) in bytes.iter_mut().enumerate() {
                *b = match pick { 0 => 0xff, 1 => if i + 1 == size { 0x80 } else { 0 }, 2 => if i + 1 == size { 0x7f } else { 0xff }, _ => 0 };
            }
        } else {
            let mut y = x;
            for b in bytes.iter_mut() { y ^= y << 13; y ^= y >> 7; y ^= y << 17; *b = (y >> 24) as u8; }
        }
        return bytes;
    }
    let i = CURSOR.with(|c| { let mut c = c.borrow_mut(); let i = *c; *c += 1; i });
    let mut bytes = VALUES.with(|v| v.borrow().get(i).cloned()).unwrap_or_default();
    bytes.resize(size, 0);
    bytes
}

pub trait Arbitrary: Sized {
    fn any() -> Self;
}

/// Arrays of bytes: Kani draws a primitive array as one value (`any_raw_array`), so playback records one blob of N bytes.
impl<const N: usize> Arbitrary for [u8; N] {
    fn any() -> Self {
        let b = next(N);
        let mut a = [0u8; N];
        a.copy_from_slice(&b);
        a
    }
}

macro_rules! prim {
    ($($t:ty),*) => { $(
        impl Arbitrary for $t {
            fn any() -> Self {
                let b = next(std::mem::size_of::<$t>());
                let mut a = [0u8; std::mem::size_of::<$t>()];
                a.copy_from_slice(&b);
                <$t>::from_le_bytes(a)
            }
        }
    )* };
}
prim!(u8, u16, u32, u64, u128, usize, i8, i16, i32, i64, i128, isize);

impl Arbitrary for bool {
    fn any() -> Self {
        let b = u8::any();
        assume(b < 2);
        b == 1
    }
}

impl Arbitrary for char {
    fn any() -> Self {
        let v = u32::any();
        match char::from_u32(v) {
            Some(c) => c,
            None => { assume(false); 'x' }
        }
    }
}

pub fn any<T: Arbitrary>() -> T {
    T::any()
}

/// Payload of the unwind that ends a native run whose recorded / random values break an assumption.
pub struct AssumptionBroken;

pub fn assume(cond: bool) {
    if !cond {
        ASSUME_BROKEN.with(|c| *c.borrow_mut() = true);
        // stop here: code after a broken assumption must not run (it may allocate gigabytes or loop)
        std::panic::resume_unwind(Box::new(AssumptionBroken));
    }
}

#[macro_export]
macro_rules! cover {
    ($($t:tt)*) => {};
}
