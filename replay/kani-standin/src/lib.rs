//! Native stand-in for the `kani` crate, used only to replay counterexamples against the real
//! code with the real containers (DESIGN R10). `any()` returns the bytes Kani's concrete playback
//! recorded, in order; `assume` is a no-op that flags a violated assumption; `cover!` does nothing.
use std::cell::RefCell;

thread_local! {
    static VALUES: RefCell<Vec<Vec<u8>>> = RefCell::new(Vec::new());
    static CURSOR: RefCell<usize> = RefCell::new(0);
    static ASSUME_BROKEN: RefCell<bool> = RefCell::new(false);
}

pub fn load(values: Vec<Vec<u8>>) {
    VALUES.with(|v| *v.borrow_mut() = values);
    CURSOR.with(|c| *c.borrow_mut() = 0);
    ASSUME_BROKEN.with(|c| *c.borrow_mut() = false);
}

pub fn assumption_broken() -> bool {
    ASSUME_BROKEN.with(|c| *c.borrow())
}

fn next(size: usize) -> Vec<u8> {
    let i = CURSOR.with(|c| { let mut c = c.borrow_mut(); let i = *c; *c += 1; i });
    let mut bytes = VALUES.with(|v| v.borrow().get(i).cloned()).unwrap_or_default();
    bytes.resize(size, 0);
    bytes
}

pub trait Arbitrary: Sized {
    fn any() -> Self;
}

macro_rules! prim {
    ($($t:ty),*) => { $(
        impl Arbitrary for $t {
            fn any() -> Self {
                let b = next(std::mem::size_of::<$t>());
                let mut a = [0u8; std::mem::size_of::<$t>()];
                a.copy_from_slice(&b);
                <$t>::from_le_bytes(a)
            }
        }
    )* };
}
prim!(u8, u16, u32, u64, u128, usize, i8, i16, i32, i64, i128, isize);

impl Arbitrary for bool {
    fn any() -> Self {
        let b = u8::any();
        assume(b < 2);
        b == 1
    }
}

impl Arbitrary for char {
    fn any() -> Self {
        let v = u32::any();
        match char::from_u32(v) {
            Some(c) => c,
            None => { assume(false); 'x' }
        }
    }
}

pub fn any<T: Arbitrary>() -> T {
    T::any()
}

pub fn assume(cond: bool) {
    if !cond {
        ASSUME_BROKEN.with(|c| *c.borrow_mut() = true);
    }
}

#[macro_export]
macro_rules! cover {
    ($($t:tt)*) => {};
}
