//! Native replay for smt/c02_compile.py: reads an AST as JSON (the format `fml parse --format json` writes) on stdin,
//! compiles it with the real compiler and prints the program as the listing `fml disassemble` prints
//! (or `ERR <message>` / `PANIC`).
use std::io::Read;

fn main() {
    let mut text = String::new();
    std::io::stdin().read_to_string(&mut text).unwrap();
    let ast: fmlverif::parser::AST = serde_json::from_str(&text).expect("AST JSON");
    let r = std::panic::catch_unwind(|| fmlverif::bytecode::compile(&ast));
    match r {
        Ok(Ok(program)) => print!("OK\n{}", program),
        Ok(Err(e)) => println!("ERR {}", e),
        Err(_) => println!("PANIC"),
    }
}
