//! Native replay of a built-in dispatch counterexample found by the MIR/z3 engine:
//!   dispatch <name-as-hex> <receiver> <argument>*      with values  null | int:<i32> | bool:<0|1> | ref:<usize>
//! Prints one line: `OK <value>` | `ERR` | `PANIC <message>`.
use fmlverif::bytecode::heap::*;
use fmlverif::bytecode::interpreter::eval_call_method;
use fmlverif::bytecode::program::*;
use fmlverif::util::*;

fn parse(v: &str) -> Pointer {
    if v == "null" { return Pointer::Null; }
    let (k, p) = v.split_at(v.find(':').unwrap());
    let p = &p[1..];
    match k {
        "int" => Pointer::Integer(p.parse().unwrap()),
        "bool" => Pointer::Boolean(p == "1"),
        _ => Pointer::Reference(HeapIndex::from(p.parse::<usize>().unwrap())),
    }
}

fn show(p: &Pointer) -> String {
    match p {
        Pointer::Null => "null".to_string(),
        Pointer::Integer(i) => format!("int:{}", i),
        Pointer::Boolean(b) => format!("bool:{}", if *b { 1 } else { 0 }),
        Pointer::Reference(r) => format!("ref:{}", r.as_usize()),
    }
}

fn main() {
    let a: Vec<String> = std::env::args().collect();
    let hex = &a[1];
    let bytes: Vec<u8> = (0..hex.len() / 2).map(|i| u8::from_str_radix(&hex[2 * i..2 * i + 2], 16).unwrap()).collect();
    let name = String::from_utf8(bytes).unwrap();
    let values: Vec<Pointer> = a[2..].iter().map(|s| parse(s)).collect();
    let program = prog(filler_code(2), vec![ProgramObject::String(name)]);
    let mut state = plain_state();
    for v in values.iter() { state.operand_stack.push(*v); }
    let arity = Arity::new(values.len() as u8);
    std::panic::set_hook(Box::new(|_| {}));
    let r = std::panic::catch_unwind(move || {
        let r = eval_call_method(&program, &mut state, &ConstantPoolIndex::new(0), &arity);
        match r {
            Ok(()) => format!("OK {}", show(&state.operand_stack.pop().unwrap())),
            Err(_) => "ERR".to_string(),
        }
    });
    match r {
        Ok(line) => println!("{}", line),
        Err(e) => {
            let msg = e.downcast_ref::<&str>().map(|s| s.to_string()).or_else(|| e.downcast_ref::<String>().cloned()).unwrap_or_default();
            println!("PANIC {}", msg);
        }
    }
}
