//! Native replay of listing counterexamples found by smt/c17_listing.py: renders two concrete values (or two whole
//! programs) with the real `Display` impls the disassemble action uses and prints both renderings, hex-encoded.
//!   listing item <spec> <spec>        one element each:  c=<constant> | o=<instruction>
//!   listing program <spec> <spec>     elements joined by '/':  c=<constant>  o=<instruction>  g=<u16>  e=<u16>
//! constants:    Integer:<i32>  Boolean:<0|1>  Null  String:<utf-8 hex>  Slot:<u16>
//!               Method:<name>:<parameters>:<locals>:<start>:<length>  Class:<u16>,<u16>,...
//! instructions: <Variant>[:<operand>]*   (operands in declaration order)
use fmlverif::util::OpCode;
use fmlverif::bytecode::program::*;

fn unhex(hex: &str) -> String {
    let bytes: Vec<u8> = (0..hex.len() / 2).map(|i| u8::from_str_radix(&hex[2 * i..2 * i + 2], 16).unwrap()).collect();
    String::from_utf8(bytes).unwrap()
}

fn hex(s: &str) -> String {
    s.bytes().map(|b| format!("{:02x}", b)).collect()
}

fn constant(s: &str) -> ProgramObject {
    let mut it = s.splitn(2, ':');
    let kind = it.next().unwrap();
    let rest = it.next().unwrap_or("");
    let f: Vec<&str> = rest.split(':').collect();
    match kind {
        "Integer" => ProgramObject::Integer(rest.parse().unwrap()),
        "Boolean" => ProgramObject::Boolean(rest == "1"),
        "Null" => ProgramObject::Null,
        "String" => ProgramObject::String(unhex(rest)),
        "Slot" => ProgramObject::Slot { name: ConstantPoolIndex::new(rest.parse().unwrap()) },
        "Method" => ProgramObject::Method {
            name: ConstantPoolIndex::new(f[0].parse().unwrap()),
            parameters: Arity::new(f[1].parse().unwrap()),
            locals: Size::new(f[2].parse().unwrap()),
            code: AddressRange::new(Address::from_u32(f[3].parse().unwrap()), f[4].parse().unwrap()),
        },
        "Class" => ProgramObject::Class(rest.split(',').filter(|x| !x.is_empty()).map(|x| ConstantPoolIndex::new(x.parse().unwrap())).collect()),
        _ => panic!("constant kind {}", kind),
    }
}

fn instruction(s: &str) -> OpCode {
    let f: Vec<&str> = s.split(':').collect();
    let c = |i: usize| ConstantPoolIndex::new(f[i].parse().unwrap());
    let l = |i: usize| LocalFrameIndex::new(f[i].parse().unwrap());
    let a = |i: usize| Arity::new(f[i].parse().unwrap());
    match f[0] {
        "Literal" => OpCode::Literal { index: c(1) },
        "GetLocal" => OpCode::GetLocal { index: l(1) },
        "SetLocal" => OpCode::SetLocal { index: l(1) },
        "GetGlobal" => OpCode::GetGlobal { name: c(1) },
        "SetGlobal" => OpCode::SetGlobal { name: c(1) },
        "Object" => OpCode::Object { class: c(1) },
        "Array" => OpCode::Array,
        "GetField" => OpCode::GetField { name: c(1) },
        "SetField" => OpCode::SetField { name: c(1) },
        "CallMethod" => OpCode::CallMethod { name: c(1), arguments: a(2) },
        "CallFunction" => OpCode::CallFunction { name: c(1), arguments: a(2) },
        "Label" => OpCode::Label { name: c(1) },
        "Print" => OpCode::Print { format: c(1), arguments: a(2) },
        "Jump" => OpCode::Jump { label: c(1) },
        "Branch" => OpCode::Branch { label: c(1) },
        "Return" => OpCode::Return,
        "Drop" => OpCode::Drop,
        _ => panic!("instruction {}", f[0]),
    }
}

fn item(spec: &str) -> String {
    let (k, v) = spec.split_at(2);
    match k {
        "c=" => format!("{}", constant(v)),
        "o=" => format!("{}", instruction(v)),
        _ => panic!("element {}", spec),
    }
}

fn build(spec: &str) -> Program {
    let (mut constants, mut ops, mut globals, mut entry) = (Vec::new(), Vec::new(), Vec::new(), Entry::new());
    for e in spec.split('/').filter(|e| !e.is_empty()) {
        let (k, v) = e.split_at(2);
        match k {
            "c=" => constants.push(constant(v)),
            "o=" => ops.push(instruction(v)),
            "g=" => globals.push(ConstantPoolIndex::new(v.parse().unwrap())),
            "e=" => entry = Entry::from(v.parse::<u16>().unwrap()),
            _ => panic!("element {}", e),
        }
    }
    Program { constant_pool: ConstantPool::from(constants), labels: Labels::new(), code: Code::from(ops), globals: Globals::from(globals), entry }
}

/// `listing serialize <spec>`: the bytes the real serializer writes, in hex.
fn serialize(spec: &str) -> String {
    use fmlverif::bytecode::serializable::Serializable;
    let p = build(spec);
    let mut sink: Vec<u8> = Vec::new();
    match p.serialize(&mut sink) {
        Ok(()) => sink.iter().map(|b| format!("{:02x}", b)).collect(),
        Err(_) => "ERR".to_string(),
    }
}

/// `listing roundtrip <spec>`: serialize, load again, compare constants / code / globals / entry and print the label table.
fn roundtrip(spec: &str) -> String {
    use fmlverif::bytecode::serializable::Serializable;
    let p = build(spec);
    let mut sink: Vec<u8> = Vec::new();
    if p.serialize(&mut sink).is_err() { return "ERR".to_string(); }
    let mut input: &[u8] = &sink[..];
    let q = Program::from_bytes(&mut input);
    let same = q.constant_pool == p.constant_pool && q.code == p.code && q.globals == p.globals && q.entry == p.entry && input.is_empty();
    let mut names: Vec<String> = p.constant_pool.iter().filter_map(|c| match c { ProgramObject::String(s) => Some(s.clone()), _ => None }).collect();
    names.sort();
    names.dedup();
    let labels: Vec<String> = names.iter().filter_map(|n| q.labels.get(n).ok().map(|a| format!("{}@{}", hex(n), a.value_u32()))).collect();
    format!("{} labels={}", if same { "SAME" } else { "DIFFERENT" }, labels.join(","))
}

fn program(spec: &str) -> String {
    let (mut constants, mut ops, mut globals, mut entry) = (Vec::new(), Vec::new(), Vec::new(), Entry::new());
    for e in spec.split('/').filter(|e| !e.is_empty()) {
        let (k, v) = e.split_at(2);
        match k {
            "c=" => constants.push(constant(v)),
            "o=" => ops.push(instruction(v)),
            "g=" => globals.push(ConstantPoolIndex::new(v.parse().unwrap())),
            "e=" => entry = Entry::from(v.parse::<u16>().unwrap()),
            _ => panic!("element {}", e),
        }
    }
    let p = Program { constant_pool: ConstantPool::from(constants), labels: Labels::new(), code: Code::from(ops), globals: Globals::from(globals), entry };
    format!("{}", p)
}

fn main() {
    let a: Vec<String> = std::env::args().skip(1).collect();
    if a[0] == "serialize" || a[0] == "roundtrip" {
        let r = std::panic::catch_unwind(|| if a[0] == "serialize" { serialize(&a[1]) } else { roundtrip(&a[1]) });
        println!("{}", r.unwrap_or("PANIC".to_string()));
        return;
    }
    let render = |s: &str| if a[0] == "item" { item(s) } else { program(s) };
    let r = std::panic::catch_unwind(|| (render(&a[1]), render(&a[2])));
    match r {
        Ok((x, y)) => println!("{} A={} B={}", if x == y { "SAME" } else { "DIFFERENT" }, hex(&x), hex(&y)),
        Err(_) => println!("PANIC"),
    }
}
