//! Native replay of VM-kernel counterexamples found by smt/vm_kernels.py: runs the real kernel on the concrete
//! state the solver returned and prints one line describing the outcome and the post-state.
//!   vmstep array-method <name-hex> <n> <element>*n <argument>*
//!   vmstep call-function <params> <locals> <start> <ip> <const-index> <given-arity> <stack value>+
//! values: null | int:<i32> | bool:<0|1> | ref:<usize>
use fmlverif::bytecode::heap::*;
use fmlverif::bytecode::interpreter::*;
use fmlverif::bytecode::program::*;
use fmlverif::bytecode::state::*;
use fmlverif::util::*;

fn parse(v: &str) -> Pointer {
    if v == "null" { return Pointer::Null; }
    let (k, p) = v.split_at(v.find(':').unwrap());
    let p = &p[1..];
    match k {
        "int" => Pointer::Integer(p.parse().unwrap()),
        "bool" => Pointer::Boolean(p == "1"),
        _ => Pointer::Reference(HeapIndex::from(p.parse::<usize>().unwrap())),
    }
}

fn show(p: &Pointer) -> String {
    match p {
        Pointer::Null => "null".to_string(),
        Pointer::Integer(i) => format!("int:{}", i),
        Pointer::Boolean(b) => format!("bool:{}", if *b { 1 } else { 0 }),
        Pointer::Reference(r) => format!("ref:{}", r.as_usize()),
    }
}

fn unhex(hex: &str) -> String {
    let bytes: Vec<u8> = (0..hex.len() / 2).map(|i| u8::from_str_radix(&hex[2 * i..2 * i + 2], 16).unwrap()).collect();
    String::from_utf8(bytes).unwrap()
}

fn array_method(a: &[String]) -> String {
    let name = unhex(&a[0]);
    let n: usize = a[1].parse().unwrap();
    let elements: Vec<Pointer> = a[2..2 + n].iter().map(|s| parse(s)).collect();
    let args: Vec<Pointer> = a[2 + n..].iter().map(|s| parse(s)).collect();
    let program = prog(filler_code(2), vec![ProgramObject::String(name)]);
    let mut state = plain_state();
    state.heap = Heap::from(vec![HeapObject::from_pointers(elements)]);
    state.operand_stack.push(Pointer::Reference(HeapIndex::from(0usize)));
    for v in args.iter() { state.operand_stack.push(*v); }
    let r = eval_call_method(&program, &mut state, &ConstantPoolIndex::new(0), &Arity::new(args.len() as u8 + 1));
    let cells: Vec<String> = match state.heap.dereference(&HeapIndex::from(0usize)) {
        Ok(HeapObject::Array(arr)) => arr.iter().map(show).collect(),
        _ => vec!["?".to_string()],
    };
    match r {
        Ok(()) => format!("OK {} [{}]", show(&state.operand_stack.pop().unwrap()), cells.join(" ")),
        Err(_) => format!("ERR [{}]", cells.join(" ")),
    }
}

fn call_function(a: &[String]) -> String {
    let (params, locals, start, ip, index, given): (u8, u16, u32, u32, u16, u8) =
        (a[0].parse().unwrap(), a[1].parse().unwrap(), a[2].parse().unwrap(), a[3].parse().unwrap(), a[4].parse().unwrap(), a[5].parse().unwrap());
    let constants = vec![
        ProgramObject::String("f".to_string()),
        ProgramObject::Method { name: ConstantPoolIndex::new(0), parameters: Arity::new(params), locals: Size::new(locals), code: AddressRange::new(Address::from_u32(start), 1) },
        ProgramObject::Integer(7),
        ProgramObject::String("g".to_string()),
    ];
    let program = prog(filler_code(6), constants);
    let mut state = mk_state(vec![], vec![("f".to_string(), ConstantPoolIndex::new(1)), ("h".to_string(), ConstantPoolIndex::new(2))], vec![Pointer::Null], vec![]);
    state.instruction_pointer = InstructionPointer::from(ip);
    for v in a[6..].iter() { state.operand_stack.push(parse(v)); }
    let r = eval_call_function(&program, &mut state, &ConstantPoolIndex::new(index), &Arity::new(given));
    match r {
        Err(_) => "ERR".to_string(),
        Ok(()) => {
            let ipn = state.instruction_pointer.get().map(|x| x.value_u32().to_string()).unwrap_or("none".to_string());
            let (ret, frame) = {
                let f = state.frame_stack.get_locals().unwrap();
                let mut slots = vec![];
                let mut i = 0u16;
                while let Ok(p) = f.get(&LocalFrameIndex::new(i)) { slots.push(show(p)); i += 1; }
                (frame_return_address(f).map(|x| x.to_string()).unwrap_or("none".to_string()), slots)
            };
            let mut frames = 0;
            while state.frame_stack.pop().is_ok() { frames += 1; }
            let mut rest = vec![];
            while let Ok(p) = state.operand_stack.pop() { rest.push(show(&p)); }
            rest.reverse();
            format!("OK ip={} ret={} frame=[{}] stack=[{}] frames={}", ipn, ret, frame.join(" "), rest.join(" "), frames)
        }
    }
}

/// vmstep object-method <name-hex> <receiver 0|1> <chain end> <argument>*
/// heap: #0 = object { parent: <chain end>, methods { m/2 (one extra local), v/2 (one extra local) } }, #1 = object { parent: #0, methods { n/2, v/3 } }
fn object_method(a: &[String]) -> String {
    use indexmap::IndexMap;
    let name = unhex(&a[0]);
    let recv: usize = a[1].parse().unwrap();
    let parent = parse(&a[2]);
    let args: Vec<Pointer> = a[3..].iter().map(|s| parse(s)).collect();
    let program = prog(filler_code(6), vec![ProgramObject::String(name)]);
    let method_n = |start: u32, locals: u16, params: u8| ProgramObject::Method { name: ConstantPoolIndex::new(0), parameters: Arity::new(params), locals: Size::new(locals),
                                                                  code: AddressRange::new(Address::from_u32(start), 1) };
    let method = |start: u32, locals: u16| method_n(start, locals, 2);
    let mut m0 = IndexMap::new();
    m0.insert("m".to_string(), method(3, 1));
    m0.insert("v".to_string(), method(2, 1));
    let mut m1 = IndexMap::new();
    m1.insert("n".to_string(), method(4, 0));
    m1.insert("v".to_string(), method_n(5, 0, 3));
    let mut state = plain_state();
    state.heap = Heap::from(vec![HeapObject::new_object(parent, IndexMap::new(), m0),
                                 HeapObject::new_object(Pointer::Reference(HeapIndex::from(0usize)), IndexMap::new(), m1),
                                 HeapObject::from_pointers(vec![Pointer::Integer(10), Pointer::Integer(20)])]);
    state.operand_stack.push(Pointer::Reference(HeapIndex::from(recv)));
    for v in args.iter() { state.operand_stack.push(*v); }
    let r = eval_call_method(&program, &mut state, &ConstantPoolIndex::new(0), &Arity::new(args.len() as u8 + 1));
    match r {
        Err(_) => "ERR".to_string(),
        Ok(()) => {
            let ipn = state.instruction_pointer.get().map(|x| x.value_u32().to_string()).unwrap_or("none".to_string());
            let mut slots = vec![];
            {
                let f = state.frame_stack.get_locals().unwrap();
                let mut i = 0u16;
                while let Ok(p) = f.get(&LocalFrameIndex::new(i)) { slots.push(show(p)); i += 1; }
            }
            let mut frames = 0;
            while state.frame_stack.pop().is_ok() { frames += 1; }
            if frames == 2 {
                format!("CALL ip={} frame=[{}]", ipn, slots.join(" "))
            } else {
                format!("OK {}", show(&state.operand_stack.pop().unwrap()))
            }
        }
    }
}

fn heap_cells(state: &State) -> usize {
    let mut n = 0;
    while state.heap.dereference(&HeapIndex::from(n)).is_ok() { n += 1; }
    n
}

/// vmstep array <existing cells 0|1> <size> <initializer>
fn array(a: &[String]) -> String {
    let existing: usize = a[0].parse().unwrap();
    let program = prog(filler_code(6), vec![]);
    let mut state = plain_state();
    if existing == 1 { state.heap = Heap::from(vec![HeapObject::from_pointers(vec![Pointer::Null])]); }
    let size_before = state.heap.verif_size();
    state.operand_stack.push(parse(&a[1]));
    state.operand_stack.push(parse(&a[2]));
    let r = eval_array(&program, &mut state);
    let grew = if state.heap.verif_size() > size_before { 1 } else { 0 };
    match r {
        Err(_) => format!("ERR cells={} grew={}", heap_cells(&state), grew),
        Ok(()) => {
            let top = state.operand_stack.pop().unwrap();
            let (len, cells) = match top {
                Pointer::Reference(i) => match state.heap.dereference(&i) {
                    Ok(HeapObject::Array(arr)) => (arr.length(), arr.iter().map(show).collect::<Vec<String>>()),
                    _ => (usize::MAX, vec![]),
                },
                _ => (usize::MAX, vec![]),
            };
            format!("OK {} len={} [{}] cells={} grew={}", show(&top), len, cells.join(" "), heap_cells(&state), grew)
        }
    }
}

/// vmstep object <slots 0-2> <with method 0|1> <const index> <parent> <field value>*
fn object(a: &[String]) -> String {
    let nslots: usize = a[0].parse().unwrap();
    let with_method = a[1] == "1";
    let index: u16 = a[2].parse().unwrap();
    let names = ["y", "x"];
    let nmembers = nslots + if with_method { 1 } else { 0 };
    let first_name = (1 + nmembers) as u16;
    let mut constants = vec![ProgramObject::Class((1..=nmembers as u16).map(ConstantPoolIndex::new).collect())];
    for i in 0..nslots { constants.push(ProgramObject::Slot { name: ConstantPoolIndex::new(first_name + i as u16) }); }
    if with_method {
        constants.push(ProgramObject::Method { name: ConstantPoolIndex::new(first_name + nslots as u16), parameters: Arity::new(2), locals: Size::new(0),
                                               code: AddressRange::new(Address::from_u32(3), 1) });
    }
    for i in 0..nslots { constants.push(ProgramObject::String(names[i].to_string())); }
    if with_method { constants.push(ProgramObject::String("m".to_string())); }
    constants.push(ProgramObject::Integer(9));
    let program = prog(filler_code(6), constants);
    let mut state = plain_state();
    for v in a[3..].iter() { state.operand_stack.push(parse(v)); }
    let r = eval_object(&program, &mut state, &ConstantPoolIndex::new(index));
    match r {
        Err(_) => format!("ERR cells={}", heap_cells(&state)),
        Ok(()) => {
            let top = state.operand_stack.pop().unwrap();
            match state.heap.dereference(&HeapIndex::from(0usize)) {
                Ok(HeapObject::Object(o)) => format!("OK {} parent={} fields=[{}] methods=[{}] cells={}", show(&top), show(&o.parent),
                    o.fields.iter().map(|(k, v)| format!("{}={}", k, show(v))).collect::<Vec<String>>().join(" "),
                    o.methods.iter().map(|(k, _)| k.clone()).collect::<Vec<String>>().join(" "), heap_cells(&state)),
                _ => "OK but no object".to_string(),
            }
        }
    }
}

/// vmstep object-size <field name> <field name> <method name>: the cumulative heap size after creating one object of that class
fn object_size(a: &[String]) -> String {
    let constants = vec![ProgramObject::Class(vec![ConstantPoolIndex::new(1), ConstantPoolIndex::new(2), ConstantPoolIndex::new(3)]),
                         ProgramObject::Slot { name: ConstantPoolIndex::new(4) }, ProgramObject::Slot { name: ConstantPoolIndex::new(5) },
                         ProgramObject::Method { name: ConstantPoolIndex::new(6), parameters: Arity::new(2), locals: Size::new(0), code: AddressRange::new(Address::from_u32(3), 1) },
                         ProgramObject::String(a[0].clone()), ProgramObject::String(a[1].clone()), ProgramObject::String(a[2].clone())];
    let program = prog(filler_code(6), constants);
    let mut state = plain_state();
    for _ in 0..3 { state.operand_stack.push(Pointer::Null); }
    match eval_object(&program, &mut state, &ConstantPoolIndex::new(0)) {
        Err(_) => "ERR".to_string(),
        Ok(()) => format!("SIZE {}", state.heap.verif_size()),
    }
}

/// vmstep print <format utf-8 hex> <e0> <e1> <f0> <f1> <p1> <argument>*
/// heap: #0 array [e0, e1]; #1 object {x1: f0, x: f1} with parent p1; #2 object {} with parent #1; #3 empty array; #4 array [ref #0]
fn print_step(a: &[String]) -> String {
    use indexmap::IndexMap;
    let format = unhex(&a[0]);
    let (e0, e1, f0, f1, p1) = (parse(&a[1]), parse(&a[2]), parse(&a[3]), parse(&a[4]), parse(&a[5]));
    let args: Vec<Pointer> = a[6..].iter().map(|s| parse(s)).collect();
    let program = prog(filler_code(6), vec![ProgramObject::String(format), ProgramObject::Integer(1)]);
    let mut fields = IndexMap::new();
    fields.insert("x1".to_string(), f0);
    fields.insert("x".to_string(), f1);
    let mut state = plain_state();
    state.heap = Heap::from(vec![HeapObject::from_pointers(vec![e0, e1]),
                                 HeapObject::new_object(p1, fields, IndexMap::new()),
                                 HeapObject::new_object(Pointer::Reference(HeapIndex::from(1usize)), IndexMap::new(), IndexMap::new()),
                                 HeapObject::from_pointers(vec![]),
                                 HeapObject::from_pointers(vec![Pointer::Reference(HeapIndex::from(0usize))])]);
    state.operand_stack.push(Pointer::Null);
    for v in args.iter() { state.operand_stack.push(*v); }
    let mut out = String::new();
    let r = eval_print(&program, &mut state, &mut out, &ConstantPoolIndex::new(0), &Arity::new(args.len() as u8));
    let hex: String = out.bytes().map(|b| format!("{:02x}", b)).collect();
    match r {
        Ok(()) => format!("OK out={}", hex),
        Err(_) => format!("ERR out={}", hex),
    }
}

/// vmstep get-field|set-field <const index> <receiver> <x> <y> [<value>]; heap: #0 = object {f: x, g: y}, #1 = array [null]
fn field_step(setting: bool, a: &[String]) -> String {
    use indexmap::IndexMap;
    let index: u16 = a[0].parse().unwrap();
    let program = prog(filler_code(6), vec![ProgramObject::String("f".to_string()), ProgramObject::String("g".to_string()),
                                             ProgramObject::String("h".to_string()), ProgramObject::Integer(1)]);
    let mut fields = IndexMap::new();
    fields.insert("f".to_string(), parse(&a[2]));
    fields.insert("g".to_string(), parse(&a[3]));
    let mut state = plain_state();
    state.heap = Heap::from(vec![HeapObject::new_object(Pointer::Null, fields, IndexMap::new()), HeapObject::from_pointers(vec![Pointer::Null])]);
    state.operand_stack.push(parse(&a[1]));
    if setting { state.operand_stack.push(parse(&a[4])); }
    let r = if setting { eval_set_field(&program, &mut state, &ConstantPoolIndex::new(index)) } else { eval_get_field(&program, &mut state, &ConstantPoolIndex::new(index)) };
    let (f, g) = match state.heap.dereference(&HeapIndex::from(0usize)) {
        Ok(HeapObject::Object(o)) => (o.get_field("f").map(|p| show(p)).unwrap_or("?".to_string()), o.get_field("g").map(|p| show(p)).unwrap_or("?".to_string())),
        _ => ("?".to_string(), "?".to_string()),
    };
    match r {
        Err(_) => format!("ERR f={} g={}", f, g),
        Ok(()) => format!("OK {} f={} g={}", show(&state.operand_stack.pop().unwrap()), f, g),
    }
}

fn main() {
    let a: Vec<String> = std::env::args().collect();
    let rest: Vec<String> = a[2..].to_vec();
    let kind = a[1].clone();
    std::panic::set_hook(Box::new(|_| {}));
    let r = std::panic::catch_unwind(move || match kind.as_str() {
        "array-method" => array_method(&rest),
        "call-function" => call_function(&rest),
        "object-method" => object_method(&rest),
        "array" => array(&rest),
        "object" => object(&rest),
        "object-size" => object_size(&rest),
        "print" => print_step(&rest),
        "get-field" => field_step(false, &rest),
        "set-field" => field_step(true, &rest),
        other => format!("unknown kernel {}", other),
    });
    match r {
        Ok(line) => println!("{}", line),
        Err(e) => {
            let msg = e.downcast_ref::<&str>().map(|s| s.to_string()).or_else(|| e.downcast_ref::<String>().cloned()).unwrap_or_default();
            println!("PANIC {}", msg);
        }
    }
}
