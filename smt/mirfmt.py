"""Formatting models for the MIR executor (imported only by the C17 task): instead of treating `format_args!` as opaque,
`Formatter::write_fmt` appends *tokens* to the formatter: literal text, and one token per `{}` placeholder carrying the
z3 term of the value and the kind of rendering (unsigned / signed decimal, boolean, string). `Display` impls of /repo's
own types are executed from their MIR with the same formatter, so a nested `{}` of a repo type expands to its own tokens.

The template of a `format_args!` call is the byte string rustc passes to `Arguments::new`: a literal piece is its length
(< 0x80) followed by the bytes; 0xC0 is a plain `{}`; 0xC0 | flags is a `{}` with options, followed by 4 bytes (bit 0),
2 bytes (bit 1: width), 2 bytes (bit 2: precision), 2 bytes (bit 3); 0x00 ends the template. Options (fill, width) on an
integer are recorded on the token; they change the digit string but keep it a function of the value.
"""
import re

import z3

import mirx
from mirx import BV, Bool, Str, Ref, Tup, VecV, Enum, Iter, Unit, Opaque, Unsupported, deref_all, ok, some, NONE


class FmtOut:
    """The text written so far, as a tuple of tokens ("lit", text) | (kind, term, options)."""

    def __init__(self, tokens=()):
        self.tokens = tuple(tokens)


class FmtArg:
    def __init__(self, ty, value):
        self.ty, self.value = ty, value


class FmtArgs:
    def __init__(self, pieces, args):
        self.pieces, self.args = pieces, args


def parse_bytes_literal(s):
    """Python bytes of a MIR byte-string constant `b"..."`."""
    body = s[2:-1]
    out = bytearray()
    i = 0
    while i < len(body):
        c = body[i]
        if c == "\\":
            n = body[i + 1]
            if n == "x":
                out.append(int(body[i + 2:i + 4], 16))
                i += 4
                continue
            out += {"n": b"\n", "t": b"\t", "r": b"\r", "\\": b"\\", '"': b'"', "'": b"'", "0": b"\0"}[n]
            i += 2
            continue
        out += c.encode("utf-8")
        i += 1
    return bytes(out)


def decode_template(raw):
    """Mirrors the loop of core::fmt::write (library/core/src/fmt/mod.rs): the list of parts
    ("lit", text) | ("arg", {flags, width, precision, arg_index, width_indirect, precision_indirect})."""
    parts = []
    i = 0
    while True:
        n = raw[i]
        i += 1
        if n == 0:
            return parts
        if n < 0x80:
            parts.append(("lit", raw[i:i + n].decode("utf-8")))
            i += n
        elif n == 0x80:
            ln = int.from_bytes(raw[i:i + 2], "little")
            i += 2
            parts.append(("lit", raw[i:i + ln].decode("utf-8")))
            i += ln
        elif n == 0xC0:
            parts.append(("arg", {}))
        elif n > 0xC0:
            o = {}
            if n & 1:
                o["flags"] = int.from_bytes(raw[i:i + 4], "little")
                i += 4
            if n & 2:
                o["width"] = int.from_bytes(raw[i:i + 2], "little")
                i += 2
            if n & 4:
                o["precision"] = int.from_bytes(raw[i:i + 2], "little")
                i += 2
            if n & 8:
                o["arg_index"] = int.from_bytes(raw[i:i + 2], "little")
                i += 2
            if n & 16:
                o["width_indirect"] = True
            if n & 32:
                o["precision_indirect"] = True
            parts.append(("arg", o))
        else:
            raise Unsupported("format template byte 0x%02x" % n)


ZERO_PAD, WIDTH_SET, PRECISION_SET = 1 << 24, 1 << 27, 1 << 28
DEFAULT_FLAGS = 0x20 | (3 << 29)


def int_options(ex, o, args, pc, store):
    """The rendering class of an integer placeholder: "plain" or ("zero", width). Anything else is outside the model."""
    flags = o.get("flags", DEFAULT_FLAGS)
    width = o.get("width", 0)
    if o.get("width_indirect"):
        a = args[width]
        if not (isinstance(a, FmtArg) and a.ty == "usize-option"):
            raise Unsupported("indirect width that is not a usize argument")
        wv = deref_all(store, a.value)
        if not isinstance(wv, BV):
            raise Unsupported("indirect width %r" % (wv,))
        width = ex.concretize(wv.t, pc, "format width")
    if flags & PRECISION_SET or o.get("precision_indirect"):
        raise Unsupported("precision on a placeholder")
    if flags & ((1 << 21) | (1 << 23) | (1 << 25) | (1 << 26)):
        raise Unsupported("sign / alternate / hex flags on a placeholder")
    if not flags & WIDTH_SET or width == 0:
        return "plain"
    if flags & ZERO_PAD:
        return ("zero", width)
    raise Unsupported("space-padded placeholder (width %d, flags 0x%x)" % (width, flags))


_orig_const = mirx.Executor.const


def const_with_bytes(self, s, store):
    s2 = s.strip()
    if s2.startswith('b"'):
        return ("bytes", parse_bytes_literal(s2))
    cm = re.match(r"^'(.*)'$", s2, flags=re.S)
    if cm:  # a char constant: a one-character string
        body = cm.group(1)
        ch = {"\\n": "\n", "\\r": "\r", "\\t": "\t", "\\\\": "\\", "\\'": "'", '\\"': '"', "\\0": "\0"}.get(body)
        if ch is None:
            um = re.match(r"^\\u\{([0-9a-fA-F]+)\}$", body)
            ch = chr(int(um.group(1), 16)) if um else body
        return Str(z3.StringVal(ch))
    m = re.match(r"^<(.+) as ([\w:]+)>::(\w+)::(promoted\[\d+\])$", s2)
    if m:
        parent = next((x for x in (trait_impl_body(self, m.group(1), m.group(2).split("::")[-1], m.group(3), n) for n in range(0, 9)) if x is not None), None)
        b = self.bodies.get(parent.name + "::" + m.group(4)) if parent is not None else None
        if b is not None:
            outs = list(self.run(b, [], [], store, 0))
            if len(outs) == 1 and outs[0].kind == "return":
                return outs[0].value
    return _orig_const(self, s, store)


mirx.Executor.const = const_with_bytes

FRONT = []


def front(pattern):
    def deco(f):
        FRONT.append((re.compile(pattern), f))
        return f
    return deco


@front(r"^core::fmt::rt::Argument::<'_>::new_display::<(.+)>$")
def m_new_display(ex, callee, args, pc, store, depth):
    ty = re.match(r"^core::fmt::rt::Argument::<'_>::new_display::<(.+)>$", callee).group(1)
    yield ("value", FmtArg(ty, args[0]), pc, store)


@front(r"^core::fmt::rt::Argument::<'_>::from_usize$")
def m_from_usize(ex, callee, args, pc, store, depth):
    yield ("value", FmtArg("usize-option", args[0]), pc, store)


@front(r"^Arguments::<'_>::new::<")
def m_arguments_new(ex, callee, args, pc, store, depth):
    raw = args[0]
    if not (isinstance(raw, tuple) and raw[0] == "bytes"):
        raise Unsupported("format template is not a byte-string constant")
    arr = deref_all(store, args[1])
    yield ("value", FmtArgs(decode_template(raw[1]), [store[c] for c in arr.cells]), pc, store)


@front(r"^Arguments::<'_>::from_str$")
def m_arguments_from_str(ex, callee, args, pc, store, depth):
    v = deref_all(store, args[0])
    yield ("value", FmtArgs([("lit", mirx_string(z3.simplify(v.t)))], []), pc, store)


ABSTRACT = {}   # type name -> label: a `{}` of that type becomes one ("item", label, cell) token (container-level runs)
_SRC = {}


def trait_impl_body(ex, t, trait, meth, nparams):
    """The MIR body of `impl <trait> for <t>`'s method: MIR names trait impls by their source span, so the source line decides."""
    short = lambda x: re.sub(r"[A-Za-z_0-9]+::", "", x).replace(" ", "").lstrip("&")
    found = []
    for k, b in ex.bodies.items():
        m = re.search(r"<impl at ([^:>]+):(\d+):(\d+): (\d+):(\d+)>::%s$" % re.escape(meth), k)
        if not m or len(b.params) != nparams or short(b.params[0][1]) != short(t):
            continue
        path, line = m.group(1), int(m.group(2))
        if path not in _SRC:
            _SRC[path] = open(path).read().splitlines()
        text = _SRC[path][line - 1]
        if re.search(r"\bimpl\b.*\b%s\b" % re.escape(trait), text):
            found.append(b)
    return found[0] if len(found) == 1 else None


def display_body(ex, t):
    return trait_impl_body(ex, t, "Display", "fmt", 2)


def render_value(ex, ty, value, options, all_args, out_cell, pc, store, depth):
    """Appends the rendering of one `{}` argument to the formatter in `out_cell`; generator of (pc, store) or a 4-tuple abort."""
    t = ty.strip()
    while t.startswith("&"):
        t = t[1:].strip()
    v = deref_all(store, value)
    add = lambda tok: store.__setitem__(out_cell, FmtOut(store[out_cell].tokens + (tok,)))
    short_t = re.sub(r"[A-Za-z_0-9]+::", "", t)
    if short_t in ABSTRACT:
        ref = value
        while isinstance(ref, Ref) and isinstance(store[ref.cell], Ref):
            ref = store[ref.cell]
        add(("item", ABSTRACT[short_t], ref.cell if isinstance(ref, Ref) else None))
        yield (pc, store)
        return
    if isinstance(v, FmtOut):  # a String produced by to_string / join
        if options:
            raise Unsupported("formatting options on a String argument")
        store[out_cell] = FmtOut(store[out_cell].tokens + v.tokens)
        yield (pc, store)
        return
    if isinstance(v, BV):
        add(("int" if v.signed else "uint", v, int_options(ex, options, all_args, pc, store)))
        yield (pc, store)
        return
    if options:
        raise Unsupported("formatting options on a %s argument" % t)
    if isinstance(v, Bool):
        add(("bool", v, "plain"))
        yield (pc, store)
        return
    if isinstance(v, Str):
        sv = z3.simplify(v.t)
        add(("lit", mirx_string(sv)) if z3.is_string_value(sv) else ("str", v, "plain"))
        yield (pc, store)
        return
    # a type of /repo: its own Display impl, executed from its MIR with the same formatter
    body = display_body(ex, t)
    if body is None:
        raise Unsupported("no single Display impl found for %s" % t)
    ref = value
    while isinstance(ref, Ref) and isinstance(store[ref.cell], Ref):
        ref = store[ref.cell]
    if not isinstance(ref, Ref):
        ref = Ref(ex.world.new(store, v))
    for o in ex.run(body, [ref, Ref(out_cell)], pc, store, depth + 1):
        if o.kind == "return":
            if isinstance(o.value, Enum) and o.value.disc == 0:
                yield (o.pc, o.store)
            else:
                yield ("value", o.value, o.pc, o.store)   # the nested impl returned Err: propagate
        else:
            yield (o.kind, o.msg, o.pc, o.store)


def mirx_string(sv):
    return re.sub(r"\\u\{([0-9a-fA-F]+)\}", lambda m: chr(int(m.group(1), 16)), sv.as_string())


@front(r"^Formatter::<'_>::write_fmt$|^std::fmt::Formatter::<'_>::write_fmt$")
def m_write_fmt(ex, callee, args, pc, store, depth):
    out_cell = args[0].cell
    fa = args[1]
    if not isinstance(fa, FmtArgs):
        raise Unsupported("write_fmt with %r" % (fa,))

    def go(k, argi, pcx, stx):
        if k == len(fa.pieces):
            yield ("value", Enum("Result", 0, {0: [ex.world.new(stx, Unit())]}), pcx, stx)
            return
        kind, payload = fa.pieces[k]
        if kind == "lit":
            stx[out_cell] = FmtOut(stx[out_cell].tokens + (("lit", payload),))
            yield from go(k + 1, argi, pcx, stx)
            return
        idx = payload.get("arg_index", argi)
        a = fa.args[idx]
        if not isinstance(a, FmtArg) or a.ty == "usize-option":
            raise Unsupported("placeholder argument %r" % (a,))
        for r in render_value(ex, a.ty, a.value, payload, fa.args, out_cell, pcx, stx, depth):
            if len(r) == 4:
                yield r
            else:
                yield from go(k + 1, idx + 1, r[0], r[1])

    yield from go(0, 0, pc, store)


@front(r"^Formatter::<'_>::write_str$|^<Formatter<'_> as std::fmt::Write>::write_str$")
def m_write_str(ex, callee, args, pc, store, depth):
    out_cell = args[0].cell
    v = deref_all(store, args[1])
    sv = z3.simplify(v.t)
    store[out_cell] = FmtOut(store[out_cell].tokens + ((("lit", mirx_string(sv)) if z3.is_string_value(sv) else ("str", v, "plain")),))
    yield ("value", Enum("Result", 0, {0: [ex.world.new(store, Unit())]}), pc, store)


@front(r"^<(.+) as ToString>::to_string$")
def m_to_string(ex, callee, args, pc, store, depth):
    ty = re.match(r"^<(.+) as ToString>::to_string$", callee).group(1)
    sv = deref_all(store, args[0])
    if isinstance(sv, Str):
        yield ("value", sv, pc, store)
        return
    out_cell = ex.world.new(store, FmtOut())
    for r in render_value(ex, ty, args[0], {}, [], out_cell, pc, store, depth):
        if len(r) == 4:
            yield r
        else:
            yield ("value", r[1][out_cell], r[0], r[1])


@front(r"^slice::<impl \[std::string::String\]>::join::<&str>$|<impl \[(std::string::)?String\]>::join::<&str>$")
def m_join(ex, callee, args, pc, store, depth):
    v, _ = mirx.vec_of(ex, store, args[0])
    sep = mirx_string(z3.simplify(deref_all(store, args[1]).t))
    toks = ()
    for i, c in enumerate(v.cells):
        if i:
            toks += (("lit", sep),)
        item = store[c]
        if not isinstance(item, FmtOut):
            raise Unsupported("join over %r" % (item,))
        toks += item.tokens
    yield ("value", FmtOut(toks), pc, store)


@front(r" as Iterator>::enumerate$")
def m_enumerate(ex, callee, args, pc, store, depth):
    for items, pcx, stx in ex.iter_items(args[0], pc, store, depth):
        if isinstance(items, tuple) and items and items[0] == "abort":
            raise Unsupported("enumerate over an aborting iterator")
        pairs = tuple(Tup([ex.world.new(stx, BV(z3.BitVecVal(i, 64), 64, False)), ex.world.new(stx, v)]) for i, v in enumerate(items))
        yield ("value", Iter("list", items=pairs, pos=0), pcx, stx)


@front(r"Option::<.*>::map_or::<")
def m_option_map_or(ex, callee, args, pc, store, depth):
    o, default, f = args[0], args[1], args[2]
    if not isinstance(o.disc, int):
        raise Unsupported("Option::map_or on a symbolic option")
    if o.disc == 0:
        yield ("value", default, pc, store)
        return
    yield from ex.call_closure(f, [store[o.payload[1][0]]], pc, store, depth)


# `str::replace` (all occurrences). z3's Python API cannot build str.replace_all (it aborts), so the term is an uninterpreted
# function here and is renamed to SMT-LIB's str.replace_all when a query that contains it is handed to cvc5 (c17_listing.py).
REPLACE_ALL = z3.Function("fml_str_replace_all", z3.StringSort(), z3.StringSort(), z3.StringSort(), z3.StringSort())


@front(r"^(core::)?str::<impl str>::replace::<(char|&str|&char)>$")
def m_str_replace(ex, callee, args, pc, store, depth):
    s, a, b = (deref_all(store, x) for x in args[:3])
    if not all(isinstance(x, Str) for x in (s, a, b)):
        raise Unsupported("str::replace on %r %r %r" % (s, a, b))
    sv, av, bv = (z3.simplify(x.t) for x in (s, a, b))
    if all(z3.is_string_value(x) for x in (sv, av, bv)):
        yield ("value", Str(z3.StringVal(mirx_string(sv).replace(mirx_string(av), mirx_string(bv)))), pc, store)
    else:
        yield ("value", Str(REPLACE_ALL(s.t, a.t, b.t)), pc, store)


@front(r"^<(std::string::)?String as (std::ops::)?Deref>::deref$|^(std::string::)?String::as_str$|^<(std::string::)?String as AsRef<str>>::as_ref$")
def m_string_deref(ex, callee, args, pc, store, depth):
    v = deref_all(store, args[0])
    if not isinstance(v, (Str, FmtOut, mirx.Opaque)):
        raise Unsupported("%s on %r" % (callee, v))
    yield ("value", v, pc, store)   # an opaque message text stays opaque


def uses_replace(t):
    if z3.is_app(t):
        if t.decl().name() == "fml_str_replace_all":
            return True
        return any(uses_replace(c) for c in t.children())
    return False


def eval_string(t, model):
    """Python value of a string term under a model, applying fml_str_replace_all itself (the model leaves it uninterpreted)."""
    if z3.is_app(t) and t.decl().name() == "fml_str_replace_all":
        s, a, b = (eval_string(c, model) for c in t.children())
        return s.replace(a, b) if a else s
    return mirx_string(model.eval(t, model_completion=True))


mirx.MODELS.table[:0] = FRONT
