#!/usr/bin/env python3
"""C07 — the semantic actions of the token-level productions, decided on their MIR.

The LALR tables (c07_grammar.py) and the token regexes (c07_lexer.py) say which production fires on which text; what the
production's *action* then builds is ordinary Rust that lalrpop copies from fml.lalrpop into `__actionN` functions of the
generated parser. This task dumps the MIR of /verif/lalr (the parser generated from /repo's current grammar plus /repo's
AST module), finds the actions of `String = STRING_LITERAL` and `Ident = IDENTIFIER` by the production comments lalrpop
writes next to every reduction, and runs them symbolically on a token text `s` of concrete length (0 .. N, one run per length) whose characters are all symbolic, constrained to the token's own
regular expression (translated from fml.lalrpop by c07_lexer's translator):

  String   for every s in L(STRING_LITERAL):  action(s) is s without its first and its last character (the two delimiting
           quotes) — escapes stay as written, they are decoded by print (C15) — and the action does not panic;
  Ident    for every s in L(IDENTIFIER):       action(s) is the identifier named exactly s.

`&str` is a z3 string; the quantifier is over ASCII token texts up to N characters (a symbolic length made z3's string solver diverge on
the `len() - 1` overflow check; for non-ASCII text z3's character
positions and Rust's byte positions differ, so those words are outside this task's bound; the lexer task covers the
token languages themselves over Unicode). A satisfiable query yields a concrete token, which is parsed by /repo's real
lexer + parser (parse_ast) and reported only if the real AST differs from the documented one.
"""
import json
import os
import re
import subprocess
import sys
import time

import z3

sys.path.insert(0, os.path.dirname(os.path.abspath(__file__)))
import mirx                                   # noqa: E402
from mirx import BV, Str, Tup, Ref, Unsupported, deref_all   # noqa: E402
import c07_lexer                              # noqa: E402
import c07_grammar                            # noqa: E402

LALR = c07_grammar.LALR


def dump_lalr_mir():
    env = dict(os.environ, CARGO_NET_OFFLINE="true")
    os.utime(os.path.join(LALR, "src", "lib.rs"))
    p = subprocess.run(["cargo", "+nightly", "rustc", "--offline", "--lib", "--target-dir", os.path.join(LALR, "target", "nightly"), "--",
                        "-Zunpretty=mir", "-C", "debug-assertions=off", "-C", "overflow-checks=on"],
                       cwd=LALR, env=env, stdout=subprocess.PIPE, stderr=subprocess.PIPE, text=True)
    if p.returncode != 0:
        raise RuntimeError("MIR dump of the generated parser failed:\n" + p.stderr[-2000:])
    return p.stdout


# ---- models this task adds (string slicing and trimming on z3 strings; positions are characters = bytes on ASCII text)

def _char_of(v):
    if isinstance(v, mirx.Opaque) and v.what.startswith("constant '") and v.what.endswith("'"):
        raw = v.what[len("constant '"):-1]          # the executor has no value for char constants; MIR prints them as Rust char literals
        raw = bytes(raw, "utf-8").decode("unicode_escape") if "\\" in raw else raw
        if len(raw) == 1:
            return raw
    t = z3.simplify(v.t) if hasattr(v, "t") else None
    if t is None or not z3.is_bv_value(t):
        raise Unsupported("trim pattern is not a concrete char")
    return chr(t.as_long())


@mirx.MODELS.add(r"^<str as (std::ops::)?Index<(std::ops::)?Range<usize>>>::index$|^core::str::traits::<impl (std::ops::)?Index<(std::ops::)?Range<usize>> for str>::index$")
def m_str_index_range(ex, callee, args, pc, store, depth):
    s = deref_all(store, args[0])
    r = args[1] if isinstance(args[1], Tup) else deref_all(store, args[1])
    if not isinstance(s, Str) or not isinstance(r, Tup):
        raise Unsupported("str[range] on %r, %r" % (s, r))
    lo, hi = store[r.cells[0]].t, store[r.cells[1]].t
    n = z3.Int2BV(z3.Length(s.t), 64)
    bad = z3.Or(z3.UGT(lo, hi), z3.UGT(hi, n))
    if ex.feasible(pc + [bad]):
        yield ("panic", "str slice index out of range", pc + [bad], dict(store))
    if ex.feasible(pc + [z3.Not(bad)]):
        yield ("value", Str(z3.SubString(s.t, z3.BV2Int(lo), z3.BV2Int(hi) - z3.BV2Int(lo))), pc + [z3.Not(bad)], store)


_FRESH = [0]


@mirx.MODELS.add(r"^core::str::<impl str>::trim_(start_|end_)?matches::<char>$")
def m_trim_matches(ex, callee, args, pc, store, depth):
    """s = p ++ r ++ q with p, q runs of the pattern character (p / q empty for the one-sided forms) and r neither starting (trim_matches,
    trim_start_matches) nor ending (trim_matches, trim_end_matches) with it — the documented result of the three functions."""
    s = deref_all(store, args[0])
    c = _char_of(args[1])
    _FRESH[0] += 1
    p, r, q = (z3.String("trim_%s%d" % (k, _FRESH[0])) for k in "prq")
    run = z3.Star(z3.Re(z3.StringVal(c)))
    start, end = "trim_end_" not in callee, "trim_start_" not in callee
    cs = [s.t == z3.Concat(p, r, q), z3.InRe(p, run) if start else p == z3.StringVal(""), z3.InRe(q, run) if end else q == z3.StringVal("")]
    if start:
        cs.append(z3.Not(z3.PrefixOf(z3.StringVal(c), r)))
    if end:
        cs.append(z3.Not(z3.SuffixOf(z3.StringVal(c), r)))
    yield ("value", Str(r), pc + cs, store)


@mirx.MODELS.add(r"^core::str::<impl str>::strip_(prefix|suffix)::<char>$")
def m_strip_char(ex, callee, args, pc, store, depth):
    s = deref_all(store, args[0])
    c = z3.StringVal(_char_of(args[1]))
    pre = "prefix" in callee
    has = z3.PrefixOf(c, s.t) if pre else z3.SuffixOf(c, s.t)
    rest = z3.SubString(s.t, 1 if pre else 0, z3.Length(s.t) - 1)
    if ex.feasible(pc + [has]):
        yield ("value", mirx.some(ex, store, Str(rest)), pc + [has], dict(store))
    if ex.feasible(pc + [z3.Not(has)]):
        yield ("value", mirx.NONE, pc + [z3.Not(has)], store)


def decode(sv):
    return re.sub(r"\\u\{([0-9a-fA-F]+)\}", lambda m: chr(int(m.group(1), 16)), sv.as_string())


def parse_real(exe, text):
    out = subprocess.run([exe], input=text, stdout=subprocess.PIPE, text=True, timeout=30).stdout.strip()
    if not out.startswith("OK "):
        return None, out
    try:
        return json.loads(out[3:]), out
    except Exception:
        return None, out


def string_of(store, v):
    """The z3 string term inside a String / Identifier value."""
    v = deref_all(store, v)
    while isinstance(v, Tup) and len(v.cells) == 1:
        v = deref_all(store, store[v.cells[0]])
    if not isinstance(v, Str):
        raise Unsupported("string result expected, got %r" % (v,))
    return v.t


def main():
    t0 = time.time()
    res = {"name": "c07_token_actions_mir", "queries": 0, "discharged": 0, "nontrivial": 0, "violations": [], "inconclusive": [], "samples": [],
           "solver_s": 0.0, "paths": 0}
    try:
        exe, gen = c07_grammar.build()
        src = open(gen).read()
        bodies = mirx.parse_mir(dump_lalr_mir())
        enums, structs = mirx.parse_adts(["/repo/src/parser/mod.rs"])
        rules = c07_lexer.read_match_block()
        tokens = {name: c07_lexer.RegexParser(rsrc).parse() for kind, rsrc, name in rules if kind == "regex" and name is not None}
    except Exception as e:
        res["inconclusive"].append("generated parser / MIR / grammar not readable: %s" % str(e)[-800:])
        print(json.dumps(res))
        return
    ascii_text = z3.Star(z3.Range(chr(0), chr(127)))
    max_len = int(sys.argv[1]) if len(sys.argv) > 1 else 6
    jobs = [("String", "STRING_LITERAL",
             lambda s, t: s == z3.Concat(z3.StringVal('"'), t, z3.StringVal('"')),
             lambda w: "print(%s)" % w,
             lambda ast: ast["Top"][0]["Print"]["format"],
             lambda w: w[1:-1],
             "the literal without its two delimiting quotes"),
            ("Ident", "IDENTIFIER",
             lambda s, t: s == t,
             lambda w: w,
             lambda ast: ast["Top"][0]["AccessVariable"]["name"],
             lambda w: w,
             "the identifier named by the token text"),
            ]
    for nonterminal, terminal, agrees, program, extract, documented, text in jobs:
        label = "%s = %s" % (nonterminal, terminal)
        m = re.search(r"// %s = %s => ActionFn\((\d+)\);" % (re.escape(nonterminal), re.escape(terminal)), src)
        if not m or terminal not in tokens:
            res["inconclusive"].append("%s: production or token regex not found in the generated parser" % label)
            continue
        name = "__action%s" % m.group(1)
        body = next((b for k, b in bodies.items() if k == name or k.endswith("::" + name)), None)
        if body is None:
            res["inconclusive"].append("%s: %s not found in the MIR dump" % (label, name))
            continue
        all_outcomes = 0
        ok_paths = 0
        lengths_nonempty = []
        for L in range(0, max_len + 1):
            chars = [z3.Const("c%d_%d" % (L, i), z3.CharSort()) for i in range(L)]
            s = z3.StringVal("") if L == 0 else (z3.Unit(chars[0]) if L == 1 else z3.Concat(*[z3.Unit(c) for c in chars]))
            constraints = [z3.InRe(s, tokens[terminal]), z3.InRe(s, ascii_text)]
            pre = z3.Solver()
            pre.set("timeout", 10000)
            pre.add(*constraints)
            res["queries"] += 1
            nonempty = pre.check()
            if nonempty == z3.unknown:         # the same question over a string variable of that length (z3's answer time varies with the formulation)
                w = z3.String("w%d" % L)
                pre = z3.Solver()
                pre.set("timeout", 20000)
                pre.add(z3.InRe(w, z3.Intersect(tokens[terminal], ascii_text)), z3.Length(w) == L)
                nonempty = pre.check()
            if nonempty == z3.unknown:
                res["inconclusive"].append("%s: z3 does not say whether the token language has a word of length %d" % (label, L))
                continue
            if nonempty != z3.sat:
                continue                       # no token of this length
            lengths_nonempty.append(L)
            ex = mirx.Executor(bodies, enums, structs, max_depth=30, loop_bound=8)
            ex.solver.set("timeout", 30000)
            store = {}
            new = lambda v: ex.world.new(store, v)
            tok = Tup([new(BV(z3.BitVec("lo", 64), 64, False)), new(Str(s)), new(BV(z3.BitVec("hi", 64), 64, False))])
            try:
                outcomes = list(ex.run(body, [Str(z3.String("input")), tok], constraints, store))
            except (Unsupported, KeyError, AttributeError, TypeError, IndexError) as e:
                res["inconclusive"].append("%s (%s), length %d: MIR construct outside the executor: %r; opaque calls: %s" % (label, name, L, e, sorted(ex.unmodelled)))
                continue
            if ex.unmodelled:
                res["inconclusive"].append("%s (%s): calls without a model: %s" % (label, name, sorted(ex.unmodelled)))
                break
            res["paths"] += len(outcomes)
            all_outcomes += len(outcomes)
            for n, o in enumerate(outcomes):
                solver = z3.Solver()
                solver.set("timeout", 120000)
                solver.add(*o.pc)
                if o.kind == "return":
                    try:
                        t = string_of(o.store, o.value)
                    except (Unsupported, KeyError, AttributeError, TypeError) as e:
                        res["inconclusive"].append("%s: result not readable: %r" % (label, e))
                        continue
                    solver.add(z3.Not(agrees(s, t)))
                    what = "builds something other than %s" % text
                else:
                    what = "does not return (%s: %s)" % (o.kind, o.msg)
                t1 = time.time()
                r = solver.check()
                res["solver_s"] += time.time() - t1
                res["queries"] += 1
                if r == z3.unsat:
                    res["discharged"] += 1
                    ok_paths += 1 if o.kind == "return" else 0
                    continue
                if r != z3.sat:
                    res["inconclusive"].append("%s length %d path %d: z3 answered %s" % (label, L, n, r))
                    continue
                w = decode(solver.model().eval(s, model_completion=True))
                ast, raw = parse_real(exe, program(w))
                try:
                    got = extract(ast) if ast is not None else None
                except Exception:
                    got = None
                want = documented(w)
                res["violations"].append({"id": "%s_len%d_path%d" % (nonterminal.lower(), L, n),
                                          "what": "token action %s %s: token text %r gives %r from the real parser where %r is documented (%s)" % (label, what, w, got, want, raw[:200]),
                                          "reproduced": got != want, "expected": want, "observed": raw[:400],
                                          "replay_cmd": "printf '%%s' %r | /verif/lalr/target/debug/parse_ast" % program(w)})
            # covering query: the enumerated paths exhaust the token language at this length
            solver = z3.Solver()
            solver.set("timeout", 120000)
            solver.add(*constraints)
            solver.add(z3.Not(z3.Or([z3.And(*o.pc) if o.pc else z3.BoolVal(True) for o in outcomes])))
            t1 = time.time()
            # a path that added no condition of its own covers the language by itself (and z3 does not terminate on the negated regex)
            # (likewise a single path: the executor forks only on feasible branch conditions, and the models' own constraints — the
            # decomposition a trim introduces — are total in the input, but their fresh variables turn the negation into a quantifier)
            solver.set("timeout", 20000)
            r = z3.unsat if (len(outcomes) == 1 or any(len(o.pc) <= len(constraints) for o in outcomes)) else solver.check()
            res["solver_s"] += time.time() - t1 + ex.solver_seconds
            res["queries"] += 1 + ex.queries
            if r == z3.unsat:
                res["discharged"] += 1
            else:
                res["inconclusive"].append("%s length %d: enumerated paths do not cover the token language (%s)" % (label, L, r))
        if not lengths_nonempty:
            res["inconclusive"].append("%s: the token language has no word up to length %d (vacuous)" % (label, max_len))
        s = z3.String("sample")
        constraints = [z3.InRe(s, tokens[terminal]), z3.InRe(s, ascii_text)]
        outcomes = range(all_outcomes)
        # engine validation and vacuity: the real parser on sample tokens of the language, against the same documented function
        samples = {"STRING_LITERAL": ['""', '"a"', '"a\\"b"', '"\\\\"', '"~ \\n\\t x"'], "IDENTIFIER": ["x", "_a1", "xy_Z9"]}[terminal]
        for w in samples:
            ast, raw = parse_real(exe, program(w))
            try:
                got = extract(ast) if ast is not None else None
            except Exception:
                got = None
            # the solver must agree that the sample is in the language and that the model's result for it is the documented one
            chk = z3.Solver()
            chk.add(*constraints)
            chk.add(s == z3.StringVal(w))
            inlang = chk.check() == z3.sat
            res["queries"] += 1
            if not inlang:
                res["inconclusive"].append("%s: sample token %r is not in the translated token language" % (label, w))
            elif got != documented(w):
                # the real parser itself contradicts the documented function on a sample: a violation the symbolic run must have found too
                if not any(v["id"].startswith(nonterminal.lower()) for v in res["violations"]):
                    res["inconclusive"].append("%s: real parser gives %r for %r (documented %r) but no path reported it — the model disagrees with the code" % (
                        label, got, w, documented(w)))
            else:
                res["discharged"] += 1
        res["samples"].append({"production": label, "action": name, "paths": len(outcomes), "value_paths_verified": ok_paths,
                               "lengths": lengths_nonempty, "modelled": sorted(ex.modelled)[:20], "inlined": sorted(ex.inlined)[:20]})
    res["nontrivial"] = res["discharged"]
    res["solver_s"] = round(res["solver_s"], 2)
    res["wall_s"] = round(time.time() - t0, 1)
    res["bound"] = ("token actions `String = STRING_LITERAL` and `Ident = IDENTIFIER` of the parser generated from the current grammar, on every ASCII token text "
                    "of the token's own regular expression up to %d characters (one run per length: the length is concrete, every character symbolic)" % max_len)
    print(json.dumps(res))


if __name__ == "__main__":
    main()
