#!/usr/bin/env python3
"""C07 — grouping decided on the LALR tables that lalrpop generates from /repo's current grammar.

/verif/lalr regenerates fml.rs from /repo/src/fml.lalrpop (its build script runs lalrpop exactly as /repo's does).
From the generated source this script extracts __ACTION, __EOF_ACTION, __GOTO and the (pop, nonterminal) pair of
every __reduceN, then runs the LR automaton *symbolically* on sentence templates whose operator tokens are
symbolic over the 13 operator terminals: at a symbolic lookahead the run forks on the distinct table actions and
configurations that have become equal are merged by uniting their token sets. Every merged path carries the
extent of the right operand of every operator; one z3 query per path asks for operator tokens inside the path's
sets for which the documented precedence table gives a different extent. unsat on every path = every operator
tuple groups as documented (precedence and left associativity). sat = a concrete tuple, which is replayed
through /repo's real lexer + parser (the parse_ast binary of /verif/lalr) before it is reported.

Templates with concrete structure decide else-binding and the left-to-right nesting of field / call / index
chains and of the assignment forms (atoms symbolic over the literal / identifier terminals).
"""
import json
import os
import re
import subprocess
import sys
import time

import z3

ROOT = os.path.dirname(os.path.dirname(os.path.abspath(__file__)))
LALR = os.path.join(ROOT, "lalr")

OPS = ['MULTIPLY', 'DIVIDE', 'MODULE', 'PLUS', 'MINUS', 'EQUAL', 'UNEQUAL', 'GREATER', 'GREATER_EQUAL', 'LESS', 'LESS_EQUAL', 'AND', 'OR']
# README: "* / %" bind tightest, then "+ -", then the six comparisons, then "&", then "|"
LEVEL = {'MULTIPLY': 1, 'DIVIDE': 1, 'MODULE': 1, 'PLUS': 2, 'MINUS': 2, 'EQUAL': 3, 'UNEQUAL': 3, 'GREATER': 3, 'GREATER_EQUAL': 3,
         'LESS': 3, 'LESS_EQUAL': 3, 'AND': 4, 'OR': 5}
LEXEME = {'MULTIPLY': '*', 'DIVIDE': '/', 'MODULE': '%', 'PLUS': '+', 'MINUS': '-', 'EQUAL': '==', 'UNEQUAL': '!=', 'GREATER': '>',
          'GREATER_EQUAL': '>=', 'LESS': '<', 'LESS_EQUAL': '<=', 'AND': '&', 'OR': '|', 'IDENTIFIER': 'x', 'NUMBER': '7', 'TRUE': 'true',
          'FALSE': 'false', 'UNIT': 'null', 'THIS': 'this', 'IF': 'if', 'THEN': 'then', 'ELSE': 'else', 'DOT': '.', 'LPAREN': '(',
          'RPAREN': ')', 'LBRACKET': '[', 'RBRACKET': ']', 'LARROW': '<-', 'COMMA': ',', 'SEMICOLON': ';', 'BEGIN': 'begin', 'END': 'end',
          'WHILE': 'while', 'DO': 'do', 'LET': 'let', 'BE': '='}
ATOMS = ['IDENTIFIER', 'NUMBER', 'TRUE', 'FALSE', 'UNIT', 'THIS']


def build():
    env = dict(os.environ, CARGO_NET_OFFLINE="true")
    if not os.path.exists(os.path.join(LALR, "Cargo.lock")):
        import shutil
        shutil.copy("/repo/Cargo.lock", os.path.join(LALR, "Cargo.lock"))
    p = subprocess.run(["cargo", "build", "--offline"], cwd=LALR, env=env, stdout=subprocess.PIPE, stderr=subprocess.STDOUT, text=True)
    if p.returncode:
        raise RuntimeError("lalrpop helper failed to build (grammar no longer compiles?):\n" + p.stdout[-2000:])
    exe = os.path.join(LALR, "target", "debug", "parse_ast")
    gen = subprocess.run([exe, "--where"], stdout=subprocess.PIPE, text=True).stdout.strip()
    return exe, gen


class Tables:
    def __init__(self, src):
        def table(name):
            m = re.search(r"const %s: &'static \[i16\] = &\[(.*?)\];" % name, src, re.S)
            return [int(x) for x in re.findall(r'-?\d+', re.sub(r'//[^\n]*', '', m.group(1)))]
        # the TopLevel parser is the only public parser; its tables come first in the generated module
        self.ACTION, self.EOFA, self.GOTO = table('__ACTION'), table('__EOF_ACTION'), table('__GOTO')
        self.TERMS = re.findall(r'r###"(.*?)"###', re.search(r"const __TERMINAL: &'static \[&'static str\] = &\[(.*?)\];", src, re.S).group(1))
        self.NT, self.NS = len(self.TERMS), len(self.EOFA)
        self.NNT = len(self.GOTO) // self.NS
        self.prods = {}
        for mm in re.finditer(r'pub\(crate\) fn __reduce(\d+)<.*?// (.*?) => ActionFn\((\d+)\);.*?\n\s*\((\d+), (\d+)\)\n', src, re.S):
            self.prods[int(mm.group(1))] = (mm.group(2).strip(), int(mm.group(3)), int(mm.group(4)), int(mm.group(5)))
        self.T = {n: i for i, n in enumerate(self.TERMS)}


def explore(tb, tokens, domains):
    """Lock-step symbolic execution of the LR automaton with merging. A configuration is (state stack, spans on the
    stack, position, per-start-position maximal reduced extent, set of all reduced spans); its path condition is a
    product of per-symbol token sets. Two conditions are merged only when they differ in at most one symbol, so the
    union is exact."""
    stats = dict(steps=0, forks=0, merges=0, maxfront=0)
    front = {}

    def add(d, key, dom):
        lst = d.setdefault(key, [])
        for i, other in enumerate(lst):
            diff = [k for k in dom if dom[k] != other[k]]
            if len(diff) == 0:
                stats['merges'] += 1
                return
            if len(diff) == 1:
                k = diff[0]
                nd = dict(other)
                nd[k] = other[k] | dom[k]
                lst[i] = nd
                stats['merges'] += 1
                return
        lst.append(dom)

    add(front, ((0,), (), 0, (), frozenset()), dict(domains))
    done = []
    guard = 0
    while front:
        guard += 1
        if guard > 10000:
            raise RuntimeError("LR executor did not terminate")
        stats['maxfront'] = max(stats['maxfront'], sum(len(v) for v in front.values()))
        nxt = {}
        for (states, spans, pos, maxhi, allspans), doms in front.items():
            for dom in doms:
                st = states[-1]
                if pos < len(tokens):
                    tk = tokens[pos]
                    if isinstance(tk, tuple):
                        groups = {}
                        for t in dom[tk[1]]:
                            groups.setdefault(tb.ACTION[st * tb.NT + t], set()).add(t)
                        stats['forks'] += len(groups) - 1
                        alts = [(a, {**dom, tk[1]: frozenset(g)}) for a, g in groups.items()]
                    else:
                        alts = [(tb.ACTION[st * tb.NT + tk], dom)]
                else:
                    alts = [(tb.EOFA[st], dom)]
                for act, d2 in alts:
                    stats['steps'] += 1
                    if act > 0:
                        mh = dict(maxhi)
                        mh[pos] = max(mh.get(pos, -1), pos)
                        add(nxt, (states + (act - 1,), spans + ((pos, pos),), pos + 1, tuple(sorted(mh.items())), allspans), d2)
                    elif act < 0:
                        p = -act - 1
                        if p not in tb.prods:
                            done.append((True, dict(maxhi), d2, allspans))
                            continue
                        name, afn, pop, nt = tb.prods[p]
                        kids = spans[len(spans) - pop:] if pop else ()
                        lo = kids[0][0] if kids else pos
                        hi = kids[-1][1] if kids else pos - 1
                        ns = states[:len(states) - pop] if pop else states
                        nsp = spans[:len(spans) - pop] if pop else spans
                        mh = dict(maxhi)
                        if pop:
                            mh[lo] = max(mh.get(lo, -1), hi)
                        add(nxt, (ns + (tb.GOTO[ns[-1] * tb.NNT + nt] - 1,), nsp + ((lo, hi),), pos, tuple(sorted(mh.items())),
                                  allspans | ({(lo, hi)} if pop else set())), d2)
                    else:
                        done.append((False, dict(maxhi), d2, allspans))
        front = nxt
    return done, stats


def real_parse(exe, text):
    r = subprocess.run([exe], input=text, stdout=subprocess.PIPE, stderr=subprocess.STDOUT, text=True, timeout=60)
    line = r.stdout.strip()
    if line.startswith("OK "):
        return json.loads(line[3:])
    return None


def ast_extents(ast):
    """For `x0 o1 x1 ... on xn` parsed by the real parser: index of the last operand inside the right operand of every
    operator, read off the CallMethod tree (operands are the identifiers x0..xn)."""
    out = {}

    def leaves(n):
        if "AccessVariable" in n:
            return [int(n["AccessVariable"]["name"][1:])]
        cm = n["CallMethod"]
        l = leaves(cm["object"])
        r = leaves(cm["arguments"][0])
        out[min(r)] = (cm["name"], max(r))
        return l + r

    leaves(ast["Top"][0])
    return out


def ref_extent_concrete(levels, i):
    """Documented grouping on concrete levels: the right operand of operator i extends until the next operator that
    does not bind tighter (left associativity at equal level)."""
    n = len(levels)
    for j in range(i + 1, n):
        if levels[j] >= levels[i]:
            return j  # operand index j (0-based operands: operator i sits between operand i and i+1)
    return n


def check_precedence(tb, exe, nops, result):
    ident = tb.T['IDENTIFIER']
    tokens = []
    for i in range(nops):
        tokens += [ident, ('sym', i)]
    tokens.append(ident)
    n_tok = len(tokens)
    domains = {i: frozenset(tb.T[o] for o in OPS) for i in range(nops)}
    done, stats = explore(tb, tokens, domains)
    o = [z3.Int('o%d' % i) for i in range(nops)]

    def lvl(x):
        e = z3.IntVal(0)
        for name in OPS:
            e = z3.If(x == tb.T[name], LEVEL[name], e)
        return e

    L = [lvl(x) for x in o]

    def ref_r(i):
        e = z3.IntVal(n_tok - 1)
        for j in range(nops - 1, i, -1):
            e = z3.If(L[j] >= L[i], 2 * j, e)
        return e

    combos = 0
    for ok, maxhi, dom, _all in done:
        s = z3.Solver()
        for i in range(nops):
            s.add(z3.Or([o[i] == t for t in dom[i]]))
        c = 1
        for i in range(nops):
            c *= len(dom[i])
        combos += c
        if ok:
            s.add(z3.Or([ref_r(i) != maxhi.get(2 * i + 2, -1) for i in range(nops)]))
        t1 = time.time()
        r = s.check()
        result["solver_s"] += time.time() - t1
        result["queries"] += 1
        if r == z3.unsat:
            result["discharged"] += 1
            continue
        if r != z3.sat:
            result["inconclusive"].append("z3 answered %s on a merged path of %d operators" % (r, nops))
            continue
        m = s.model()
        names = [tb.TERMS[m.eval(x, model_completion=True).as_long()] for x in o]
        text = " ".join(["x0"] + [LEXEME[nm] + " x%d" % (k + 1) for k, nm in enumerate(names)])
        ast = real_parse(exe, text)
        levels = [LEVEL[nm] for nm in names]
        want = {k + 1: (LEXEME[nm], ref_extent_concrete(levels, k)) for k, nm in enumerate(names)}
        got = ast_extents(ast) if ast else None
        result["violations"].append({
            "id": "prec_%dops_%s" % (nops, "_".join(names)),
            "what": "grammar groups `%s` differently from the documented precedence/associativity: tables %s; real parser %s; documented %s" % (
                text, "accept" if ok else "reject", got, want),
            "reproduced": got != want, "replay_cmd": "echo '%s' | %s" % (text, exe), "sentence": text})
    if combos != 13 ** nops:
        result["inconclusive"].append("merged paths cover %d of %d operator tuples" % (combos, 13 ** nops))
    result["paths"] += len(done)
    result["samples"].append({"template": "x (op x)^%d" % nops, "merged_paths": len(done), "operator_tuples_covered": combos,
                              "forks": stats['forks'], "merges": stats['merges'], "automaton_steps": stats['steps']})
    result["tuples"] = result.get("tuples", 0) + combos


def check_template(tb, exe, name, token_names, must_have, result, atom_positions=()):
    """A sentence template with concrete structure; tokens at `atom_positions` are symbolic over ATOMS. Every merged path
    must accept and must have reduced every span in `must_have` (that node exists in the derivation)."""
    tokens, domains = [], {}
    for i, tn in enumerate(token_names):
        if i in atom_positions:
            tokens.append(('sym', i))
            domains[i] = frozenset(tb.T[a] for a in ATOMS)
        else:
            tokens.append(tb.T[tn])
    done, stats = explore(tb, tokens, domains)
    ok_all = True
    for ok, maxhi, dom, allspans in done:
        result["queries"] += 1
        bad = (not ok) or any(sp not in allspans for sp in must_have)
        if not bad:
            result["discharged"] += 1
            continue
        ok_all = False
        names = [tb.TERMS[sorted(dom[i])[0]] if i in atom_positions else tn for i, tn in enumerate(token_names)]
        idc = iter("abcdefgh")
        text = " ".join(next(idc) if nm == 'IDENTIFIER' else LEXEME[nm] for nm in names)
        ast = real_parse(exe, text)
        result["violations"].append({
            "id": "template_" + name, "what": "template %s: `%s` is %s by the tables, spans reduced %s, required %s; real parser: %s" % (
                name, text, "accepted" if ok else "rejected", sorted(allspans), must_have, "accepts" if ast else "rejects"),
            "reproduced": True, "replay_cmd": "echo '%s' | %s" % (text, exe), "sentence": text})
    result["paths"] += len(done)
    result["samples"].append({"template": name, "tokens": " ".join(token_names), "merged_paths": len(done), "required_spans": must_have, "held": ok_all})


def validate_executor(tb, exe, result):
    """Translator validation: on all 169 concrete operator pairs the table executor and /repo's real parser give the same
    right-operand extents (the AST carries them through the CallMethod nesting)."""
    ident = tb.T['IDENTIFIER']
    checked = 0
    for a in OPS:
        for b in OPS:
            done, _ = explore(tb, [ident, tb.T[a], ident, tb.T[b], ident], {})
            ok, maxhi, _d, _s = done[0]
            ast = real_parse(exe, "x0 %s x1 %s x2" % (LEXEME[a], LEXEME[b]))
            if ast is None or not ok:
                result["inconclusive"].append("executor/parser disagree on acceptance of %s %s" % (a, b))
                continue
            got = ast_extents(ast)
            tab = {1: maxhi.get(2) // 2, 2: maxhi.get(4) // 2}
            if {k: v[1] for k, v in got.items()} != tab:
                result["inconclusive"].append("table executor and real parser disagree on `x0 %s x1 %s x2`: %s vs %s" % (LEXEME[a], LEXEME[b], tab, got))
            if got[1][0] != LEXEME[a] or got[2][0] != LEXEME[b]:
                result["violations"].append({"id": "opname_%s_%s" % (a, b), "what": "`x0 %s x1 %s x2`: operator did not become the method call named by its symbol: %s" % (LEXEME[a], LEXEME[b], got),
                                             "reproduced": True, "replay_cmd": "echo 'x0 %s x1 %s x2' | %s" % (LEXEME[a], LEXEME[b], exe)})
            checked += 1
    result["executor_validated_on"] = checked


def main():
    t0 = time.time()
    max_ops = int(sys.argv[1]) if len(sys.argv) > 1 else 3
    result = {"name": "c07_grammar_tables", "queries": 0, "discharged": 0, "nontrivial": 0, "violations": [], "inconclusive": [],
              "samples": [], "paths": 0, "solver_s": 0.0}
    try:
        exe, gen = build()
        tb = Tables(open(gen).read())
    except Exception as e:
        result["inconclusive"].append(str(e)[-800:])
        print(json.dumps(result))
        return
    result["tables"] = {"states": tb.NS, "terminals": tb.NT, "nonterminals": tb.NNT, "productions": len(tb.prods)}
    missing = [t for t in OPS + ATOMS if t not in tb.T]
    if missing:
        result["inconclusive"].append("terminals missing from the generated tables: %s" % missing)
        print(json.dumps(result))
        return
    for n in range(1, max_ops + 1):
        check_precedence(tb, exe, n, result)
    # else binds to the nearest if: the inner `if` (token 3) owns the else, i.e. a node spans tokens 3..8
    check_template(tb, exe, "dangling_else", ['IF', 'IDENTIFIER', 'THEN', 'IF', 'IDENTIFIER', 'THEN', 'IDENTIFIER', 'ELSE', 'IDENTIFIER'],
                   [(3, 8), (0, 8)], result, atom_positions=(1, 4, 6, 8))
    # a . f . g ( x ) [ i ]  : call on the field chain first, then the index: nodes 0..7 and 0..10
    check_template(tb, exe, "chain_field_call_index", ['IDENTIFIER', 'DOT', 'IDENTIFIER', 'DOT', 'IDENTIFIER', 'LPAREN', 'IDENTIFIER', 'RPAREN', 'LBRACKET', 'IDENTIFIER', 'RBRACKET'],
                   [(0, 7), (0, 10)], result, atom_positions=(6, 9))
    # a [ i ] [ j ] : left to right: node 0..3 then 0..6
    check_template(tb, exe, "index_chain", ['IDENTIFIER', 'LBRACKET', 'IDENTIFIER', 'RBRACKET', 'LBRACKET', 'IDENTIFIER', 'RBRACKET'],
                   [(0, 3), (0, 6)], result, atom_positions=(2, 5))
    # a [ i ] <- v  and  a . f <- v : the assignment covers the whole sentence, its value is the last atom
    check_template(tb, exe, "array_assignment", ['IDENTIFIER', 'LBRACKET', 'IDENTIFIER', 'RBRACKET', 'LARROW', 'IDENTIFIER'],
                   [(0, 5)], result, atom_positions=(2, 5))
    check_template(tb, exe, "field_assignment", ['IDENTIFIER', 'DOT', 'IDENTIFIER', 'LARROW', 'IDENTIFIER'], [(0, 4)], result, atom_positions=(4,))
    # x + ( x + x ) * x : redundant-free parentheses group first: node 2..6 is one operand
    check_template(tb, exe, "parentheses", ['IDENTIFIER', 'PLUS', 'LPAREN', 'IDENTIFIER', 'PLUS', 'IDENTIFIER', 'RPAREN', 'MULTIPLY', 'IDENTIFIER'],
                   [(2, 6), (2, 8), (0, 8)], result, atom_positions=(3, 5, 8))
    validate_executor(tb, exe, result)
    result["nontrivial"] = result["discharged"]
    result["solver_s"] = round(result["solver_s"], 2)
    result["wall_s"] = round(time.time() - t0, 1)
    result["bound"] = "all 13^n operator tuples for n <= %d; six structural templates with atoms symbolic over %s" % (max_ops, ATOMS)
    print(json.dumps(result))


if __name__ == "__main__":
    main()
