#!/usr/bin/env python3
"""C02 / C13 — the compiler arms with several children, decided on the MIR of `compile_into`.

CBMC explores all 23 arms of `compile_into` at every recursive call (an AST read back from a Box loses its
discriminant), so only one-node programs fit there. The MIR executor keeps the *shape* of the AST concrete in its
value tree — only the matching arm runs — while `keep_result`, the frame kind and the integer / boolean literals are
symbolic. For every AST template of the family below, every path of the real `compile_into` yields the emitted code,
constant pool and globals; the checks on them are:

  W  well-formedness (C02): constant references exist and have the kind the instruction requires, labels are defined
     once and every jump has its label in the same code unit, locals fit the frame size recorded for the method,
     every instruction belongs to exactly one method;
  S  stack discipline (C02): an abstract run of the emitted code over all its control-flow edges gives every
     instruction one depth, never negative; the unit nets +1 when the value is kept and 0 when it is discarded, on
     both values of `keep_result`;
  O  order and multiplicity (C13): the template's operand positions hold self-identifying calls m1(), m2(), ...; an
     independent reference evaluator of the AST gives the trace the language definition prescribes (left to right,
     initializer once per element, only the taken branch, condition once more at exit) and an independent reference
     VM running the emitted code must produce the same trace, for the run-time choices (branch conditions, sizes)
     the task enumerates.

Counterexamples are replayed by compiling the same AST with the real compiler (replay binary `compile_ast`).
Output: one JSON object on stdout.
"""
import json
import os
import subprocess
import sys
import time

import z3

sys.path.insert(0, os.path.dirname(os.path.abspath(__file__)))
import mirx  # noqa: E402
import mirfmt  # noqa: E402,F401
import mircomp  # noqa: E402
from mirx import BV, Bool, Enum, Ref, Str, Tup, VecV, MapV  # noqa: E402

ROOT = mirx.ROOT
SRC = ["/repo/src/bytecode/heap.rs", "/repo/src/bytecode/program.rs", "/repo/src/bytecode/bytecode.rs",
       "/repo/src/bytecode/state.rs", "/repo/src/parser/mod.rs", "/repo/src/bytecode/compiler.rs"]


# ---------------------------------------------------------------------------------------------------------------
# AST templates: python tuples  (kind, fields...)  with symbolic leaves named by strings starting with '?'

def I(v):
    return ("Integer", v)


def B(v):
    return ("Boolean", v)


NULL = ("Null",)


def var(name, value):
    return ("Variable", name, value)


def get(name):
    return ("AccessVariable", name)


def assign(name, value):
    return ("AssignVariable", name, value)


def call(name, *args):
    return ("CallFunction", name, list(args))


def mcall(obj, name, *args):
    return ("CallMethod", obj, name, list(args))


def P(*args):
    """print("~ ~ ...", args): makes the values of variable reads observable in the trace."""
    return ("Print", " ".join("~" for _ in args), list(args))


def m(k):
    """A self-identifying, side-effecting operand: the call m<k>()."""
    return call("m%d" % k)


class Build:
    def __init__(self, ex, store, enums, structs):
        self.ex, self.store, self.enums, self.structs = ex, store, enums, structs
        self.syms = {}

    def new(self, v):
        return self.ex.world.new(self.store, v)

    def ident(self, name):
        return Tup([self.new(Str(z3.StringVal(name)))], "Identifier")

    def box(self, node):
        return mircomp.make_box(self.ex, self.store, self.new(self.ast(node)))

    def boxes(self, nodes):
        return VecV([self.new(self.box(n)) for n in nodes])

    def ast(self, node):
        kind = node[0]
        idx = self.enums["AST"].index(kind)
        n = self.new
        if kind == "Integer":
            v = node[1]
            if isinstance(v, str):
                t = z3.BitVec(v[1:], 32)
                self.syms[v] = t
                cells = [n(BV(t, 32, True))]
            else:
                cells = [n(BV(z3.BitVecVal(v, 32), 32, True))]
        elif kind == "Boolean":
            v = node[1]
            if isinstance(v, str):
                t = z3.Bool(v[1:])
                self.syms[v] = t
                cells = [n(Bool(t))]
            else:
                cells = [n(Bool(z3.BoolVal(v)))]
        elif kind == "Null":
            cells = []
        elif kind in ("Variable", "AssignVariable"):
            cells = [n(self.ident(node[1])), n(self.box(node[2]))]
        elif kind == "Array":
            cells = [n(self.box(node[1])), n(self.box(node[2]))]
        elif kind == "Object":
            cells = [n(self.box(node[1])), n(self.boxes(node[2]))]
        elif kind == "AccessVariable":
            cells = [n(self.ident(node[1]))]
        elif kind == "AccessField":
            cells = [n(self.box(node[1])), n(self.ident(node[2]))]
        elif kind == "AccessArray":
            cells = [n(self.box(node[1])), n(self.box(node[2]))]
        elif kind == "AssignField":
            cells = [n(self.box(node[1])), n(self.ident(node[2])), n(self.box(node[3]))]
        elif kind == "AssignArray":
            cells = [n(self.box(node[1])), n(self.box(node[2])), n(self.box(node[3]))]
        elif kind == "Function":
            cells = [n(self.ident(node[1])), n(VecV([n(self.ident(p)) for p in node[2]])), n(self.box(node[3]))]
        elif kind == "CallFunction":
            cells = [n(self.ident(node[1])), n(self.boxes(node[2]))]
        elif kind == "CallMethod":
            cells = [n(self.box(node[1])), n(self.ident(node[2])), n(self.boxes(node[3]))]
        elif kind in ("Top", "Block"):
            cells = [n(self.boxes(node[1]))]
        elif kind == "Loop":
            cells = [n(self.box(node[1])), n(self.box(node[2]))]
        elif kind == "Conditional":
            cells = [n(self.box(node[1])), n(self.box(node[2])), n(self.box(node[3]))]
        elif kind == "Print":
            cells = [n(Str(z3.StringVal(node[1]))), n(self.boxes(node[2]))]
        else:
            raise mirx.Unsupported("AST kind " + kind)
        return Enum("AST", idx, {idx: cells} if cells else {})

    def struct(self, name, **fields):
        order = self.structs[name]
        assert set(order) == set(fields), (name, order, list(fields))
        return Tup([self.new(fields[f]) for f in order], name)

    def u64(self, v):
        return BV(z3.BitVecVal(v, 64), 64, False)

    def environment(self, locals_=()):
        entries = [((0, name), self.new(Tup([self.new(BV(z3.BitVecVal(i, 16), 16, False))], "LocalFrameIndex"))) for i, name in enumerate(locals_)]
        return self.struct("Environment", locals=MapV(entries), scopes=VecV([self.new(self.u64(0))]), scope_sequence=self.u64(0), unique_number=self.u64(0))

    def generator(self):
        return self.struct("ProgramGenerator",
                           constant_pool=Tup([self.new(VecV([]))], "ConstantPool"),
                           labels=self.struct("LabelGenerator", names=MapV([]), groups=self.u64(0)),
                           completed_code=Tup([self.new(VecV([]))], "Code"),
                           globals=Tup([self.new(VecV([]))], "Globals"),
                           entry=Tup([self.new(Enum("Option", 0, {}))], "Entry"))


def find_compile_into(bodies):
    for k, b in bodies.items():
        if k.endswith("::compile_into") and len(b.params) == 6 and "AST" in b.params[0][1]:
            return b
    return None


def run_template(bodies, enums, structs, node, frame, keep="?keep", locals_=()):
    ex = mirx.Executor(bodies, enums, structs, max_depth=80, loop_bound=40)
    store = {}
    b = Build(ex, store, enums, structs)
    ast_cell = b.new(b.ast(node))
    gen_cell = b.new(b.generator())
    buf_cell = b.new(Tup([b.new(VecV([]))], "Code"))
    genv_cell = b.new(b.environment())
    if frame == "local":
        fr = Enum("Frame", enums["Frame"].index("Local"), {enums["Frame"].index("Local"): [b.new(b.environment(locals_))]})
    else:
        fr = Enum("Frame", enums["Frame"].index("Top"), {})
    frame_cell = b.new(fr)
    if keep == "?keep":
        kt = z3.Bool("keep")
        b.syms["?keep"] = kt
    else:
        kt = z3.BoolVal(keep)
    body = find_compile_into(bodies)
    try:
        outs = list(ex.run(body, [Ref(ast_cell), Ref(gen_cell), Ref(buf_cell), Ref(genv_cell), Ref(frame_cell), Bool(kt)], [], store))
    except Exception:
        sys.stderr.write("unmodelled so far: %s\n" % sorted(ex.unmodelled))
        raise
    return ex, b, outs, dict(gen=gen_cell, buf=buf_cell, genv=genv_cell, frame=frame_cell)


# ---------------------------------------------------------------------------------------------------------------
# reading the compiler's output back from a path's store

def val(store, v):
    """A python view of a value tree: ints (concrete) or z3 terms (symbolic), strings, tuples."""
    v = mirx.deref_all(store, v)
    if isinstance(v, BV):
        sv = z3.simplify(v.t)
        return (sv.as_signed_long() if v.signed else sv.as_long()) if z3.is_bv_value(sv) else sv
    if isinstance(v, Bool):
        sv = z3.simplify(v.t)
        return True if z3.is_true(sv) else False if z3.is_false(sv) else sv
    if isinstance(v, Str):
        sv = z3.simplify(v.t)
        return mirfmt.mirx_string(sv) if z3.is_string_value(sv) else sv
    if isinstance(v, Tup):
        if len(v.cells) == 1:
            return val(store, store[v.cells[0]])
        return tuple(val(store, store[c]) for c in v.cells)
    if isinstance(v, VecV):
        return [val(store, store[c]) for c in v.cells]
    raise mirx.Unsupported("value %r" % (v,))


def read_opcode(store, enums, e):
    name = enums["OpCode"][e.disc]
    return (name,) + tuple(val(store, store[c]) for c in e.payload.get(e.disc, ()))


def read_constant(store, enums, e, structs):
    name = enums["ProgramObject"][e.disc]
    cells = e.payload.get(e.disc, ())
    if name == "Method":
        f = dict(zip(METHOD_FIELDS, [val(store, store[c]) for c in cells]))
        rng = dict(zip(structs["AddressRange"], f["code"]))
        return ("Method", f["name"], f["parameters"], f["locals"], rng["start"], rng["length"])
    return (name,) + tuple(val(store, store[c]) for c in cells)


METHOD_FIELDS = []


def read_method_fields():
    import re
    src = open("/repo/src/bytecode/program.rs").read()
    src = re.sub(r"//[^\n]*", "", src)
    mm = re.search(r"\benum\s+ProgramObject\s*\{.*?\bMethod\s*\{([^}]*)\}", src, flags=re.S)
    for f in mm.group(1).split(","):
        f = f.strip()
        if f:
            METHOD_FIELDS.append(f.split(":")[0].strip())


def read_output(o, cells, enums, structs):
    st = o.store
    gen = st[cells["gen"]]
    g = dict(zip(structs["ProgramGenerator"], gen.cells))
    vec = lambda newtype_cell: st[st[newtype_cell].cells[0]]
    pool = [read_constant(st, enums, st[c], structs) for c in vec(g["constant_pool"]).cells]
    done = [read_opcode(st, enums, st[c]) for c in vec(g["completed_code"]).cells]
    globs = [val(st, st[c]) for c in vec(g["globals"]).cells]
    entry = st[st[g["entry"]].cells[0]]
    entry = val(st, st[entry.payload[1][0]]) if entry.disc == 1 else None
    buf = [read_opcode(st, enums, st[c]) for c in st[st[cells["buf"]].cells[0]].cells]
    return dict(pool=pool, completed=done, globals=globs, entry=entry, buffer=buf)


# ---------------------------------------------------------------------------------------------------------------
# programs under test

def fresh_array():
    return [0, 0, 0]


def wrap(expr, prelude=()):
    """The programs one expression template is compiled in: value kept / discarded, at top level, in a block, in a function."""
    pre = list(prelude)
    return [
        ("top-keep", ("Top", pre + [expr])),
        ("top-drop", ("Top", pre + [expr, NULL])),
        ("block", ("Top", pre + [("Block", [expr, NULL]), ("Block", [expr])])),
        ("function", ("Top", pre + [("Function", "fd", [], ("Block", [expr, NULL])), ("Function", "fk", ["p"], expr), call("fd"), call("fk", NULL)])),
    ]


XS = var("xs", ("Array", I(3), I(0)))          # let xs = array(3, 0)
OB = var("ob", ("Object", NULL, [var("f", I(1))]))
TEMPLATES = [
    # (name, expression, prelude, list of run-time choices for the markers)
    ("array-compound", ("Array", m(1), m(2)), [], [{1: [0]}, {1: [1]}, {1: [2], 2: [7, 8]}, {1: [3]}]),
    ("array-literal", ("Array", m(1), I("?v")), [], [{1: [0]}, {1: [2]}]),
    ("array-variable", ("Array", m(1), get("xs")), [XS], [{1: [2]}]),
    ("array-element", ("Array", m(1), ("AccessArray", get("xs"), m(2))), [XS], [{1: [0], 2: [0]}, {1: [1], 2: [0]}, {1: [2], 2: [0, 1]}, {1: [3], 2: [2, 1, 0]}]),
    ("array-field", ("Array", m(1), ("AccessField", get("ob"), "f")), [OB], [{1: [2]}]),
    ("array-field-of-call", ("Array", m(1), ("AccessField", m(2), "f")), [], [{1: [2], 2: [lambda: __import__("fmlref").Obj(None, {"f": 5}, {})]},
                                                                               {1: [0], 2: [lambda: __import__("fmlref").Obj(None, {"f": 5}, {})]}]),
    ("array-conditional", ("Array", m(1), ("Conditional", m(2), m(3), m(4))), [], [{1: [2], 2: [True, False]}, {1: [1], 2: [False]}]),
    ("array-literal-size", ("Array", I(2), I("?v")), [], [{}]),
    ("array-variable-size", ("Block", [("Array", get("n"), NULL), ("Array", get("n"), get("xs")), P(get("n"))]), [XS, var("n", I(2))], [{}]),
    ("array-of-arrays", ("Array", m(1), ("Array", m(2), m(3))), [], [{1: [2], 2: [1, 2]}, {1: [0], 2: [1]}]),
    ("conditional", ("Conditional", m(1), m(2), m(3)), [], [{1: [True]}, {1: [False]}, {1: [None]}, {1: [0]}]),
    ("conditional-no-else", ("Conditional", m(1), m(2), NULL), [], [{1: [True]}, {1: [False]}]),
    ("conditional-null-consequent", ("Conditional", m(1), NULL, m(2)), [], [{1: [True]}, {1: [False]}]),
    ("conditional-literals", ("Conditional", B("?c"), I("?a"), NULL), [], [{}]),
    ("loop", ("Loop", m(1), m(2)), [], [{1: [False]}, {1: [True, False]}, {1: [True, True, False]}]),
    ("loop-null-body", ("Loop", m(1), NULL), [], [{1: [False]}, {1: [True, False]}]),
    ("call-literal-arguments", call("f", NULL, I("?a")), [("Function", "f", ["a", "b"], get("b"))], [{}]),
    ("object-literal-members", ("Object", NULL, [var("a", NULL), var("b", I("?a"))]), [], [{}]),
    ("loop-conditional", ("Loop", m(1), ("Conditional", m(2), m(3), m(4))), [], [{1: [True, True, False], 2: [True, False]}]),
    ("conditional-in-condition", ("Conditional", ("Conditional", m(1), m(2), m(3)), m(4), m(5)), [], [{1: [True], 2: [False]}, {1: [False], 3: [True]}]),
    ("print", ("Print", "~ ~ ~", [m(1), m(2), m(3)]), [], [{}]),
    ("call-function", call("f", m(1), m(2)), [("Function", "f", ["a", "b"], ("Block", [m(3), get("b")]))], [{}]),
    ("call-method", mcall(m(1), "+", m(2)), [], [{1: [1], 2: [2]}]),
    # every operator spelling the parser produces, both operands effectful (operator-specific rewrites must keep the order)
    ("operators-arithmetic", ("Block", [mcall(m(1), "+", m(2)), mcall(m(3), "-", m(4)), mcall(m(5), "*", m(6)), mcall(m(7), "/", m(8)), mcall(m(9), "%", m(10))]), [],
     [{k: [k + 1] for k in range(1, 11)}]),
    ("operators-comparison", ("Block", [mcall(m(1), "<", m(2)), mcall(m(3), "<=", m(4)), mcall(m(5), ">", m(6)), mcall(m(7), ">=", m(8)), mcall(m(9), "==", m(10)), mcall(m(11), "!=", m(12))]), [],
     [{k: [k] for k in range(1, 13)}]),
    ("operators-logical", ("Block", [mcall(m(1), "&", m(2)), mcall(m(3), "|", m(4)), mcall(m(5), "==", m(6)), mcall(m(7), "!=", m(8))]), [],
     [{k: [k % 2 == 0] for k in range(1, 9)}]),
    ("call-method-3", mcall(m(1), "set", m(2), m(3)), [], [{1: [fresh_array], 2: [1], 3: [9]}]),
    ("access-array", ("AccessArray", m(1), m(2)), [], [{1: [fresh_array], 2: [2]}]),
    ("assign-array", ("AssignArray", m(1), m(2), m(3)), [], [{1: [fresh_array], 2: [0], 3: [5]}]),
    ("assign-array-nested", ("AssignArray", ("AccessArray", m(1), m(2)), m(3), m(4)), [], [{1: [lambda: [[0, 0], [0, 0]]], 2: [1], 3: [0], 4: [5]}]),
    ("object", ("Object", m(1), [var("b", m(2)), ("Function", "g", ["p"], ("Block", [m(9), get("p")])), var("a", m(3))]), [], [{}]),
    ("object-field", ("AccessField", ("Object", m(1), [var("b", m(2)), var("a", m(3))]), "a"), [], [{2: [20], 3: [30]}]),
    ("object-method", mcall(("Object", m(1), [("Function", "g", ["p", "q"], ("Block", [m(4), get("q")]))]), "g", m(2), m(3)), [], [{}]),
    ("method-nested-object", mcall(mcall(("Object", NULL, [("Function", "mk", ["a"], ("Object", m(1), [("Function", "inner", ["b"], ("Block", [m(2), get("b")])), var("f", get("a"))]))]), "mk", m(3)), "inner", m(4)), [], [{}]),
    ("function-nested-object", mcall(call("mk", m(1)), "inner", m(2)), [("Function", "mk", ["a"], ("Object", NULL, [("Function", "inner", ["b"], ("Block", [m(3), get("b")]))]))], [{}]),
    ("assign-field", ("AssignField", ("Object", m(1), [var("f", m(2))]), "f", m(3)), [], [{}]),
    ("let", ("Block", [var("x", m(1)), var("y", m(2)), assign("x", m(3)), get("x")]), [], [{}]),
    ("let-top", var("g", m(1)), [], [{}]),
    ("assign-global", assign("xs", m(1)), [XS], [{}]),
    ("block-values", ("Block", [m(1), I("?a"), B("?b"), NULL, m(2)]), [], [{}]),
    ("literal-dedup", ("Block", [I("?a"), I("?b"), I(0), B("?c"), B(True)]), [], [{}]),
    ("shadowing", ("Block", [var("x", m(1)), ("Block", [var("x", m(2)), get("x")]), get("x")]), [], [{}]),
    # scoping observed at run time (C12): what a variable read yields is printed
    ("scope-shadow", ("Block", [var("x", I("?a")), ("Block", [var("x", I("?b")), P(get("x"))]), P(get("x"))]), [], [{}]),
    ("scope-siblings", ("Block", [("Block", [var("x", I("?a")), P(get("x"))]), ("Block", [var("x", I("?b")), P(get("x"))]), ("Block", [var("y", I(3)), P(get("y"))])]), [], [{}]),
    ("scope-dead-sibling", ("Block", [("Block", [var("x", I("?a")), P(get("x"))]), ("Block", [P(get("x")), assign("x", I("?b")), P(get("x"))]), P(get("x"))]), [var("x", I("?g"))], [{}]),
    ("scope-assign-outer", ("Block", [var("x", I("?a")), ("Block", [assign("x", I("?b")), var("x", I(7)), assign("x", I(8)), P(get("x"))]), P(get("x"))]), [], [{}]),
    ("scope-function-isolation", ("Block", [var("l", I("?a")), call("f", I("?b")), P(get("l"))]),
     [var("g", I(1)), ("Function", "f", ["a"], ("Block", [var("l", get("a")), P(get("g"), get("l"))]))], [{}]),
    ("scope-parameter-shadows-global", ("Block", [call("f", I("?b")), P(get("a"))]), [var("a", I("?a")), ("Function", "f", ["a"], ("Block", [P(get("a")), assign("a", I(5)), P(get("a"))]))], [{}]),
    ("scope-global-from-function", ("Block", [call("f"), P(get("g"))]), [var("g", I("?a")), ("Function", "f", [], assign("g", I("?b")))], [{}]),
    ("scope-loop-body", ("Block", [var("i", I(0)), ("Loop", mcall(get("i"), "<", I(2)), ("Block", [var("t", get("i")), assign("i", mcall(get("i"), "+", I(1))), P(get("t"))])), P(get("i"))]), [], [{}]),
    ("scope-conditional-branches", ("Block", [var("x", I("?a")), ("Conditional", m(1), ("Block", [var("x", I(1)), P(get("x"))]), ("Block", [var("y", I(2)), P(get("x"), get("y"))])), P(get("x"))]),
     [], [{1: [True]}, {1: [False]}]),
    ("scope-method-in-block", ("Block", [var("g", I("?a")), var("o", ("Object", NULL, [("Function", "get", ["p"], ("Block", [P(get("g"), get("p")), assign("g", I("?b")), P(get("g"))]))])),
                                         mcall(get("o"), "get", I(5)), P(get("g"))]), [var("g", I("?g"))], [{}]),
    ("scope-method-this", mcall(("Object", NULL, [var("v", I("?a")), ("Function", "get", ["v"], ("Block", [P(get("v")), ("AccessField", get("this"), "v")]))]), "get", I("?b")), [], [{}]),
]


def concretise(node, model, syms):
    """The AST with its symbolic leaves replaced by the model's values (for the references and the native replay)."""
    if isinstance(node, tuple):
        return tuple(concretise(x, model, syms) for x in node)
    if isinstance(node, list):
        return [concretise(x, model, syms) for x in node]
    if isinstance(node, str) and node.startswith("?") and node in syms:
        v = model.eval(syms[node], model_completion=True)
        return bool(z3.is_true(v)) if z3.is_bool(v) else v.as_signed_long()
    return node


def to_json(n):
    k = n[0]
    bx = to_json
    if k == "Null":
        return "Null"
    if k in ("Integer", "Boolean"):
        return {k: n[1]}
    if k in ("Variable", "AssignVariable"):
        return {k: {"name": n[1], "value": bx(n[2])}}
    if k == "Array":
        return {k: {"size": bx(n[1]), "value": bx(n[2])}}
    if k == "Object":
        return {k: {"extends": bx(n[1]), "members": [bx(x) for x in n[2]]}}
    if k == "AccessVariable":
        return {k: {"name": n[1]}}
    if k == "AccessField":
        return {k: {"object": bx(n[1]), "field": n[2]}}
    if k == "AccessArray":
        return {k: {"array": bx(n[1]), "index": bx(n[2])}}
    if k == "AssignField":
        return {k: {"object": bx(n[1]), "field": n[2], "value": bx(n[3])}}
    if k == "AssignArray":
        return {k: {"array": bx(n[1]), "index": bx(n[2]), "value": bx(n[3])}}
    if k == "Function":
        return {k: {"name": n[1], "parameters": list(n[2]), "body": bx(n[3])}}
    if k == "CallFunction":
        return {k: {"name": n[1], "arguments": [bx(x) for x in n[2]]}}
    if k == "CallMethod":
        return {k: {"object": bx(n[1]), "name": n[2], "arguments": [bx(x) for x in n[3]]}}
    if k in ("Top", "Block"):
        return {k: [bx(x) for x in n[1]]}
    if k == "Loop":
        return {k: {"condition": bx(n[1]), "body": bx(n[2])}}
    if k == "Conditional":
        return {k: {"condition": bx(n[1]), "consequent": bx(n[2]), "alternative": bx(n[3])}}
    if k == "Print":
        return {k: {"format": n[1], "arguments": [bx(x) for x in n[2]]}}
    raise ValueError(k)


def from_json(j):
    if j == "Null":
        return NULL
    (k, v), = j.items()
    f = from_json
    if k in ("Integer", "Boolean"):
        return (k, v)
    if k in ("Variable", "AssignVariable"):
        return (k, v["name"], f(v["value"]))
    if k == "Array":
        return (k, f(v["size"]), f(v["value"]))
    if k == "Object":
        return (k, f(v["extends"]), [f(x) for x in v["members"]])
    if k == "AccessVariable":
        return (k, v["name"])
    if k == "AccessField":
        return (k, f(v["object"]), v["field"])
    if k == "AccessArray":
        return (k, f(v["array"]), f(v["index"]))
    if k == "AssignField":
        return (k, f(v["object"]), v["field"], f(v["value"]))
    if k == "AssignArray":
        return (k, f(v["array"]), f(v["index"]), f(v["value"]))
    if k == "Function":
        return (k, v["name"], list(v["parameters"]), f(v["body"]))
    if k == "CallFunction":
        return (k, v["name"], [f(x) for x in v["arguments"]])
    if k == "CallMethod":
        return (k, f(v["object"]), v["name"], [f(x) for x in v["arguments"]])
    if k in ("Top", "Block"):
        return (k, [f(x) for x in v])
    if k == "Loop":
        return (k, f(v["condition"]), f(v["body"]))
    if k == "Conditional":
        return (k, f(v["condition"]), f(v["consequent"]), f(v["alternative"]))
    if k == "Print":
        return (k, v["format"], [f(x) for x in v["arguments"]])
    raise ValueError(k)


def replay(template, ast_json):
    """`check --replay`: compile the recorded AST with the real compiler and re-run the references on the result."""
    import fmlref
    fmlref.COUNT_ALLOCATIONS = True
    ast = from_json(json.loads(ast_json))
    real, err = native_compile(ast)
    if real is None:
        print("the real compiler did not produce a program:", err)
        return 2
    findings = [("W", x) for x in fmlref.well_formed(real)] + [("S", x) for x in fmlref.stack_discipline(real)]
    for name, _, _, choice_list in TEMPLATES:
        if name == template:
            for choices in choice_list:
                want, verdict = fmlref.eval_ast(ast, choices)
                got = fmlref.run_code(real, choices)
                if verdict == "ok" and got != (want, "ok"):
                    findings.append(("O", "choices %r: the language definition gives %s, the emitted code gives %s" % (sorted(choices), want, got)))
    for a, ins in enumerate(real["code"]):
        print("%3d: %s" % (a, " ".join(str(x) for x in ins)))
    for kind, what in findings:
        print("REPRODUCED [%s] %s" % (kind, what))
    return 1 if findings else 0


_EXE = {}


def native_compile(ast):
    """The program the real compiler produces for a concrete AST, parsed back from its listing."""
    if "exe" not in _EXE:
        d = os.path.join(ROOT, "replay")
        b = subprocess.run(["cargo", "build", "--offline", "--bin", "compile_ast"], cwd=d, env=dict(os.environ, CARGO_NET_OFFLINE="true"),
                           stdout=subprocess.PIPE, stderr=subprocess.STDOUT, text=True)
        _EXE["exe"] = os.path.join(d, "target", "debug", "compile_ast") if b.returncode == 0 else None
    if _EXE["exe"] is None:
        return None, "replay binary did not build"
    r = subprocess.run([_EXE["exe"]], input=json.dumps(to_json(ast)), stdout=subprocess.PIPE, stderr=subprocess.DEVNULL, text=True)
    if not r.stdout.startswith("OK\n"):
        return None, r.stdout.strip()[:200]
    return parse_listing(r.stdout[3:]), None


def parse_listing(text):
    import re
    pool, code, globs, entry = [], [], [], None
    section = None
    num = lambda x: int(x.lstrip("#:"))
    for line in text.split("\n"):
        if line in ("Constant Pool:", "Globals:", "Code:"):
            section = line
            continue
        if line.startswith("Entry: "):
            entry = num(line[7:]) if line[7:] else None
            continue
        if not line:
            continue
        body = line.split(": ", 1)[1]
        if section == "Constant Pool:":
            if body.startswith('"'):
                pool.append(("String", body[1:-1]))
            elif body == "null":
                pool.append(("Null",))
            elif body in ("true", "false"):
                pool.append(("Boolean", body == "true"))
            elif body.startswith("slot "):
                pool.append(("Slot", num(body[5:])))
            elif body.startswith("class"):
                pool.append(("Class", [num(x) for x in body[6:].split(",") if x]))
            elif body.startswith("method "):
                mm = re.match(r"^method #(\d+) args:(\d+) locals:(\d+) (\d+)-(\d+|∅)$", body)
                start = int(mm.group(4))
                length = 0 if mm.group(5) == "∅" else int(mm.group(5)) - start + 1
                pool.append(("Method", int(mm.group(1)), int(mm.group(2)), int(mm.group(3)), start, length))
            else:
                pool.append(("Integer", int(body)))
        elif section == "Globals:":
            globs.append(num(body))
        else:
            w = body.split(" ")
            table = {("lit",): "Literal", ("get", "local"): "GetLocal", ("set", "local"): "SetLocal", ("get", "global"): "GetGlobal",
                     ("set", "global"): "SetGlobal", ("object",): "Object", ("array",): "Array", ("get", "slot"): "GetField",
                     ("set", "slot"): "SetField", ("call", "slot"): "CallMethod", ("call",): "CallFunction", ("printf",): "Print",
                     ("label",): "Label", ("goto",): "Jump", ("branch",): "Branch", ("return",): "Return", ("drop",): "Drop"}
            for n_words in (2, 1):
                key = tuple(w[:n_words])
                if key in table:
                    code.append((table[key],) + tuple(num(x) for x in w[n_words:]))
                    break
    return dict(pool=pool, code=code, globals=globs, entry=entry)


def program_of(out):
    """The compiler's output of one path as a program (Top moves the entry code into completed code; the buffer must be empty)."""
    return dict(pool=out["pool"], code=out["completed"] + out["buffer"], globals=out["globals"], entry=out["entry"])


def symbolic_free(x):
    if isinstance(x, (tuple, list)):
        return all(symbolic_free(y) for y in x)
    return not z3.is_expr(x)


def substitute_model(x, model):
    if isinstance(x, dict):
        return {k: substitute_model(v, model) for k, v in x.items()}
    if isinstance(x, tuple):
        return tuple(substitute_model(y, model) for y in x)
    if isinstance(x, list):
        return [substitute_model(y, model) for y in x]
    if z3.is_expr(x):
        v = model.eval(x, model_completion=True)
        if z3.is_bool(v):
            return bool(z3.is_true(v))
        if z3.is_bv(v):
            return v.as_signed_long()
        return mirfmt.mirx_string(v)
    return x


def check_template(k):
    """One template in its four contexts (run in a worker process; z3 objects do not cross process boundaries, so everything
    returned is plain data)."""
    import fmlref
    bodies, enums, structs, which = SHARED["bodies"], SHARED["enums"], SHARED["structs"], SHARED["which"]
    fmlref.COUNT_ALLOCATIONS = which in ("all", "C13", "C16")
    name, expr, prelude, choice_list = TEMPLATES[k]
    res = {"queries": 0, "discharged": 0, "violations": [], "inconclusive": [], "samples": [], "paths": 0, "solver_s": 0.0, "programs": 0,
           "reference_runs": 0, "native_agreements": 0}
    for wname, prog in wrap(expr, prelude):
        label = "%s/%s" % (name, wname)
        try:
            ex, b, outs, cells = run_template(bodies, enums, structs, prog, "top", keep=True)
        except (mirx.Unsupported, KeyError, AttributeError, TypeError, IndexError, z3.Z3Exception) as e:
            res["inconclusive"].append("%s: MIR construct outside the executor: %r" % (label, e))
            continue
        res["programs"] += 1
        res["queries"] += ex.queries
        res["solver_s"] += ex.solver_seconds
        if ex.unmodelled:
            res["inconclusive"].append("%s: unmodelled calls %s" % (label, sorted(ex.unmodelled)[:4]))
            continue
        # the enumerated paths must cover every value of the symbolic leaves
        s = z3.Solver()
        s.add(z3.Not(z3.Or([z3.And(o.pc) if o.pc else z3.BoolVal(True) for o in outs])))
        t1 = time.time()
        cover = s.check()
        res["solver_s"] += time.time() - t1
        res["queries"] += 1
        if cover != z3.unsat:
            res["inconclusive"].append("%s: enumerated paths do not cover the inputs (%s)" % (label, cover))
            continue
        res["discharged"] += 1
        for o in outs:
            res["paths"] += 1
            s = z3.Solver()
            s.add(*o.pc)
            res["queries"] += 1
            if s.check() != z3.sat:
                continue
            model = s.model()
            ast = concretise(prog, model, b.syms)
            if o.kind != "return" or not (isinstance(o.value, Enum) and o.value.disc == 0):
                res["inconclusive"].append("%s: the compiler fails or panics on a path (%s %s)" % (label, o.kind, o.msg))
                continue
            try:
                out = read_output(o, cells, enums, structs)
            except (mirx.Unsupported, KeyError, AttributeError, TypeError, IndexError) as e:
                res["inconclusive"].append("%s: output not readable: %r" % (label, e))
                continue
            if out["buffer"]:
                res["inconclusive"].append("%s: instructions left outside every method" % label)
                continue
            program = program_of(out)
            # W and S hold for every value on the path: they only read the shape (instruction kinds, indices), which is concrete;
            # symbolic literal values sit in the pool as terms and take no part
            shape = dict(program, pool=[c if symbolic_free(c) else (c[0], 0) for c in program["pool"]])
            findings = []
            if which in ("all", "C02"):
                findings += [("W", x) for x in fmlref.well_formed(shape)] + [("S", x) for x in fmlref.stack_discipline(shape)]
            concrete = substitute_model(program, model)
            if which in ("all", "C13", "C12", "C16"):
                for choices in choice_list:
                    want, verdict = fmlref.eval_ast(ast, choices)
                    if verdict != "ok":
                        res["inconclusive"].append("%s: the reference evaluator stops (%s) on choices %r" % (label, verdict, choices))
                        continue
                    got, gverdict = fmlref.run_code(concrete, choices)
                    res["reference_runs"] += 1
                    if (got, gverdict) != (want, "ok"):
                        findings.append(("O", "run-time choices %s: the language definition gives the trace %s, the emitted code gives %s (%s)"
                                         % ({k: [("fresh value" if callable(x) else x) for x in v] for k, v in choices.items()}, want, got, gverdict)))
            if not findings:
                res["discharged"] += 1
                if len(res["samples"]) < 4:
                    res["samples"].append({"program": label, "path": [str(z3.simplify(c)) for c in o.pc if not z3.is_true(z3.simplify(c))][:4],
                                           "instructions": len(program["code"]), "constants": len(program["pool"])})
                continue
            # replay: the real compiler on the concrete AST must give a program with the same defect
            real, err = native_compile(ast)
            for kind, what in findings:
                reproduced = False
                if real is not None:
                    if kind == "W":
                        reproduced = what in fmlref.well_formed(real)
                    elif kind == "S":
                        reproduced = what in fmlref.stack_discipline(real)
                    else:
                        for choices in choice_list:
                            want, verdict = fmlref.eval_ast(ast, choices)
                            if verdict == "ok" and fmlref.run_code(real, choices) != (want, "ok"):
                                reproduced = True
                rec = {"id": "%s-%s-%d" % (label.replace("/", "-"), kind, len(res["violations"])), "what": "%s [%s] %s" % (label, kind, what),
                       "reproduced": reproduced, "ast": to_json(ast),
                       "replay_cmd": "python3-vt smt/c02_compile.py --replay %s '%s'" % (name, json.dumps(to_json(ast))),
                       "observed": err or "see listing"}
                if reproduced:
                    res["violations"].append(rec)
                else:
                    res["inconclusive"].append("%s [%s] %s — not reproduced on the natively compiled program (%s)" % (label, kind, what, err))
        # engine validation: the natively compiled program equals the path's program on one model per path
        for o in outs[:2]:
            if o.kind != "return":
                continue
            s = z3.Solver()
            s.add(*o.pc)
            if s.check() != z3.sat:
                continue
            model = s.model()
            real, err = native_compile(concretise(prog, model, b.syms))
            mine = substitute_model(program_of(read_output(o, cells, enums, structs)), model)
            if real is not None and real["code"] == [tuple(x) for x in mine["code"]] and len(real["pool"]) == len(mine["pool"]):
                res["native_agreements"] += 1
            else:
                res["inconclusive"].append("%s: the MIR executor's output differs from the natively compiled program (%s)" % (label, err))
    return res


SHARED = {}


def main():
    import fmlref
    t0 = time.time()
    res = {"name": "c02_compile_mir", "queries": 0, "discharged": 0, "nontrivial": 0, "violations": [], "inconclusive": [], "samples": [],
           "paths": 0, "solver_s": 0.0, "programs": 0, "reference_runs": 0, "native_agreements": 0}
    if len(sys.argv) > 3 and sys.argv[1] == "--replay":
        sys.exit(replay(sys.argv[2], sys.argv[3]))
    which = sys.argv[1] if len(sys.argv) > 1 else "all"   # C02: W + S; C13: O; all
    try:
        text = mirx.dump_mir()
        bodies = mirx.parse_mir(text)
        enums, structs = mirx.parse_adts(SRC)
        read_method_fields()
    except Exception as e:
        res["inconclusive"].append("MIR dump / parse failed: %s" % str(e)[-600:])
        print(json.dumps(res))
        return
    SHARED.update(bodies=bodies, enums=enums, structs=structs, which=which)
    native_compile(("Top", [NULL]))   # builds the replay binary once, before the workers fork
    import multiprocessing
    jobs = int(os.environ.get("VERIF_JOBS", "8"))
    with multiprocessing.get_context("fork").Pool(min(jobs, len(TEMPLATES))) as pool:
        parts = pool.map(check_template, range(len(TEMPLATES)), chunksize=1)
    for part in parts:
        for key in ("queries", "discharged", "paths", "solver_s", "programs", "reference_runs", "native_agreements"):
            res[key] += part[key]
        res["violations"] += part["violations"]
        res["inconclusive"] += part["inconclusive"]
        res["samples"] = (res["samples"] + part["samples"])[:4]
    res["nontrivial"] = res["discharged"]
    res["solver_s"] = round(res["solver_s"], 2)
    res["wall_s"] = round(time.time() - t0, 1)
    res["bound"] = ("%d expression templates (every compiler arm with several children, depth <= 3) x 4 contexts (kept / discarded at top level, in a block, "
                    "in a function); integer and boolean literals symbolic; run-time choices per template as listed in smt/c02_compile.py" % len(TEMPLATES))
    print(json.dumps(res))


if __name__ == "__main__":
    main()
