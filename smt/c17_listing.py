#!/usr/bin/env python3
"""C17 — the listing printed by `fml disassemble` determines the program.

The `Display` impls the disassemble action prints with (Program, ConstantPool, Globals, Entry, Code, ProgramObject,
OpCode, Address, ConstantPoolIndex, LocalFrameIndex, Arity, Size, AddressRange) are executed symbolically from their
MIR, dumped from /repo now, by smt/mirx.py with the formatting models of smt/mirfmt.py: `write!` appends *tokens*
to the formatter — literal text, and one token per `{}` placeholder carrying the z3 term of the value printed and
how it is printed (decimal of an unsigned / signed machine integer, zero-padded to a width, boolean, raw string).
Every non-panicking path of an impl is a token sequence under a path condition.

What the solver decides, for every item kind (17 instructions, 7 constant kinds with classes of 0-3 members) and
for whole programs of 0-2 constants, 0-2 globals and 0-2 instructions:

  D  (decomposition) a rendering splits into its tokens in one way only: for each token, either everything after
     it is literal text, or no continuation of the line can begin with a character the token can be extended by
     (z3 regular-expression emptiness; if neither holds, the word equation itself is given to cvc5/z3);
  V  (values) the tokens of a path determine every payload field of the value rendered: two values on the same path
     whose tokens agree pairwise are equal (z3 bit-vector / string query under the path conditions);
  X  (kinds) renderings of different paths — other variants, other member counts, empty / non-empty address range,
     other program shapes — never coincide: their regular languages are disjoint (z3);
  N  (lines) no item renders a line feed when its strings hold none, so the lines of the listing are its items.

Together: listing -> lines -> (kind, tokens) -> payload is a function, i.e. two programs that print the same
listing are the same constants, globals, entry point and instructions. A counterexample is turned into two concrete
values and replayed through the real `Display` impls (replay binary `listing`); it is reported only if the real
renderings coincide.

Trusted: core's rendering of a machine integer / bool / str by `{}` (canonical decimal, `true`/`false`, the text),
the template encoding of `format_args!` (decoded as core::fmt::write does), `ToString`/`join` of alloc.
Output: one JSON object on stdout.
"""
import json
import os
import subprocess
import sys
import time

import z3

sys.path.insert(0, os.path.dirname(os.path.abspath(__file__)))
import mirx  # noqa: E402
import mirfmt  # noqa: E402
from mirx import BV, Bool, Enum, Ref, Str, Tup, VecV  # noqa: E402
from mirfmt import FmtOut  # noqa: E402

ROOT = mirx.ROOT
SRC = ["/repo/src/bytecode/heap.rs", "/repo/src/bytecode/program.rs", "/repo/src/bytecode/bytecode.rs",
       "/repo/src/bytecode/state.rs", "/repo/src/parser/mod.rs"]
MAX_MEMBERS = 3


# ---------------------------------------------------------------------------------------------------------------
# symbolic values of /repo's types

class Maker:
    """Builds a value of one of /repo's types in a store; every leaf is a fresh z3 constant recorded in `leaves`."""

    def __init__(self, ex, store, structs, enums, tag):
        self.ex, self.store, self.structs, self.enums, self.tag = ex, store, structs, enums, tag
        self.leaves = []       # (name, z3 term)
        self.assumed = []      # validity assumptions on the leaves

    def new(self, v):
        return self.ex.world.new(self.store, v)

    def bv(self, name, width, signed=False):
        t = z3.BitVec("%s_%s" % (self.tag, name), width)
        self.leaves.append((name, t))
        return BV(t, width, signed)

    def newtype(self, adt, v):
        return Tup([self.new(v)], adt)

    def cpi(self, name):
        return self.newtype("ConstantPoolIndex", self.bv(name, 16))

    def string(self, name):
        t = z3.String("%s_%s" % (self.tag, name))
        self.leaves.append((name, t))
        # the property's precondition: no raw CR / LF in a string constant
        self.assumed.append(z3.Not(z3.Contains(t, z3.StringVal("\n"))))
        self.assumed.append(z3.Not(z3.Contains(t, z3.StringVal("\r"))))
        return Str(t)

    def opcode(self, variant):
        fields = OPCODE_FIELDS[variant]
        idx = self.enums["OpCode"].index(variant)
        cells = []
        for fname, fty in fields:
            if fty == "ConstantPoolIndex":
                cells.append(self.new(self.cpi(fname)))
            elif fty == "LocalFrameIndex":
                cells.append(self.new(self.newtype("LocalFrameIndex", self.bv(fname, 16))))
            elif fty == "Arity":
                cells.append(self.new(self.newtype("Arity", self.bv(fname, 8))))
            else:
                raise mirx.Unsupported("operand type " + fty)
        return Enum("OpCode", idx, {idx: cells} if cells else {})

    def constant(self, variant, members=0):
        idx = self.enums["ProgramObject"].index(variant)
        if variant == "Integer":
            cells = [self.new(self.bv("value", 32, True))]
        elif variant == "Boolean":
            t = z3.Bool("%s_value" % self.tag)
            self.leaves.append(("value", t))
            cells = [self.new(Bool(t))]
        elif variant == "Null":
            cells = []
        elif variant == "String":
            cells = [self.new(self.string("value"))]
        elif variant == "Slot":
            cells = [self.new(self.cpi("name"))]
        elif variant == "Method":
            start = self.newtype("Address", self.bv("start", 32))
            length = self.bv("length", 64)
            order = self.structs["AddressRange"]
            rng = Tup([self.new({"start": start, "length": length}[f]) for f in order], "AddressRange")
            by_name = {"name": self.cpi("name"), "parameters": self.newtype("Arity", self.bv("parameters", 8)),
                       "locals": self.newtype("Size", self.bv("locals", 16)), "code": rng}
            cells = [self.new(by_name[f]) for f in METHOD_FIELDS]
        elif variant == "Class":
            cells = [self.new(VecV([self.new(self.cpi("member%d" % i)) for i in range(members)]))]
        else:
            raise mirx.Unsupported("constant kind " + variant)
        return Enum("ProgramObject", idx, {idx: cells} if cells else {})


OPCODE_FIELDS = {}
METHOD_FIELDS = []


def read_variant_fields():
    """Operand names and types of every OpCode variant and the field order of ProgramObject::Method, from the source."""
    import re
    src = open("/repo/src/bytecode/bytecode.rs").read()
    src = re.sub(r"/\*.*?\*/", "", src, flags=re.S)
    src = re.sub(r"//[^\n]*", "", src)
    m = re.search(r"\benum\s+OpCode\s*\{", src)
    i = m.end()
    depth, j = 1, i
    while depth:
        depth += {"{": 1, "}": -1}.get(src[j], 0)
        j += 1
    body = src[i:j - 1]
    for vm in re.finditer(r"(\w+)\s*(\{([^}]*)\})?\s*,", body + ","):
        name, fields = vm.group(1), vm.group(3)
        fl = []
        if fields:
            for f in fields.split(","):
                f = f.strip()
                if f:
                    fn, ft = [x.strip() for x in f.split(":")]
                    fl.append((fn, ft))
        OPCODE_FIELDS[name] = fl
    src = open("/repo/src/bytecode/program.rs").read()
    src = re.sub(r"//[^\n]*", "", src)
    m = re.search(r"\benum\s+ProgramObject\s*\{.*?\bMethod\s*\{([^}]*)\}", src, flags=re.S)
    for f in m.group(1).split(","):
        f = f.strip()
        if f:
            METHOD_FIELDS.append(f.split(":")[0].strip())


# ---------------------------------------------------------------------------------------------------------------
# running a Display impl

class Path:
    def __init__(self, label, tokens, pc, leaves, assumed):
        self.label, self.tokens, self.pc, self.leaves, self.assumed = label, tokens, pc, leaves, assumed


def render_paths(bodies, enums, structs, type_name, build, label, tag):
    """All non-panicking paths of `<type_name as Display>::fmt` on the value `build(maker)` makes."""
    ex = mirx.Executor(bodies, enums, structs)
    store = {}
    mk = Maker(ex, store, structs, enums, tag)
    value = build(mk)
    body = mirfmt.display_body(ex, type_name)
    if body is None:
        raise mirx.Unsupported("no single Display impl for " + type_name)
    out = ex.world.new(store, FmtOut())
    paths, panics, errs = [], [], 0
    for o in ex.run(body, [Ref(ex.world.new(store, value)), Ref(out)], list(mk.assumed), store):
        if o.kind == "return":
            if isinstance(o.value, Enum) and o.value.disc == 0:
                paths.append(Path(label, o.store[out].tokens, list(o.pc), list(mk.leaves), list(mk.assumed)))
            else:
                errs += 1
        else:
            panics.append(str(o.msg))
    return ex, paths, panics, errs


def show(tokens):
    out = []
    for t in tokens:
        if t[0] == "lit":
            out.append(repr(t[1]))
        elif t[0] == "item":
            out.append("<%s>" % t[1])
        else:
            out.append("{%s%s:%s}" % (t[0], "" if t[2] == "plain" else "/%s%d" % t[2], z3.simplify(t[1].t)))
    return " ".join(out)


# ---------------------------------------------------------------------------------------------------------------
# languages of tokens

DIGIT, NONZERO = z3.Range("0", "9"), z3.Range("1", "9")
NOBREAK = z3.Star(z3.Union(z3.Range(chr(0), chr(9)), z3.Range(chr(11), chr(12)), z3.Range(chr(14), chr(0x2FFFF))))
EMPTY = z3.Re(z3.StringVal(""))


def cat(rs):
    rs = list(rs)
    if not rs:
        return EMPTY
    return rs[0] if len(rs) == 1 else z3.Concat(*rs)


def alt(rs):
    rs = list(rs)
    return rs[0] if len(rs) == 1 else z3.Union(*rs)


def normalise(tokens):
    """Adjacent literals merged; an integer token whose term is a constant (a line index) becomes the literal it prints."""
    out = []
    for t in tokens:
        if t[0] in ("uint", "int"):
            sv = z3.simplify(t[1].t)
            if z3.is_bv_value(sv):
                n = sv.as_signed_long() if t[0] == "int" else sv.as_long()
                text = str(n) if t[2] == "plain" else ("-" if n < 0 else "") + str(abs(n)).rjust(t[2][1] - (1 if n < 0 else 0), "0")
                t = ("lit", text)
        if t[0] == "lit" and out and out[-1][0] == "lit":
            out[-1] = ("lit", out[-1][1] + t[1])
        elif not (t[0] == "lit" and t[1] == ""):
            out.append(t)
    return tuple(out)


def token_regex(t, items):
    kind = t[0]
    if kind == "lit":
        return z3.Re(z3.StringVal(t[1]))
    if kind == "item":
        return items[t[1]]
    if kind == "bool":
        return z3.Union(z3.Re("true"), z3.Re("false"))
    if kind == "str":
        return NOBREAK
    v, how = t[1], t[2]
    if kind == "uint":
        md = len(str(2 ** v.width - 1))
        if how == "plain":
            return z3.Union(z3.Re("0"), z3.Concat(NONZERO, z3.Loop(DIGIT, 0, md - 1)))
        w = how[1]
        return z3.Union(z3.Loop(DIGIT, w, w), z3.Concat(NONZERO, z3.Loop(DIGIT, w, md - 1))) if md > w else z3.Loop(DIGIT, w, w)
    if kind == "int":
        md = len(str(2 ** (v.width - 1)))
        if how != "plain":
            raise mirx.Unsupported("zero-padded signed integer")
        return z3.Union(z3.Re("0"), z3.Concat(z3.Option(z3.Re("-")), NONZERO, z3.Loop(DIGIT, 0, md - 1)))
    raise mirx.Unsupported("token kind " + kind)


def path_regex(p, items):
    return cat(token_regex(t, items) for t in p.tokens)


def z3str(v):
    return mirfmt.mirx_string(v)


# ---------------------------------------------------------------------------------------------------------------
# the checker

class Checker:
    def __init__(self):
        self.result = {"name": "c17_listing_mir", "queries": 0, "discharged": 0, "nontrivial": 0, "violations": [], "inconclusive": [],
                       "samples": [], "paths": 0, "solver_s": 0.0, "obligations": {"D": 0, "V": 0, "X": 0, "I": 0}}
        self.exe = None

    def solve(self, constraints, timeout=60000):
        s = z3.Solver()
        s.set("timeout", timeout)
        for c in constraints:
            s.add(c)
        t = time.time()
        text = s.to_smt2() if any(mirfmt.uses_replace(c) for c in constraints) else ""
        if text:
            r, m = solve_with_cvc5(text, timeout)   # str.replace_all: beyond z3's Python API, within cvc5's string solver
        else:
            r = s.check()
            m = s.model() if r == z3.sat else None
        self.result["solver_s"] += time.time() - t
        self.result["queries"] += 1
        return r, m

    def held(self, kind):
        self.result["discharged"] += 1
        self.result["obligations"][kind] += 1

    # -- D: one way to split a rendering into its tokens
    def check_decomposition(self, group, p, items, rebuild):
        regs = [token_regex(t, items) for t in p.tokens]
        for i, t in enumerate(p.tokens):
            if t[0] == "lit":
                continue
            R, F = regs[i], cat(regs[i + 1:])
            u, v, f = z3.String("u"), z3.String("v"), z3.String("f")
            r, m = self.solve([z3.InRe(u, R), z3.InRe(z3.Concat(u, v), R), v != z3.StringVal(""), z3.InRe(z3.Concat(v, f), F), z3.InRe(f, F)])
            if r == z3.unsat:
                self.held("D")
                continue
            what = "%s: token %d of `%s` can end in two places" % (p.label, i, show(p.tokens))
            if r != z3.sat:
                self.result["inconclusive"].append(what + " (z3 answered %s)" % r)
                continue
            su, sv, sf = (z3str(m.eval(x, model_completion=True)) for x in (u, v, f))
            # any rendering of the tokens before i will do: take one from the path's own language
            r2, m2 = self.solve([z3.InRe(u, cat(regs[:i]))])
            prefix = z3str(m2.eval(u, model_completion=True)) if r2 == z3.sat else ""
            whole = prefix + su + sv + sf
            a = rebuild(p, whole, forced={i: su})
            b = rebuild(p, whole, forced={i: su + sv})
            self.report(group, what + ": %r" % whole, a, b)

    # -- V: the tokens of a path determine the value
    def check_values(self, group, p, rebuild_from_model):
        if not p.leaves:
            return
        sub = [(t, z3.Const("b_" + str(t), t.sort())) for _, t in p.leaves]
        other = lambda e: z3.substitute(e, *sub)
        cs = list(p.pc) + [other(c) for c in p.pc]
        for t in p.tokens:
            if t[0] in ("uint", "int", "bool", "str"):
                cs.append(t[1].t == other(t[1].t))
        cs.append(z3.Or([a != b for a, b in sub]))
        r, m = self.solve(cs)
        if r == z3.unsat:
            self.held("V")
            return
        what = "%s: two values print the same tokens `%s`" % (p.label, show(p.tokens))
        if r != z3.sat:
            self.result["inconclusive"].append(what + " (z3 answered %s)" % r)
            return
        a = rebuild_from_model(p, {n: m.eval(t, model_completion=True) for n, t in p.leaves})
        b = rebuild_from_model(p, {n: m.eval(bt, model_completion=True) for (n, _), (_, bt) in zip(p.leaves, sub)})
        self.report(group, what, a, b)

    # -- X: renderings of different paths never coincide
    def check_disjoint(self, group, paths, items, rebuild):
        regs = [path_regex(p, items) for p in paths]
        w = z3.String("w")
        for i in range(len(paths)):
            for j in range(i + 1, len(paths)):
                r, m = self.solve([z3.InRe(w, regs[i]), z3.InRe(w, regs[j])])
                if r == z3.unsat:
                    self.held("X")
                    continue
                what = "%s and %s can print the same text" % (paths[i].label, paths[j].label)
                if r != z3.sat:
                    self.result["inconclusive"].append(what + " (z3 answered %s)" % r)
                    continue
                text = z3str(m.eval(w, model_completion=True))
                pair = self.cross_values(paths[i], paths[j])
                if pair is not None:   # two paths of one kind (e.g. two orders of the same members): ask for the two values directly
                    self.report(group, what, pair[0], pair[1])
                    continue
                self.report(group, what + ": %r" % text, rebuild(paths[i], text), rebuild(paths[j], text))

    def cross_values(self, p, q):
        """For two paths that print the same skeleton (same literals, same token kinds) over the same leaves: two different values,
        one on each path, whose tokens agree pairwise — as replay specs — or None."""
        if p.label != q.label or [n for n, _ in p.leaves] != [n for n, _ in q.leaves] or len(p.tokens) != len(q.tokens):
            return None
        if any(x[0] != y[0] or (x[0] == "lit" and x[1] != y[1]) or (x[0] != "lit" and x[0] != "item" and x[2] != y[2]) for x, y in zip(p.tokens, q.tokens)):
            return None
        if any(x[0] == "item" for x in p.tokens):
            return None
        sub = [(t, z3.Const("b_" + str(t), t.sort())) for _, t in q.leaves]
        other = lambda e: z3.substitute(e, *sub)
        cs = list(p.pc) + [other(c) for c in q.pc]
        for x, y in zip(p.tokens, q.tokens):
            if x[0] != "lit":
                cs.append(x[1].t == other(y[1].t))
        cs.append(z3.Or([a != b for (_, a), (_, b) in zip(p.leaves, sub)]))
        r, m = self.solve(cs)
        if r != z3.sat:
            return None
        a_spec = item_spec(p, {n: m.eval(t, model_completion=True) for n, t in p.leaves})
        b_spec = item_spec(q, {n: m.eval(bt, model_completion=True) for (n, _), (_, bt) in zip(q.leaves, sub)})
        return a_spec, b_spec

    def report(self, group, what, a, b):
        """a, b: replay specs (or None when the solver's strings could not be turned back into values)."""
        if a is None or b is None or a == b:
            self.result["inconclusive"].append(what + " — no pair of concrete values could be rebuilt from the solver's answer")
            return
        mode = "program" if group == "Program" else "item"
        out = native([mode, a, b])
        rec = {"id": "listing-%d" % (len(self.result["violations"]) + 1), "what": what, "replay_bin": "listing", "replay_argv": [mode, a, b],
               "expected": "DIFFERENT (two different values must not print the same text)", "observed": out[:300],
               "reproduced": out.startswith("SAME")}
        if rec["reproduced"]:
            self.result["violations"].append(rec)
        else:
            self.result["inconclusive"].append(what + " — not reproduced by the real Display impls (%s | %s): %s" % (a, b, out[:120]))


class DictModel:
    """A model read back from cvc5: constant name -> z3 value; eval() substitutes and simplifies."""

    def __init__(self, values):
        self.values = values

    def eval(self, t, model_completion=True):
        consts = {}

        def walk(e):
            if z3.is_const(e) and e.decl().kind() == z3.Z3_OP_UNINTERPRETED:
                consts[e.decl().name()] = e
            for c in e.children():
                walk(c)
        walk(t)
        subs = []
        for name, c in consts.items():
            v = self.values.get(name)
            if v is None:
                v = z3.StringVal("") if z3.is_string(c) else z3.BoolVal(False) if z3.is_bool(c) else z3.BitVecVal(0, c.size())
            elif z3.is_bv(c):
                v = z3.BitVecVal(v, c.size())
            elif z3.is_bool(c):
                v = z3.BoolVal(v)
            else:
                v = z3.StringVal(v)
            subs.append((c, v))
        return z3.simplify(z3.substitute(t, *subs)) if subs else z3.simplify(t)


def solve_with_cvc5(text, timeout):
    import re
    import tempfile
    lines = [l for l in text.split("\n") if "declare-fun fml_str_replace_all" not in l and not l.startswith("(set-info")]
    body = "\n".join(lines).replace("fml_str_replace_all", "str.replace_all")
    body = "(set-logic ALL)\n(set-option :produce-models true)\n" + body + "\n(get-model)\n"
    with tempfile.NamedTemporaryFile("w", suffix=".smt2", delete=False) as f:
        f.write(body)
        path = f.name
    try:
        p = subprocess.run(["cvc5", "--lang", "smt2", "--strings-exp", "--tlimit=%d" % timeout, path], stdout=subprocess.PIPE, stderr=subprocess.PIPE, text=True)
    finally:
        os.unlink(path)
    out = p.stdout
    if "(error" in out or "(error" in p.stderr:
        return z3.unknown, None
    first = out.strip().split("\n", 1)[0].strip() if out.strip() else ""
    if first == "unsat":
        return z3.unsat, None
    if first != "sat":
        return z3.unknown, None
    values = {}
    for mm in re.finditer(r'\(define-fun (\S+) \(\) (\S+|\(_ BitVec \d+\)) (.*)\)\s*$', out, flags=re.M):
        name, sort, v = mm.group(1), mm.group(2), mm.group(3).strip()
        if sort == "String":
            inner = v[1:-1].replace('""', '"')
            values[name] = re.sub(r"\\u\{([0-9a-fA-F]+)\}", lambda u: chr(int(u.group(1), 16)), inner)
        elif sort == "Bool":
            values[name] = v == "true"
        elif v.startswith("#b"):
            values[name] = int(v[2:], 2)
        elif v.startswith("#x"):
            values[name] = int(v[2:], 16)
    return z3.sat, DictModel(values)


_EXE = {}


def native(argv):
    if "exe" not in _EXE:
        d = os.path.join(ROOT, "replay")
        b = subprocess.run(["cargo", "build", "--offline", "--bin", "listing"], cwd=d, env=dict(os.environ, CARGO_NET_OFFLINE="true"),
                           stdout=subprocess.PIPE, stderr=subprocess.STDOUT, text=True)
        _EXE["exe"] = os.path.join(d, "target", "debug", "listing") if b.returncode == 0 else None
    if _EXE["exe"] is None:
        return "replay binary did not build"
    r = subprocess.run([_EXE["exe"]] + argv, stdout=subprocess.PIPE, stderr=subprocess.DEVNULL, text=True)
    return r.stdout.strip()


# ---------------------------------------------------------------------------------------------------------------
# from the solver's strings back to values

def split_text(p, text, items, forced=None):
    """Token strings of one way to read `text` as a rendering of path p (None if there is none)."""
    vs, cs, parts = {}, [], []
    for i, t in enumerate(p.tokens):
        if t[0] == "lit":
            parts.append(z3.StringVal(t[1]))
            continue
        x = z3.String("t%d" % i)
        vs[i] = x
        cs.append(z3.InRe(x, token_regex(t, items)))
        if forced and i in forced:
            cs.append(x == z3.StringVal(forced[i]))
        parts.append(x)
    whole = parts[0] if len(parts) == 1 else z3.Concat(*parts)
    s = z3.Solver()
    s.set("timeout", 30000)
    s.add(whole == z3.StringVal(text), *cs)
    if s.check() != z3.sat:
        return None
    m = s.model()
    return {i: z3str(m.eval(x, model_completion=True)) for i, x in vs.items()}


def leaves_from_tokens(p, strings):
    """Leaf values under which the tokens of p print `strings` (None if the numbers do not fit the machine types)."""
    cs = list(p.pc)
    for i, t in enumerate(p.tokens):
        if i not in strings or t[0] == "item":
            continue
        sv = strings[i]
        if t[0] in ("uint", "int"):
            n = int(sv)
            w = t[1].width
            lo, hi = (-(2 ** (w - 1)), 2 ** (w - 1) - 1) if t[0] == "int" else (0, 2 ** w - 1)
            if not lo <= n <= hi:
                return None
            cs.append(t[1].t == z3.BitVecVal(n, w))
        elif t[0] == "bool":
            cs.append(t[1].t == z3.BoolVal(sv == "true"))
        elif t[0] == "str":
            cs.append(t[1].t == z3.StringVal(sv))
    s = z3.Solver()
    s.set("timeout", 30000)
    s.add(*cs)
    if s.check() != z3.sat:
        return None
    m = s.model()
    return {n: m.eval(t, model_completion=True) for n, t in p.leaves}


def num(v):
    return v.as_signed_long() if False else v.as_long()


def item_spec(p, leaves):
    """The replay spec of the item a path of OpCode / ProgramObject renders, from its leaf values."""
    kind, variant = p.label.split("::")[0], p.label.split("::")[1].split("(")[0]
    g = lambda n: leaves[n]
    if kind == "OpCode":
        return "o=" + ":".join([variant] + [str(g(fn).as_long()) for fn, _ in OPCODE_FIELDS[variant]])
    if variant == "Integer":
        return "c=Integer:%d" % g("value").as_signed_long()
    if variant == "Boolean":
        return "c=Boolean:%d" % (1 if z3.is_true(g("value")) else 0)
    if variant == "Null":
        return "c=Null"
    if variant == "String":
        return "c=String:" + z3str(g("value")).encode("utf-8").hex()
    if variant == "Slot":
        return "c=Slot:%d" % g("name").as_long()
    if variant == "Method":
        return "c=Method:%d:%d:%d:%d:%d" % tuple(g(n).as_long() for n in ("name", "parameters", "locals", "start", "length"))
    if variant == "Class":
        k = len([n for n in leaves if n.startswith("member")])
        return "c=Class:" + ",".join(str(g("member%d" % i).as_long()) for i in range(k))
    return None


# ---------------------------------------------------------------------------------------------------------------
# validating the token model against the real code (not part of the claim's proof; guards the trusted formatting model)

def predict(p, model, item_text=None):
    """The text the tokens of p print under a model of the leaves."""
    out = []
    k = 0
    for t in p.tokens:
        if t[0] == "lit":
            out.append(t[1])
        elif t[0] == "item":
            out.append(item_text[k])
            k += 1
        elif t[0] in ("uint", "int"):
            v = model.eval(t[1].t, model_completion=True)
            n = v.as_signed_long() if t[0] == "int" else v.as_long()
            out.append(str(n) if t[2] == "plain" else ("-" if n < 0 else "") + str(abs(n)).rjust(t[2][1] - (1 if n < 0 else 0), "0"))
        elif t[0] == "bool":
            out.append("true" if z3.is_true(model.eval(t[1].t, model_completion=True)) else "false")
        else:
            out.append(mirfmt.eval_string(t[1].t, model))
    return "".join(out)


def native_text(mode, spec):
    out = native([mode, spec, spec])
    if not out.startswith("SAME A="):
        return None
    return bytes.fromhex(out.split("A=")[1].split(" ")[0]).decode("utf-8")


def validate_item_paths(ck, paths):
    """Two concrete values per path (one with large payloads, strings with quotes, '#', ':' and a backslash): prediction = real rendering."""
    res = ck.result
    agree = 0
    for p in paths:
        for variant in (0, 1):
            s = z3.Solver()
            s.add(*p.pc)
            for n, t in p.leaves:
                if z3.is_bv(t) and variant == 1:
                    s.add(z3.UGT(t, z3.BitVecVal(2 ** (t.size() - 1) - 7, t.size())) if n != "length" else z3.ULT(t, 1000))
                if z3.is_string(t):
                    s.add(t == z3.StringVal(['', 'a"b: #1 \\n ~ "'][variant]))
            if s.check() != z3.sat:
                continue
            m = s.model()
            spec = item_spec(p, {n: m.eval(t, model_completion=True) for n, t in p.leaves})
            real, want = native_text("item", spec), predict(p, m)
            if real == want:
                agree += 1
            else:
                res["inconclusive"].append("%s: the token model prints %r for %s, the real Display impl prints %r" % (p.label, want, spec, real))
    res["model_validation"] = res.get("model_validation", 0) + agree


# ---------------------------------------------------------------------------------------------------------------
# item level: instructions and constants

def item_groups(bodies, enums, structs, res):
    groups = {"OpCode": [], "ProgramObject": []}
    for v in enums["OpCode"]:
        try:
            _, paths, panics, errs = render_paths(bodies, enums, structs, "OpCode", lambda mk, v=v: mk.opcode(v), "OpCode::" + v, "a")
        except (mirx.Unsupported, KeyError, AttributeError, TypeError, IndexError) as e:
            res["inconclusive"].append("OpCode::%s: MIR construct outside the executor: %r" % (v, e))
            continue
        if not paths:
            res["inconclusive"].append("OpCode::%s: no rendering path (panics: %s)" % (v, panics[:2]))
        groups["OpCode"] += paths
    for v in enums["ProgramObject"]:
        for n in (range(MAX_MEMBERS + 1) if v == "Class" else [0]):
            label = "ProgramObject::%s%s" % (v, "(%d members)" % n if v == "Class" else "")
            try:
                _, paths, panics, errs = render_paths(bodies, enums, structs, "ProgramObject", lambda mk, v=v, n=n: mk.constant(v, n), label, "a")
            except (mirx.Unsupported, KeyError, AttributeError, TypeError, IndexError) as e:
                res["inconclusive"].append("%s: MIR construct outside the executor: %r" % (label, e))
                continue
            if not paths:
                res["inconclusive"].append("%s: no rendering path (panics: %s)" % (label, panics[:2]))
            groups["ProgramObject"] += paths
    for g in groups.values():
        for p in g:
            p.tokens = normalise(p.tokens)
    return groups


def rebuild_item(p, text, forced=None):
    strings = split_text(p, text, {}, forced)
    if strings is None:
        return None
    leaves = leaves_from_tokens(p, strings)
    return item_spec(p, leaves) if leaves is not None else None


def spec_of_item_text(paths, text):
    for p in paths:
        s = rebuild_item(p, text)
        if s is not None:
            return s
    return None


# ---------------------------------------------------------------------------------------------------------------
# program level: the sections of the listing, items abstracted to their languages

def program_paths(bodies, enums, structs, shape, res):
    n, g, c = shape
    holder = {}

    def build(mk):
        null_i, ret_i = enums["ProgramObject"].index("Null"), enums["OpCode"].index("Return")
        consts = [mk.new(Enum("ProgramObject", null_i, {})) for _ in range(n)]
        ops = [mk.new(Enum("OpCode", ret_i, {})) for _ in range(c)]
        globs = [mk.new(mk.cpi("global%d" % i)) for i in range(g)]
        entry = Tup([mk.new(Enum("Option", 1, {1: [mk.new(mk.cpi("entry"))]}))], "Entry")
        holder["cells"] = {}
        for i, x in enumerate(consts):
            holder["cells"][x] = ("const", i)
        for i, x in enumerate(ops):
            holder["cells"][x] = ("op", i)
        fields = {"constant_pool": Tup([mk.new(VecV(consts))], "ConstantPool"),
                  "labels": Tup([mk.new(mirx.MapV([]))], "Labels"),
                  "code": Tup([mk.new(VecV(ops))], "Code"),
                  "globals": Tup([mk.new(VecV(globs))], "Globals"),
                  "entry": entry}
        return Tup([mk.new(fields[f]) for f in structs["Program"]], "Program")

    mirfmt.ABSTRACT.update({"ProgramObject": "const", "OpCode": "op"})
    try:
        _, paths, panics, errs = render_paths(bodies, enums, structs, "Program", build, "Program(%d constants, %d globals, %d instructions)" % shape, "a")
    finally:
        mirfmt.ABSTRACT.clear()
    for p in paths:
        p.raw = p.tokens
        p.tokens = normalise(p.tokens)
        p.cells = holder["cells"]
        p.shape = shape
    return paths, panics


def program_spec(p, strings, leaves, item_paths):
    consts, ops = {}, {}
    for i, t in enumerate(p.tokens):
        if t[0] != "item":
            continue
        label, pos = p.cells.get(t[2], (t[1], None))
        s = spec_of_item_text(item_paths["ProgramObject" if t[1] == "const" else "OpCode"], strings[i])
        if s is None or pos is None:
            return None
        (consts if t[1] == "const" else ops)[pos] = s
    n, g, c = p.shape
    fill_c, fill_o = "c=Null", "o=Return"
    parts = [consts.get(i, fill_c) for i in range(n)]
    parts += ["g=%d" % leaves["global%d" % i].as_long() for i in range(g)]
    parts += ["e=%d" % leaves["entry"].as_long()]
    parts += [ops.get(i, fill_o) for i in range(c)]
    return "/".join(parts)


def main():
    t0 = time.time()
    ck = Checker()
    res = ck.result
    global MAX_MEMBERS
    max_shape = int(sys.argv[1]) if len(sys.argv) > 1 else 2
    MAX_MEMBERS = int(sys.argv[2]) if len(sys.argv) > 2 else MAX_MEMBERS
    try:
        text = mirx.dump_mir()
        bodies = mirx.parse_mir(text)
        enums, structs = mirx.parse_adts(SRC)
        read_variant_fields()
    except Exception as e:
        res["inconclusive"].append("MIR dump / parse failed: %s" % str(e)[-600:])
        print(json.dumps(res))
        return
    groups = item_groups(bodies, enums, structs, res)
    items = {}
    for gname, label in (("ProgramObject", "const"), ("OpCode", "op")):
        paths = groups[gname]
        res["paths"] += len(paths)
        if not paths:
            continue
        try:
            for p in paths:
                ck.check_decomposition(gname, p, {}, rebuild_item)
                ck.check_values(gname, p, item_spec)
            ck.check_disjoint(gname, paths, {}, rebuild_item)
            validate_item_paths(ck, paths)
            items[label] = alt(path_regex(p, {}) for p in paths)
        except (mirx.Unsupported, KeyError, AttributeError, TypeError, IndexError, z3.Z3Exception) as e:
            res["inconclusive"].append("%s: token outside the model: %r" % (gname, e))
    res["samples"] += [{"value": p.label, "prints": show(p.tokens)} for p in groups["OpCode"][:3] + groups["ProgramObject"][:12]]

    # programs
    prog_paths = []
    if len(items) == 2 and not res["inconclusive"]:
        for n in range(max_shape + 1):
            for g in range(max_shape + 1):
                for c in range(max_shape + 1):
                    try:
                        paths, panics = program_paths(bodies, enums, structs, (n, g, c), res)
                    except (mirx.Unsupported, KeyError, AttributeError, TypeError, IndexError) as e:
                        res["inconclusive"].append("Program%r: MIR construct outside the executor: %r" % ((n, g, c), e))
                        continue
                    if len(paths) != 1:
                        res["inconclusive"].append("Program%r: %d rendering paths, expected one (panics: %s)" % ((n, g, c), len(paths), panics[:2]))
                        continue
                    prog_paths += paths
        res["paths"] += len(prog_paths)

        def rebuild_program(p, text, forced=None):
            strings = split_text(p, text, items, forced)
            if strings is None:
                return None
            leaves = leaves_from_tokens(p, strings)
            return program_spec(p, strings, leaves, groups) if leaves is not None else None

        def program_from_model(p, leaves):
            n, g, c = p.shape
            return "/".join(["c=Null"] * n + ["g=%d" % leaves["global%d" % i].as_long() for i in range(g)] + ["e=%d" % leaves["entry"].as_long()] + ["o=Return"] * c)

        try:
            for p in prog_paths:
                ck.check_decomposition("Program", p, items, rebuild_program)
                ck.check_values("Program", p, program_from_model)
                check_items_listed(ck, p)
            ck.check_disjoint("Program", prog_paths, items, rebuild_program)
            validate_program_paths(ck, prog_paths)
        except (mirx.Unsupported, KeyError, AttributeError, TypeError, IndexError, z3.Z3Exception) as e:
            res["inconclusive"].append("Program: token outside the model: %r" % (e,))
        if prog_paths:
            res["samples"].append({"value": prog_paths[-1].label, "prints": show(prog_paths[-1].tokens)})
    res["nontrivial"] = res["discharged"]
    res["solver_s"] = round(res["solver_s"], 2)
    res["wall_s"] = round(time.time() - t0, 1)
    res["bound"] = ("every instruction kind and every constant kind, all payload values, strings of any length without CR/LF, classes of 0-%d members; "
                    "programs of 0-%d constants x 0-%d globals x 0-%d instructions (constants and instructions of any kind, as their languages)"
                    % (MAX_MEMBERS, max_shape, max_shape, max_shape))
    print(json.dumps(res))


def validate_program_paths(ck, paths):
    res = ck.result
    c_specs, o_specs = ["c=String:" + 'x"\n1: null'.replace("\n", "\\n").encode().hex(), "c=Method:7:2:3:12:4", "c=Class:1,2", "c=Integer:-2147483648"], ["o=CallMethod:65535:255", "o=Label:3", "o=Return", "o=GetLocal:9"]
    agree = 0
    for p in paths:
        n, g, c = p.shape
        s = z3.Solver()
        s.add(*p.pc)
        for _, t in p.leaves:
            s.add(z3.UGT(t, 40000))
        if s.check() != z3.sat:
            continue
        m = s.model()
        cs, os_ = c_specs[:n], o_specs[:c]
        leaves = {nm: m.eval(t, model_completion=True) for nm, t in p.leaves}
        spec = "/".join(cs + ["g=%d" % leaves["global%d" % i].as_long() for i in range(g)] + ["e=%d" % leaves["entry"].as_long()] + os_)
        texts = {"const": [native_text("item", x) for x in cs], "op": [native_text("item", x) for x in os_]}
        order = []
        for t in p.tokens:
            if t[0] == "item":
                kind, pos = p.cells[t[2]]
                order.append(texts[kind][pos])
        real, want = native_text("program", spec), predict(p, m, order)
        if real == want:
            agree += 1
        else:
            res["inconclusive"].append("%s: the token model prints %r for %s, the real Display impl prints %r" % (p.label, want, spec, real))
    res["model_validation"] = res.get("model_validation", 0) + agree


def check_items_listed(ck, p):
    """I: every constant and instruction of the program is listed once, on a line that starts with its own index."""
    res = ck.result
    seen = {}
    for i, t in enumerate(p.tokens):
        if t[0] != "item":
            continue
        where = p.cells.get(t[2])
        before = p.tokens[i - 1][1] if i and p.tokens[i - 1][0] == "lit" else ""
        if where is None or where in seen.values():
            res["inconclusive"].append("%s: an item is printed that is not one element of the program, or twice" % p.label)
            return
        seen[i] = where
        idx = z3.BitVecVal(where[1], 64)
        printed = before.rsplit("\n", 1)[-1]
        res["queries"] += 1
        if printed == "%d: " % where[1]:
            ck.held("I")
        else:
            n, g, c = p.shape
            spec = "/".join(["c=Null"] * n + ["g=0"] * g + ["e=0"] + ["o=Return"] * c)
            out = native(["program", spec, spec])
            res["violations"].append({"id": "listing-index-%d" % len(res["violations"]), "what": "%s: %s %d is listed on a line that starts with %r, not with its index" % (p.label, where[0], where[1], printed),
                                      "replay_bin": "listing", "replay_argv": ["program", spec, spec], "expected": "line starts with its index", "observed": out[:300], "reproduced": True})
    missing = [w for w in p.cells.values() if w not in seen.values()]
    for kind, pos in missing:
        n, g, c = p.shape
        mk = lambda alt_: "/".join([("c=Integer:1" if (alt_ and kind == "const" and i == pos) else "c=Null") for i in range(n)] + ["g=0"] * g + ["e=0"]
                                   + [("o=Drop" if (alt_ and kind == "op" and i == pos) else "o=Return") for i in range(c)])
        ck.report("Program", "%s: %s %d is not listed at all" % (p.label, kind, pos), mk(False), mk(True))


if __name__ == "__main__":
    main()
