"""A small symbolic executor for the MIR of loop-free kernels of kondziu/FML, with z3 as the decision procedure.

The MIR is dumped from /repo's current sources on every run (`cargo +nightly rustc -- -Zunpretty=mir` on the
include-only crate /verif/mir). Functions defined in the dump are executed from their own MIR (calls are
inlined); functions of core/alloc that the kernels call are modelled from their documented semantics — the list
is MODELS below and is part of the trusted base. Anything else is an *opaque* value; a path whose outcome depends
on an opaque value makes the run inconclusive, never a pass.

Values: bit-vectors (machine integers wrap), z3 Booleans, z3 strings (`&str`, any length, any content),
enum / tuple / struct trees of cells, references to cells. Paths are enumerated depth-first with z3 pruning
infeasible branches; there is no merging and no loop support (a back edge is an error).
"""
import os
import re
import subprocess
import sys
import time

import z3

ROOT = os.path.dirname(os.path.dirname(os.path.abspath(__file__)))
MIR_CRATE = os.path.join(ROOT, "mir")


# ---------------------------------------------------------------------------------------------------------------
# dumping and parsing

def dump_mir(out_path=None):
    """Returns the MIR text of /repo's parser and bytecode modules as they are now."""
    lock = os.path.join(MIR_CRATE, "Cargo.lock")
    if not os.path.exists(lock):
        import shutil
        shutil.copy("/repo/Cargo.lock", lock)
    env = dict(os.environ, CARGO_NET_OFFLINE="true")
    os.utime(os.path.join(MIR_CRATE, "src", "lib.rs"))
    p = subprocess.run(["cargo", "+nightly", "rustc", "--offline", "--lib", "--", "-Zunpretty=mir",
                        "-C", "debug-assertions=off", "-C", "overflow-checks=on"],
                       cwd=MIR_CRATE, env=env, stdout=subprocess.PIPE, stderr=subprocess.PIPE, text=True)
    if p.returncode != 0:
        raise RuntimeError("MIR dump failed:\n" + p.stderr[-3000:])
    if out_path:
        with open(out_path, "w") as f:
            f.write(p.stdout)
    return p.stdout


class Body:
    def __init__(self, name, params, ret, header):
        self.name, self.params, self.ret, self.header = name, params, ret, header
        self.local_types = {}
        self.blocks = {}


_HDR_FN = re.compile(r"^fn (.+?)\((.*)\) -> (.+) \{$")
_HDR_CONST = re.compile(r"^const (.+?): (.+) = \{$")


def _split_top(s, sep=","):
    out, depth, cur = [], 0, ""
    i = 0
    while i < len(s):
        c = s[i]
        if c in "([<{":
            depth += 1
        elif c in ")]>}":
            if c == ">" and i > 0 and s[i - 1] == "-":
                pass
            else:
                depth -= 1
        if c == sep and depth == 0:
            out.append(cur.strip())
            cur = ""
        else:
            cur += c
        i += 1
    if cur.strip():
        out.append(cur.strip())
    return out


def parse_mir(text):
    bodies = {}
    lines = text.splitlines()
    i = 0
    while i < len(lines):
        line = lines[i]
        m = _HDR_FN.match(line)
        c = _HDR_CONST.match(line) if not m else None
        if not m and not c:
            i += 1
            continue
        if m:
            name, params_s, ret = m.group(1), m.group(2), m.group(3)
            params = []
            for p in _split_top(params_s):
                pm = re.match(r"^(_\d+): (.+)$", p)
                if pm:
                    params.append((pm.group(1), pm.group(2)))
            body = Body(name, params, ret, line)
        else:
            body = Body(c.group(1), [], c.group(2), line)
        i += 1
        cur = None
        while i < len(lines) and lines[i] != "}":
            l = lines[i]
            lm = re.match(r"^\s+let (?:mut )?(_\d+): (.+);$", l)
            bm = re.match(r"^\s+(bb\d+)(?: \(cleanup\))?: \{$", l)
            if lm:
                body.local_types[lm.group(1)] = lm.group(2)
            elif bm:
                cur = bm.group(1)
                body.blocks[cur] = []
            elif cur is not None:
                s = l.strip()
                if s == "}":
                    cur = None
                elif s:
                    # statements may span lines only for long constants; join until ';' or terminator arrow
                    body.blocks[cur].append(s)
            i += 1
        for (p, t) in body.params:
            body.local_types[p] = t
        body.local_types["_0"] = body.ret
        bodies.setdefault(body.name, body)
        i += 1
    return bodies


# ---------------------------------------------------------------------------------------------------------------
# values

class Cell:
    __slots__ = ("v",)

    def __init__(self, v=None):
        self.v = v


class BV:
    def __init__(self, t, width, signed):
        self.t, self.width, self.signed = t, width, signed

    def __repr__(self):
        return "BV(%s)" % self.t


class Bool:
    def __init__(self, t):
        self.t = t


class Str:
    def __init__(self, t):
        self.t = t


class Ref:
    def __init__(self, cell):
        self.cell = cell


class Tup:
    def __init__(self, cells):
        self.cells = cells


class Enum:
    """discriminant: python int (concrete) or z3 Int term; payload: dict variant-index -> list of cells."""

    def __init__(self, adt, disc, payload):
        self.adt, self.disc, self.payload = adt, disc, payload


class VecV:
    def __init__(self, cells):
        self.cells = cells


class Slice:
    def __init__(self, cells):
        self.cells = cells


class Opaque:
    def __init__(self, what):
        self.what = what


class Unit:
    pass


def copy_value(v):
    if isinstance(v, Tup):
        return Tup([Cell(copy_value(c.v)) for c in v.cells])
    if isinstance(v, Enum):
        return Enum(v.adt, v.disc, {k: [Cell(copy_value(c.v)) for c in cs] for k, cs in v.payload.items()})
    if isinstance(v, VecV):
        return VecV([Cell(copy_value(c.v)) for c in v.cells])
    return v


INT_TYPES = {"i8": (8, True), "i16": (16, True), "i32": (32, True), "i64": (64, True), "isize": (64, True), "i128": (128, True),
             "u8": (8, False), "u16": (16, False), "u32": (32, False), "u64": (64, False), "usize": (64, False), "u128": (128, False)}


class Outcome:
    def __init__(self, kind, pc, value=None, msg=None, opaque_dependent=False):
        self.kind, self.pc, self.value, self.msg, self.opaque_dependent = kind, pc, value, msg, opaque_dependent


class Unsupported(Exception):
    pass


# ---------------------------------------------------------------------------------------------------------------
# the executor

class Executor:
    def __init__(self, bodies, enums, max_depth=12):
        self.bodies = bodies
        self.enums = enums  # adt short name -> [variant names in declaration order]
        self.max_depth = max_depth
        self.solver = z3.Solver()
        self.solver_seconds = 0.0
        self.queries = 0
        self.unmodelled = set()
        self.inlined = set()
        self.modelled = set()
        self.fresh = 0

    # -- helpers
    def feasible(self, pc):
        self.solver.push()
        for c in pc:
            self.solver.add(c)
        t0 = time.time()
        r = self.solver.check()
        self.solver_seconds += time.time() - t0
        self.queries += 1
        self.solver.pop()
        return r != z3.unsat

    def variant_index(self, adt, name):
        vs = self.enums.get(adt)
        if vs is None:
            raise Unsupported("unknown enum %s" % adt)
        return vs.index(name)

    def find_body(self, callee, args):
        """Resolves a call path to a body of the dump: exact name, or a trait-method path
        `<T as Trait<..>>::m` matched to an `<impl at ..>::m` body by parameter count and types."""
        name = re.sub(r"::<[^<>]*(<[^<>]*>[^<>]*)*>", "", callee) if callee not in self.bodies else callee
        if callee in self.bodies:
            return self.bodies[callee]
        if name in self.bodies:
            return self.bodies[name]
        for k in self.bodies:
            if k.endswith("::" + name) or name.endswith("::" + k):
                return self.bodies[k]
        m = re.match(r"^<(.+?) as (.+)>::(\w+)$", callee)
        if m:
            self_ty, trait, meth = m.group(1), m.group(2), m.group(3)
            short = lambda t: re.sub(r"[A-Za-z_0-9]+::", "", t).replace(" ", "")
            cands = []
            for k, b in self.bodies.items():
                if not re.search(r"<impl at [^>]+>::%s$" % re.escape(meth), k):
                    continue
                if len(b.params) != len(args):
                    continue
                tm = re.match(r"^(\w+)<(.+)>$", trait.split("::")[-1])
                want_arg = short(tm.group(2)) if tm else None
                ret, p0 = short(b.ret), short(b.params[0][1]) if b.params else ""
                if tm and tm.group(1) == "From":
                    if ret == short(self_ty) and p0 == want_arg:
                        cands.append(b)
                elif tm and tm.group(1) == "Into":
                    if p0 == short(self_ty) and ret == want_arg:
                        cands.append(b)
            if len(cands) == 1:
                return cands[0]
        # inherent methods written with generic arguments, e.g. `heap::Pointer::from_literal`
        tail = "::".join(name.split("::")[-1:])
        cands = [b for k, b in self.bodies.items() if re.search(r"<impl at [^>]+>::%s$" % re.escape(tail), k)
                 and len(b.params) == len(args)]
        owner = name.split("::")[-2] if "::" in name else None
        if owner and len(cands) > 1:
            def owner_ok(b):
                return any(owner in t for _, t in b.params) or owner in b.ret
            cands = [b for b in cands if owner_ok(b)] or cands
        if len(cands) == 1 and owner and owner[0].isupper():
            return cands[0]
        return None

    # -- running a body: generator of Outcome
    def run(self, body, args, pc, depth=0):
        if depth > self.max_depth:
            raise Unsupported("call depth exceeded in " + body.name)
        frame = {}
        for (p, _t), a in zip(body.params, args):
            frame[p] = Cell(a)
        yield from self.run_block(body, "bb0", frame, list(pc), depth, set())

    def run_block(self, body, bb, frame, pc, depth, visited):
        if bb in visited:
            raise Unsupported("loop at %s of %s" % (bb, body.name))
        visited = visited | {bb}
        stmts = body.blocks[bb]
        for idx, s in enumerate(stmts):
            last = idx == len(stmts) - 1
            if not last:
                self.exec_stmt(body, s, frame)
                continue
            # terminator
            if s == "return;":
                yield Outcome("return", pc, value=frame.get("_0", Cell(Unit())).v)
                return
            if s in ("unreachable;", "resume;"):
                yield Outcome("unreachable", pc)
                return
            m = re.match(r"^goto -> (bb\d+);$", s)
            if m:
                yield from self.run_block(body, m.group(1), frame, pc, depth, visited)
                return
            m = re.match(r"^switchInt\((.+)\) -> \[(.+)\];$", s)
            if m:
                v = self.operand(body, m.group(1), frame)
                yield from self.do_switch(body, v, m.group(2), frame, pc, depth, visited)
                return
            m = re.match(r"^drop\(.+\) -> \[return: (bb\d+), unwind.*\];$", s)
            if m:
                yield from self.run_block(body, m.group(1), frame, pc, depth, visited)
                return
            m = re.match(r"^assert\((!?)(.+?), \"(.*?)\"(?:, .+)?\) -> \[success: (bb\d+), unwind.*\];$", s)
            if m:
                neg, cond_s, msg, succ = m.group(1), m.group(2), m.group(3), m.group(4)
                c = self.operand(body, cond_s, frame)
                ct = c.t if isinstance(c, Bool) else None
                if ct is None:
                    raise Unsupported("assert on non-boolean")
                ok = z3.Not(ct) if neg else ct
                if self.feasible(pc + [z3.Not(ok)]):
                    yield Outcome("panic", pc + [z3.Not(ok)], msg=msg.split("{")[0].strip())
                if self.feasible(pc + [ok]):
                    yield from self.run_block(body, succ, frame, pc + [ok], depth, visited)
                return
            m = re.match(r"^(?:(.+?) = )?(.+?)\((.*)\) -> \[return: (bb\d+), unwind.*\];$", s)
            if m:
                dest, callee, args_s, ret_bb = m.group(1), m.group(2), m.group(3), m.group(4)
                args = [self.operand(body, a, frame) for a in _split_top(args_s)]
                for (kind, val, cpc) in self.call(callee, args, pc, depth):
                    if kind == "panic":
                        yield Outcome("panic", cpc, msg=val)
                        continue
                    if kind == "unreachable":
                        yield Outcome("unreachable", cpc)
                        continue
                    f2 = self.fork_frame(frame)
                    if dest:
                        self.assign(body, dest, val, f2)
                    yield from self.run_block(body, ret_bb, f2, cpc, depth, visited)
                return
            m = re.match(r"^(.+?)\((.*)\) -> unwind.*;$", s)
            if m:  # diverging call (panic!, unwrap_failed ...)
                yield Outcome("panic", pc, msg="diverging call " + m.group(1))
                return
            # a plain statement as the last line of a block cannot happen
            raise Unsupported("terminator not understood: " + s)

    def fork_frame(self, frame):
        """Deep copy that preserves aliasing between cells (references keep pointing into the copy)."""
        memo = {}

        def cp_cell(c):
            if id(c) in memo:
                return memo[id(c)]
            n = Cell(None)
            memo[id(c)] = n
            n.v = cp_val(c.v)
            return n

        def cp_val(v):
            if isinstance(v, Ref):
                return Ref(cp_cell(v.cell))
            if isinstance(v, Tup):
                return Tup([cp_cell(c) for c in v.cells])
            if isinstance(v, Enum):
                return Enum(v.adt, v.disc, {k: [cp_cell(c) for c in cs] for k, cs in v.payload.items()})
            if isinstance(v, VecV):
                return VecV([cp_cell(c) for c in v.cells])
            if isinstance(v, Slice):
                return Slice([cp_cell(c) for c in v.cells])
            return v

        return {k: cp_cell(c) for k, c in frame.items()}

    def do_switch(self, body, v, targets_s, frame, pc, depth, visited):
        targets = []
        for t in _split_top(targets_s):
            k, bbn = t.split(": ")
            targets.append((k.strip(), bbn.strip()))
        if isinstance(v, Bool):
            term_of = lambda k: z3.Not(v.t) if int(k) == 0 else v.t
        elif isinstance(v, BV):
            term_of = lambda k: v.t == z3.BitVecVal(int(k), v.width)
        elif isinstance(v, int):
            term_of = None
        elif z3.is_expr(v):
            term_of = lambda k: v == int(k)
        else:
            raise Unsupported("switchInt on %r" % (v,))
        taken_consts = []
        for k, bbn in targets:
            if k == "otherwise":
                continue
            kk = int(re.sub(r"_\w+$", "", k))
            if term_of is None:
                if v == kk:
                    yield from self.run_block(body, bbn, self.fork_frame(frame), pc, depth, visited)
                    return
                continue
            c = term_of(kk)
            taken_consts.append(c)
            if self.feasible(pc + [c]):
                yield from self.run_block(body, bbn, self.fork_frame(frame), pc + [c], depth, visited)
        other = [bbn for k, bbn in targets if k == "otherwise"]
        if other:
            if term_of is None:
                yield from self.run_block(body, other[0], self.fork_frame(frame), pc, depth, visited)
                return
            c = z3.Not(z3.Or(taken_consts)) if taken_consts else z3.BoolVal(True)
            if self.feasible(pc + [c]):
                yield from self.run_block(body, other[0], self.fork_frame(frame), pc + [c], depth, visited)

    # -- statements
    def exec_stmt(self, body, s, frame):
        if s.startswith(("StorageLive", "StorageDead", "FakeRead", "PlaceMention", "nop", "Retag", "AscribeUserType", "Coverage", "ConstEvalCounter")):
            return
        m = re.match(r"^(.+?) = (.+);$", s)
        if not m:
            raise Unsupported("statement not understood: " + s)
        self.assign(body, m.group(1), self.rvalue(body, m.group(2), frame, m.group(1)), frame)

    def assign(self, body, place_s, value, frame):
        cell = self.place(body, place_s.strip(), frame, create=True)
        cell.v = value

    # -- places:  _N | (*P) | (P.N: T) | (P as V) | P[..]
    def place(self, body, s, frame, create=False):
        s = s.strip()
        m = re.match(r"^_\d+$", s)
        if m:
            if s not in frame:
                frame[s] = Cell(None)
            return frame[s]
        if s.startswith("(*") and s.endswith(")"):
            inner = self.place(body, s[2:-1], frame)
            if not isinstance(inner.v, Ref):
                raise Unsupported("deref of non-reference in %s: %r" % (s, inner.v))
            return inner.v.cell
        if s.startswith("(") and s.endswith(")"):
            body_s = s[1:-1]
            # field projection  P.N: T   (split at the last top-level ": ")
            depth = 0
            split = None
            for i, c in enumerate(body_s):
                if c in "([<":
                    depth += 1
                elif c in ")]>":
                    depth -= 1
                elif c == ":" and depth == 0 and body_s[i:i + 2] == ": " and (i == 0 or body_s[i - 1] != ":"):
                    split = i
                    break
            if split is not None:
                left = body_s[:split]
                fm = re.match(r"^(.*)\.(\d+)$", left)
                if not fm:
                    raise Unsupported("field projection not understood: " + s)
                base_s, idx = fm.group(1), int(fm.group(2))
                vm = re.match(r"^\((.+) as (\w+)\)$", base_s)
                if vm:
                    base = self.place(body, vm.group(1), frame)
                    e = base.v
                    if not isinstance(e, Enum):
                        raise Unsupported("downcast of non-enum: %r in %s" % (e, s))
                    vi = self.variant_index(e.adt, vm.group(2))
                    cells = e.payload.setdefault(vi, [])
                    while len(cells) <= idx:
                        cells.append(Cell(None))
                    return cells[idx]
                base = self.place(body, base_s, frame)
                v = base.v
                if v is None and create:
                    v = base.v = Tup([])
                if isinstance(v, Tup):
                    while len(v.cells) <= idx:
                        v.cells.append(Cell(None))
                    return v.cells[idx]
                raise Unsupported("field of non-aggregate %r in %s" % (v, s))
        raise Unsupported("place not understood: " + s)

    # -- operands and rvalues
    def const(self, s, ty_hint=None):
        s = s.strip()
        if s in ("true", "false"):
            return Bool(z3.BoolVal(s == "true"))
        m = re.match(r"^(-?\d+)_(\w+)$", s)
        if m and m.group(2) in INT_TYPES:
            w, sg = INT_TYPES[m.group(2)]
            return BV(z3.BitVecVal(int(m.group(1)), w), w, sg)
        m = re.match(r'^"(.*)"$', s, re.S)
        if m:
            raw = bytes(m.group(1), "utf-8").decode("unicode_escape") if "\\" in m.group(1) else m.group(1)
            return Str(z3.StringVal(raw))
        if s.startswith('b"') or s.startswith("b'"):
            return Opaque("byte string constant")
        if s == "()":
            return Unit()
        m = re.match(r"^i32::MIN$|^i32::MAX$", s)
        if m:
            return BV(z3.BitVecVal(-2 ** 31 if s.endswith("MIN") else 2 ** 31 - 1, 32), 32, True)
        # promoted constants / named consts with a body in the dump
        name = s
        for k, b in self.bodies.items():
            if k == name or name.endswith("::" + k) or k.endswith("::" + name.split("::", 1)[-1]) and "promoted" in name:
                outs = list(self.run(b, [], [], 0))
                if len(outs) == 1 and outs[0].kind == "return":
                    return outs[0].value
        # unit-like enum variants used as constants (e.g. `heap::Pointer::Null`)
        m = re.match(r"^(?:[\w:]+::)?(\w+)::(\w+)$", s)
        if m and m.group(1) in self.enums and m.group(2) in self.enums[m.group(1)]:
            return Enum(m.group(1), self.enums[m.group(1)].index(m.group(2)), {})
        return Opaque("constant " + s)

    def operand(self, body, s, frame):
        s = s.strip()
        for pre in ("no_retag copy ", "copy ", "move "):
            if s.startswith(pre):
                v = self.place(body, s[len(pre):], frame).v
                if v is None:
                    raise Unsupported("read of unset place %s in %s" % (s, body.name))
                return copy_value(v) if pre != "move " else v
        if s.startswith("const "):
            return self.const(s[len("const "):])
        raise Unsupported("operand not understood: " + s)

    def as_bv(self, v):
        if isinstance(v, BV):
            return v
        if isinstance(v, Bool):
            return BV(z3.If(v.t, z3.BitVecVal(1, 8), z3.BitVecVal(0, 8)), 8, False)
        raise Unsupported("integer expected, got %r" % (v,))

    def binop(self, op, a, b):
        if op in ("Eq", "Ne") and isinstance(a, Bool) and isinstance(b, Bool):
            t = a.t == b.t
            return Bool(t if op == "Eq" else z3.Not(t))
        if op in ("BitAnd", "BitOr", "BitXor") and isinstance(a, Bool) and isinstance(b, Bool):
            return Bool({"BitAnd": z3.And, "BitOr": z3.Or, "BitXor": z3.Xor}[op](a.t, b.t))
        a, b = self.as_bv(a), self.as_bv(b)
        sg = a.signed
        x, y = a.t, b.t
        if op == "Eq":
            return Bool(x == y)
        if op == "Ne":
            return Bool(x != y)
        if op == "Lt":
            return Bool(x < y if sg else z3.ULT(x, y))
        if op == "Le":
            return Bool(x <= y if sg else z3.ULE(x, y))
        if op == "Gt":
            return Bool(x > y if sg else z3.UGT(x, y))
        if op == "Ge":
            return Bool(x >= y if sg else z3.UGE(x, y))
        arith = {"Add": lambda: x + y, "Sub": lambda: x - y, "Mul": lambda: x * y,
                 "BitAnd": lambda: x & y, "BitOr": lambda: x | y, "BitXor": lambda: x ^ y,
                 "Div": lambda: (x / y) if sg else z3.UDiv(x, y),
                 "Rem": lambda: z3.SRem(x, y) if sg else z3.URem(x, y),
                 "AddUnchecked": lambda: x + y, "SubUnchecked": lambda: x - y, "MulUnchecked": lambda: x * y}
        if op in arith:
            return BV(arith[op](), a.width, sg)
        if op in ("AddWithOverflow", "SubWithOverflow", "MulWithOverflow"):
            w = a.width
            ext = (lambda t: z3.SignExt(w, t)) if sg else (lambda t: z3.ZeroExt(w, t))
            wide = {"AddWithOverflow": ext(x) + ext(y), "SubWithOverflow": ext(x) - ext(y), "MulWithOverflow": ext(x) * ext(y)}[op]
            res = z3.Extract(w - 1, 0, wide)
            ov = ext(res) != wide
            return Tup([Cell(BV(res, w, sg)), Cell(Bool(ov))])
        raise Unsupported("binary operator " + op)

    def rvalue(self, body, s, frame, dest=None):
        s = s.strip()
        if s.startswith("&raw ") or s.startswith("&mut ") or s.startswith("&"):
            inner = re.sub(r"^&(raw (const|mut) |mut )?", "", s)
            return Ref(self.place(body, inner, frame))
        m = re.match(r"^discriminant\((.+)\)$", s)
        if m:
            e = self.place(body, m.group(1), frame).v
            if not isinstance(e, Enum):
                raise Unsupported("discriminant of %r" % (e,))
            return e.disc
        m = re.match(r"^(Not|Neg)\((.+)\)$", s)
        if m:
            v = self.operand(body, m.group(2), frame)
            if m.group(1) == "Not":
                return Bool(z3.Not(v.t)) if isinstance(v, Bool) else BV(~v.t, v.width, v.signed)
            return BV(-v.t, v.width, v.signed)
        m = re.match(r"^(\w+)\((.+)\)$", s)
        if m and m.group(1) in ("Eq", "Ne", "Lt", "Le", "Gt", "Ge", "Add", "Sub", "Mul", "Div", "Rem", "BitAnd", "BitOr", "BitXor",
                                "AddWithOverflow", "SubWithOverflow", "MulWithOverflow", "AddUnchecked", "SubUnchecked", "MulUnchecked"):
            a, b = _split_top(m.group(2))
            return self.binop(m.group(1), self.operand(body, a, frame), self.operand(body, b, frame))
        m = re.match(r"^(.+) as (\w+) \((\w+)\)$", s)
        if m:
            v = self.operand(body, m.group(1), frame)
            ty, kind = m.group(2), m.group(3)
            if kind == "IntToInt" and ty in INT_TYPES:
                w, sg = INT_TYPES[ty]
                v = self.as_bv(v)
                if w == v.width:
                    t = v.t
                elif w < v.width:
                    t = z3.Extract(w - 1, 0, v.t)
                else:
                    t = z3.SignExt(w - v.width, v.t) if v.signed else z3.ZeroExt(w - v.width, v.t)
                return BV(t, w, sg)
            return Opaque("cast " + kind)
        # tuple aggregate
        if s.startswith("(") and s.endswith(")") and not re.match(r"^\(.*\) as ", s):
            parts = _split_top(s[1:-1])
            if all(p.startswith(("copy ", "move ", "const ", "no_retag ")) for p in parts):
                return Tup([Cell(self.operand(body, p, frame)) for p in parts])
        if s.startswith("[") and s.endswith("]"):
            return Opaque("array aggregate")
        # enum variant constructors:  path::Enum::<..>::Variant(args)  |  path::Enum::Variant
        m = re.match(r"^(?:[\w:]+::)?(\w+)(?:::<.*>)?::(\w+)(?:\((.*)\))?$", s)
        if m and m.group(1) in self.enums and m.group(2) in self.enums[m.group(1)]:
            adt, var, args_s = m.group(1), m.group(2), m.group(3)
            vi = self.enums[adt].index(var)
            cells = [Cell(self.operand(body, a, frame)) for a in _split_top(args_s)] if args_s else []
            return Enum(adt, vi, {vi: cells})
        # struct-like tuple constructors of newtypes, e.g. `heap::HeapIndex(copy _1)`
        m = re.match(r"^(?:[\w:]+::)?([A-Z]\w*)\((.*)\)$", s)
        if m:
            return Tup([Cell(self.operand(body, a, frame)) for a in _split_top(m.group(2))])
        if s.startswith(("copy ", "move ", "const ", "no_retag ")):
            return self.operand(body, s, frame)
        raise Unsupported("rvalue not understood: " + s)

    # -- calls: yields (kind, value, pc)
    def call(self, callee, args, pc, depth):
        callee = callee.strip()
        model = MODELS.lookup(callee)
        if model is not None:
            self.modelled.add(callee)
            yield from model(self, callee, args, pc)
            return
        body = self.find_body(callee, args)
        if body is not None:
            self.inlined.add(body.name)
            for o in self.run(body, args, pc, depth + 1):
                if o.kind == "return":
                    yield ("value", o.value, o.pc)
                elif o.kind == "panic":
                    yield ("panic", o.msg, o.pc)
                else:
                    yield ("unreachable", None, o.pc)
            return
        self.unmodelled.add(callee)
        yield ("value", Opaque("call " + callee), pc)


# ---------------------------------------------------------------------------------------------------------------
# models of core / alloc functions (documented semantics; trusted)

class Models:
    def __init__(self):
        self.table = []

    def add(self, pattern):
        def deco(f):
            self.table.append((re.compile(pattern), f))
            return f
        return deco

    def lookup(self, callee):
        for rx, f in self.table:
            if rx.search(callee):
                return f
        return None


MODELS = Models()


def deref_all(v):
    while isinstance(v, Ref):
        v = v.cell.v
    return v


@MODELS.add(r"^<&?&?str as PartialEq(<&?&?str>)?>::(eq|ne)$")
def m_str_eq(ex, callee, args, pc):
    a, b = deref_all(args[0]), deref_all(args[1])
    if not (isinstance(a, Str) and isinstance(b, Str)):
        raise Unsupported("str eq on %r %r" % (a, b))
    t = a.t == b.t
    yield ("value", Bool(t if callee.endswith("eq") else z3.Not(t)), pc)


@MODELS.add(r"^<&?&?(i8|i16|i32|i64|isize|u8|u16|u32|u64|usize) as Partial(Eq|Ord)(<.*>)?>::(eq|ne|lt|le|gt|ge)$")
def m_int_cmp(ex, callee, args, pc):
    a, b = deref_all(args[0]), deref_all(args[1])
    op = {"eq": "Eq", "ne": "Ne", "lt": "Lt", "le": "Le", "gt": "Gt", "ge": "Ge"}[callee.rsplit("::", 1)[1]]
    yield ("value", ex.binop(op, a, b), pc)


@MODELS.add(r"^<&?bool as PartialEq(<.*>)?>::(eq|ne)$")
def m_bool_cmp(ex, callee, args, pc):
    a, b = deref_all(args[0]), deref_all(args[1])
    yield ("value", ex.binop("Eq" if callee.endswith("eq") else "Ne", a, b), pc)


@MODELS.add(r"^<&?(i8|i16|i32|i64|isize) as (Add|Sub|Mul|Div|Rem)(<.*>)?>::(add|sub|mul|div|rem)$")
def m_checked_arith(ex, callee, args, pc):
    """`a op b` on signed primitives as compiled with overflow checks on (the profile Kani and `cargo test` use):
    + - * panic on overflow; / % panic on a zero divisor and on MIN / -1 in every profile."""
    a, b = ex.as_bv(deref_all(args[0])), ex.as_bv(deref_all(args[1]))
    meth = callee.rsplit("::", 1)[1]
    w = a.width
    mn = z3.BitVecVal(-(2 ** (w - 1)), w)
    if meth in ("add", "sub", "mul"):
        r = ex.binop({"add": "AddWithOverflow", "sub": "SubWithOverflow", "mul": "MulWithOverflow"}[meth], a, b)
        val, ov = r.cells[0].v, r.cells[1].v.t
        word = {"add": "add", "sub": "subtract", "mul": "multiply"}[meth]
        if ex.feasible(pc + [ov]):
            yield ("panic", "attempt to %s with overflow" % word, pc + [ov])
        if ex.feasible(pc + [z3.Not(ov)]):
            yield ("value", val, pc + [z3.Not(ov)])
        return
    zero = b.t == 0
    ovf = z3.And(a.t == mn, b.t == -1)
    if meth == "div":
        msgs = ("attempt to divide by zero", "attempt to divide with overflow")
        val = BV(a.t / b.t, w, True)
    else:
        msgs = ("attempt to calculate the remainder with a divisor of zero", "attempt to calculate the remainder with overflow")
        val = BV(z3.SRem(a.t, b.t), w, True)
    if ex.feasible(pc + [zero]):
        yield ("panic", msgs[0], pc + [zero])
    if ex.feasible(pc + [z3.Not(zero), ovf]):
        yield ("panic", msgs[1], pc + [z3.Not(zero), ovf])
    ok = [z3.Not(zero), z3.Not(ovf)]
    if ex.feasible(pc + ok):
        yield ("value", val, pc + ok)


@MODELS.add(r"^core::num::<impl (i8|i16|i32|i64|isize)>::(wrapping_add|wrapping_sub|wrapping_mul|wrapping_div|wrapping_rem|wrapping_neg|"
            r"checked_add|checked_sub|checked_mul|checked_div|checked_rem|saturating_add|saturating_sub|overflowing_add|overflowing_sub|"
            r"overflowing_mul|div_euclid|rem_euclid|abs|wrapping_abs|pow|signum)$")
def m_int_methods(ex, callee, args, pc):
    meth = callee.rsplit("::", 1)[1]
    a = ex.as_bv(args[0])
    w = a.width
    mn = z3.BitVecVal(-(2 ** (w - 1)), w)
    if meth in ("wrapping_neg",):
        yield ("value", BV(-a.t, w, True), pc)
        return
    if meth in ("abs", "wrapping_abs", "signum", "pow"):
        raise Unsupported("model for %s not written" % meth)
    b = ex.as_bv(args[1])
    if meth in ("wrapping_add", "wrapping_sub", "wrapping_mul"):
        op = {"wrapping_add": "Add", "wrapping_sub": "Sub", "wrapping_mul": "Mul"}[meth]
        yield ("value", ex.binop(op, a, b), pc)
        return
    if meth in ("wrapping_div", "wrapping_rem"):
        zero = b.t == 0
        if ex.feasible(pc + [zero]):
            yield ("panic", "attempt to divide by zero" if meth == "wrapping_div" else "attempt to calculate the remainder with a divisor of zero", pc + [zero])
        if ex.feasible(pc + [z3.Not(zero)]):
            ovf = z3.And(a.t == mn, b.t == -1)
            val = z3.If(ovf, mn if meth == "wrapping_div" else z3.BitVecVal(0, w), (a.t / b.t) if meth == "wrapping_div" else z3.SRem(a.t, b.t))
            yield ("value", BV(val, w, True), pc + [z3.Not(zero)])
        return
    if meth.startswith("overflowing_"):
        yield ("value", ex.binop({"add": "AddWithOverflow", "sub": "SubWithOverflow", "mul": "MulWithOverflow"}[meth.split("_")[1]], a, b), pc)
        return
    if meth.startswith("checked_") and meth.split("_")[1] in ("add", "sub", "mul"):
        r = ex.binop({"add": "AddWithOverflow", "sub": "SubWithOverflow", "mul": "MulWithOverflow"}[meth.split("_")[1]], a, b)
        ov = r.cells[1].v.t
        if ex.feasible(pc + [ov]):
            yield ("value", Enum("Option", 0, {}), pc + [ov])
        if ex.feasible(pc + [z3.Not(ov)]):
            yield ("value", Enum("Option", 1, {1: [Cell(r.cells[0].v)]}), pc + [z3.Not(ov)])
        return
    if meth in ("checked_div", "checked_rem"):
        bad = z3.Or(b.t == 0, z3.And(a.t == mn, b.t == -1))
        if ex.feasible(pc + [bad]):
            yield ("value", Enum("Option", 0, {}), pc + [bad])
        if ex.feasible(pc + [z3.Not(bad)]):
            val = BV((a.t / b.t) if meth == "checked_div" else z3.SRem(a.t, b.t), w, True)
            yield ("value", Enum("Option", 1, {1: [Cell(val)]}), pc + [z3.Not(bad)])
        return
    if meth in ("saturating_add", "saturating_sub"):
        r = ex.binop("AddWithOverflow" if meth.endswith("add") else "SubWithOverflow", a, b)
        ov = r.cells[1].v.t
        mx = z3.BitVecVal(2 ** (w - 1) - 1, w)
        neg_result = (b.t < 0) if meth.endswith("add") else (b.t > 0)
        yield ("value", BV(z3.If(ov, z3.If(neg_result, mn, mx), r.cells[0].v.t), w, True), pc)
        return
    if meth in ("div_euclid", "rem_euclid"):
        zero = b.t == 0
        ovf = z3.And(a.t == mn, b.t == -1)
        if ex.feasible(pc + [zero]):
            yield ("panic", "attempt to divide by zero", pc + [zero])
        if ex.feasible(pc + [z3.Not(zero), ovf]):
            yield ("panic", "attempt to divide with overflow", pc + [z3.Not(zero), ovf])
        ok = [z3.Not(zero), z3.Not(ovf)]
        if ex.feasible(pc + ok):
            q, r = a.t / b.t, z3.SRem(a.t, b.t)
            adj = r < 0
            qe = z3.If(adj, z3.If(b.t > 0, q - 1, q + 1), q)
            re_ = z3.If(adj, z3.If(b.t > 0, r + b.t, r - b.t), r)
            yield ("value", BV(qe if meth == "div_euclid" else re_, w, True), pc + ok)
        return
    raise Unsupported("model for %s not written" % meth)


@MODELS.add(r"^Vec::<.*>::len$|^std::vec::Vec::<.*>::len$")
def m_vec_len(ex, callee, args, pc):
    v = deref_all(args[0])
    yield ("value", BV(z3.BitVecVal(len(v.cells), 64), 64, False), pc)


@MODELS.add(r"^<Vec<.*> as Deref>::deref$|^<std::vec::Vec<.*> as std::ops::Deref>::deref$")
def m_vec_deref(ex, callee, args, pc):
    v = deref_all(args[0])
    yield ("value", Ref(Cell(Slice(v.cells))), pc)


@MODELS.add(r"^core::slice::<impl \[.*\]>::(last|first)$")
def m_slice_end(ex, callee, args, pc):
    s = deref_all(args[0])
    if not s.cells:
        yield ("value", Enum("Option", 0, {}), pc)
    else:
        c = s.cells[-1] if callee.endswith("last") else s.cells[0]
        yield ("value", Enum("Option", 1, {1: [Cell(Ref(c))]}), pc)


@MODELS.add(r"^core::slice::<impl \[.*\]>::len$")
def m_slice_len(ex, callee, args, pc):
    s = deref_all(args[0])
    yield ("value", BV(z3.BitVecVal(len(s.cells), 64), 64, False), pc)


@MODELS.add(r"Option::<.*>::(unwrap|expect)$")
def m_option_unwrap(ex, callee, args, pc):
    o = args[0]
    if not isinstance(o, Enum):
        raise Unsupported("unwrap of %r" % (o,))
    if isinstance(o.disc, int):
        if o.disc == 0:
            yield ("panic", "called `Option::unwrap()` on a `None` value", pc)
        else:
            yield ("value", o.payload[1][0].v, pc)
        return
    raise Unsupported("unwrap of symbolic Option")


@MODELS.add(r"^core::fmt::rt::Argument::|^Arguments::<.*>::new|^std::fmt::Arguments::|^format$|^std::fmt::format$|^must_use::|"
            r"^anyhow::private::|^anyhow::__private::|^anyhow::Error::|^<.* as std::fmt::Display>::fmt$|^<.* as ToString>::to_string$|"
            r"^std::hint::must_use|^core::hint::must_use")
def m_opaque(ex, callee, args, pc):
    yield ("value", Opaque("message / error construction: " + callee), pc)


# ---------------------------------------------------------------------------------------------------------------
# source helpers

def parse_enums(paths):
    """enum name -> variant names in declaration order (discriminants 0..n-1; no explicit discriminants are used)."""
    enums = {"Option": ["None", "Some"], "Result": ["Ok", "Err"]}
    for p in paths:
        src = open(p).read()
        src = re.sub(r"/\*.*?\*/", "", src, flags=re.S)
        src = re.sub(r"//[^\n]*", "", src)
        for m in re.finditer(r"\benum\s+(\w+)\s*\{", src):
            i = m.end()
            depth, j = 1, i
            while depth and j < len(src):
                depth += {"{": 1, "}": -1}.get(src[j], 0)
                j += 1
            body = src[i:j - 1]
            names, d, cur = [], 0, ""
            for c in body:
                if c in "({[<":
                    d += 1
                elif c in ")}]>":
                    d -= 1
                if c == "," and d == 0:
                    names.append(cur)
                    cur = ""
                else:
                    cur += c
            names.append(cur)
            vs = []
            for n in names:
                n = re.sub(r"#\[[^\]]*\]", "", n).strip()
                vm = re.match(r"^(\w+)", n)
                if vm:
                    vs.append(vm.group(1))
            enums[m.group(1)] = vs
    return enums
