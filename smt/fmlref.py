"""Independent references for the compiler checks (written from the README and the documented instruction set, not from
/repo's compiler or interpreter):

  well_formed(program)     C02 W: references, kinds, labels, method ranges, frame sizes, entry / globals
  stack_discipline(program) C02 S: one operand-stack depth per instruction over all control-flow edges
  eval_ast(ast, choices)   the trace of self-identifying calls m<k>() and prints the language definition prescribes
  run_code(program, choices) the trace the emitted bytecode produces on a reference stack machine

A program is a dict: pool = list of constants (tuples), code = list of instructions (tuples), globals = list of pool
indices, entry = pool index. Instructions: ("Literal", i) ("GetLocal", i) ... as in the documented instruction set.
"""

LITERAL_KINDS = ("Integer", "Boolean", "Null")


class Bad(Exception):
    pass


def methods_of(p):
    return [(i, c) for i, c in enumerate(p["pool"]) if c[0] == "Method"]


def well_formed(p):
    """List of violations of the static well-formedness conditions (empty = well-formed)."""
    bad = []
    pool, code = p["pool"], p["code"]

    def kind(i):
        return pool[i][0] if isinstance(i, int) and 0 <= i < len(pool) else None

    want = {"Literal": LITERAL_KINDS, "GetGlobal": ("String",), "SetGlobal": ("String",), "GetField": ("String",), "SetField": ("String",),
            "CallMethod": ("String",), "CallFunction": ("String",), "Label": ("String",), "Jump": ("String",), "Branch": ("String",),
            "Object": ("Class",), "Print": ("String",)}
    for a, ins in enumerate(code):
        if ins[0] in want and kind(ins[1]) not in want[ins[0]]:
            bad.append("instruction %d %r refers to constant %r of kind %s" % (a, ins, ins[1], kind(ins[1])))
    for i, c in enumerate(pool):
        if c[0] == "Slot" and kind(c[1]) != "String":
            bad.append("slot constant %d names constant %r of kind %s" % (i, c[1], kind(c[1])))
        if c[0] == "Method" and kind(c[1]) != "String":
            bad.append("method constant %d names constant %r of kind %s" % (i, c[1], kind(c[1])))
        if c[0] == "Class":
            for mref in c[1]:
                if kind(mref) not in ("Slot", "Method"):
                    bad.append("class constant %d has member %r of kind %s" % (i, mref, kind(mref)))
    # every instruction belongs to exactly one method
    owner = [None] * len(code)
    for i, c in methods_of(p):
        start, length = c[4], c[5]
        if start + length > len(code):
            bad.append("method constant %d covers %d..%d beyond the code (%d instructions)" % (i, start, start + length, len(code)))
            continue
        for a in range(start, start + length):
            if owner[a] is not None:
                bad.append("instruction %d belongs to methods %d and %d" % (a, owner[a], i))
            owner[a] = i
    for a, o in enumerate(owner):
        if o is None:
            bad.append("instruction %d %r belongs to no method" % (a, code[a]))
    # labels: defined once program-wide, targets in the same method
    defined = {}
    for a, ins in enumerate(code):
        if ins[0] == "Label":
            name = pool[ins[1]][1] if kind(ins[1]) == "String" else ("#", ins[1])
            if name in defined:
                bad.append("label %r defined at %d and %d" % (name, defined[name], a))
            defined[name] = a
    for a, ins in enumerate(code):
        if ins[0] in ("Jump", "Branch"):
            name = pool[ins[1]][1] if kind(ins[1]) == "String" else ("#", ins[1])
            if name not in defined:
                bad.append("instruction %d %r targets an undefined label %r" % (a, ins, name))
            elif owner[defined[name]] != owner[a]:
                bad.append("instruction %d %r targets label %r in another method" % (a, ins, name))
    # locals fit the frame
    for a, ins in enumerate(code):
        if ins[0] in ("GetLocal", "SetLocal") and owner[a] is not None:
            mc = pool[owner[a]]
            if not ins[1] < mc[2] + mc[3]:
                bad.append("instruction %d %r: local %d outside the frame of %d parameters + %d locals" % (a, ins, ins[1], mc[2], mc[3]))
    # entry and globals
    if kind(p["entry"]) != "Method":
        bad.append("entry %r is not a method constant" % (p["entry"],))
    for g in p["globals"]:
        if kind(g) not in ("Slot", "Method"):
            bad.append("global %r is a constant of kind %s" % (g, kind(g)))
    if len(set(p["globals"])) != len(p["globals"]):
        bad.append("a global is registered twice: %r" % (p["globals"],))
    return bad


def effect(p, ins):
    """(values required on the stack, net change) of one instruction; Return is handled by the caller."""
    k = ins[0]
    if k in ("Literal", "GetLocal", "GetGlobal"):
        return 0, 1
    if k in ("SetLocal", "SetGlobal"):
        return 1, 0
    if k in ("Label", "Jump"):
        return 0, 0
    if k in ("Branch", "Drop"):
        return 1, -1
    if k == "Array":
        return 2, -1
    if k == "GetField":
        return 1, 0
    if k == "SetField":
        return 2, -1
    if k in ("CallMethod", "CallFunction", "Print"):
        n = ins[2]
        if k == "CallMethod" and n < 1:
            raise Bad("call slot with no receiver")
        return n, 1 - n
    if k == "Object":
        c = p["pool"][ins[1]]
        slots = len([m for m in c[1] if p["pool"][m][0] == "Slot"])
        return slots + 1, -slots
    raise Bad("instruction %r" % (ins,))


def stack_discipline(p):
    bad = []
    pool, code = p["pool"], p["code"]
    label_at = {pool[ins[1]][1]: a for a, ins in enumerate(code) if ins[0] == "Label" and pool[ins[1]][0] == "String"}
    for i, c in methods_of(p):
        start, end = c[4], c[4] + c[5]
        if end > len(code) or c[5] == 0:
            if c[5] == 0:
                bad.append("method constant %d is empty (no return)" % i)
            continue
        depth = {start: 0}
        work = [start]
        while work:
            a = work.pop()
            d = depth[a]
            ins = code[a]
            if ins[0] == "Return":
                if d != 1:
                    bad.append("method %d: return at %d with operand-stack depth %d" % (i, a, d))
                continue
            try:
                need, net = effect(p, ins)
            except (Bad, IndexError, TypeError) as e:
                bad.append("method %d: instruction %d %r: %s" % (i, a, ins, e))
                continue
            if d < need:
                bad.append("method %d: instruction %d %r needs %d operands, the stack holds %d" % (i, a, ins, need, d))
                continue
            succ = []
            if ins[0] in ("Jump", "Branch"):
                t = label_at.get(pool[ins[1]][1])
                if t is not None:
                    succ.append(t)
            if ins[0] != "Jump":
                succ.append(a + 1)
            for s in succ:
                if s == end == len(code) and i == p["entry"] and ins[0] not in ("Jump",):
                    continue  # the entry method has no return: the program ends when control runs off the end of the code
                if not start <= s < end:
                    bad.append("method %d: control leaves the method after instruction %d %r" % (i, a, ins))
                    continue
                if s in depth:
                    if depth[s] != d + net:
                        bad.append("method %d: instruction %d is reached with depths %d and %d" % (i, s, depth[s], d + net))
                else:
                    depth[s] = d + net
                    work.append(s)
    return bad


# ---------------------------------------------------------------------------------------------------------------
# reference evaluator of the AST (README semantics): trace of m<k>() calls and prints

class Stop(Exception):
    pass


class Obj:
    def __init__(self, parent, fields, methods):
        self.parent, self.fields, self.methods = parent, fields, methods


def builtin(recv, name, args):
    ops = {"+": lambda a, b: a + b, "-": lambda a, b: a - b, "*": lambda a, b: a * b, "<": lambda a, b: a < b, "<=": lambda a, b: a <= b,
           ">": lambda a, b: a > b, ">=": lambda a, b: a >= b, "==": lambda a, b: a == b, "!=": lambda a, b: a != b}
    if isinstance(recv, bool) or recv is None:
        if name in ("==", "!=") and len(args) == 1:
            return ops[name](recv, args[0])
        if isinstance(recv, bool) and name in ("&", "|") and len(args) == 1 and isinstance(args[0], bool):
            return (recv and args[0]) if name == "&" else (recv or args[0])
        raise Stop("no method %r" % name)
    if isinstance(recv, int):
        if name in ops and len(args) == 1 and isinstance(args[0], int) and not isinstance(args[0], bool):
            return ops[name](recv, args[0])
        if name in ("/", "%") and len(args) == 1 and isinstance(args[0], int) and not isinstance(args[0], bool) and args[0] != 0:
            q = abs(recv) // abs(args[0]) * (1 if (recv < 0) == (args[0] < 0) else -1)   # truncating, as Rust's / and %
            return q if name == "/" else recv - q * args[0]
        if name in ("==", "!=") and len(args) == 1:
            return name == "!="
        raise Stop("no method %r" % name)
    if isinstance(recv, list):
        if name == "get" and len(args) == 1 and isinstance(args[0], int) and 0 <= args[0] < len(recv):
            return recv[args[0]]
        if name == "set" and len(args) == 2 and isinstance(args[0], int) and 0 <= args[0] < len(recv):
            recv[args[0]] = args[1]
            return args[1]
        raise Stop("array method %r" % name)
    raise Stop("receiver %r" % (recv,))


def show(v):
    """What a print event records of an argument: primitives by value, heap values by kind (and arrays of primitives by content)."""
    if isinstance(v, list):
        return ["array"] + [show(x) if not isinstance(x, (list, Obj)) else "ref" for x in v]
    if isinstance(v, Obj):
        return "object"
    return v


def choose(choices, trace, k):
    """The value the n-th call of m<k>() returns: choices[k] is a list (the last entry repeats); callables make fresh values."""
    vals = choices.get(k, [None])
    n = len([e for e in trace if e == ("m", k)]) - 1
    v = vals[min(n, len(vals) - 1)]
    return v() if callable(v) else v


def truthy(v):
    return not (v is None or v is False)


# When set, both references end their trace with the number of arrays and of objects the run created ("allocations are side effects that
# happen the documented number of times", C13; "exactly one A record per array or object the program creates", C16). Only the counts are
# compared: the README does not say whether an array exists before or after its initializers have run.
COUNT_ALLOCATIONS = False


def eval_ast(ast, choices, fuel=400):
    """(trace, verdict). choices: marker number -> the value m<k>() returns."""
    trace = []
    functions = {}
    state = {"fuel": fuel, "arrays": 0, "objects": 0}

    def ev(n, env, this=None):
        state["fuel"] -= 1
        if state["fuel"] < 0:
            raise Stop("fuel")
        k = n[0]
        if k == "Integer" or k == "Boolean":
            return n[1]
        if k == "Null":
            return None
        if k == "Variable":
            v = ev(n[2], env)
            env[-1][n[1]] = v
            return v
        if k == "AccessVariable":
            for scope in reversed(env):
                if n[1] in scope:
                    return scope[n[1]]
            raise Stop("unbound " + n[1])
        if k == "AssignVariable":
            v = ev(n[2], env)
            for scope in reversed(env):
                if n[1] in scope:
                    scope[n[1]] = v
                    return v
            raise Stop("unbound " + n[1])
        if k == "Array":
            size = ev(n[1], env)
            if not isinstance(size, int) or isinstance(size, bool) or size < 0:
                raise Stop("array size")
            # "the initial value ... will be re-executed for every element" (README, Arrays); each run in its own scope
            out = []
            state["arrays"] += 1
            for _ in range(size):
                out.append(ev(n[2], env + [{}]))
            return out
        if k == "AccessArray":
            a = ev(n[1], env)
            i = ev(n[2], env)
            return call_method(a, "get", [i])
        if k == "AssignArray":
            a = ev(n[1], env)
            i = ev(n[2], env)
            v = ev(n[3], env)
            return call_method(a, "set", [i, v])
        if k == "Object":
            parent = ev(n[1], env)
            fields, methods = {}, {}
            for mem in n[2]:
                if mem[0] == "Variable":
                    fields[mem[1]] = ev(mem[2], env)
                elif mem[0] == "Function":
                    methods[mem[1]] = mem
            state["objects"] += 1
            return Obj(parent, fields, methods)
        if k == "AccessField":
            o = ev(n[1], env)
            if not isinstance(o, Obj) or n[2] not in o.fields:
                raise Stop("field")
            return o.fields[n[2]]
        if k == "AssignField":
            o = ev(n[1], env)
            v = ev(n[3], env)
            if not isinstance(o, Obj) or n[2] not in o.fields:
                raise Stop("field")
            o.fields[n[2]] = v
            return v
        if k == "Function":
            functions[n[1]] = n
            return None
        if k == "CallFunction":
            name = n[1]
            if name.startswith("m") and name[1:].isdigit():
                for a in n[2]:
                    ev(a, env)
                trace.append(("m", int(name[1:])))
                return choose(choices, trace, int(name[1:]))
            args = [ev(a, env) for a in n[2]]
            f = functions.get(name)
            if f is None or len(f[2]) != len(args):
                raise Stop("function " + name)
            return ev(f[3], [globals_, dict(zip(f[2], args))])
        if k == "CallMethod":
            o = ev(n[1], env)
            args = [ev(a, env) for a in n[3]]
            return call_method(o, n[2], args)
        if k == "Block":
            v = None
            inner = env + [{}]
            for c in n[1]:
                v = ev(c, inner)
            return v
        if k == "Top":
            v = None
            for c in n[1]:
                v = ev(c, env)
            return v
        if k == "Loop":
            while truthy(ev(n[1], env)):
                ev(n[2], env)
            return None
        if k == "Conditional":
            return ev(n[2], env) if truthy(ev(n[1], env)) else ev(n[3], env)
        if k == "Print":
            args = [ev(a, env) for a in n[2]]
            trace.append(("print", n[1], [show(a) for a in args]))
            return None
        raise Stop("AST kind " + k)

    def call_method(o, name, args):
        while isinstance(o, Obj):
            if name in o.methods:
                f = o.methods[name]
                if len(f[2]) != len(args):
                    raise Stop("arity")
                return ev(f[3], [globals_, dict([("this", o)] + list(zip(f[2], args)))])
            o = o.parent
        return builtin(o, name, args)

    globals_ = {}
    try:
        ev(ast, [globals_])
        if COUNT_ALLOCATIONS:
            trace.append(("created", state["arrays"], state["objects"]))
        return trace, "ok"
    except Stop as e:
        return trace, "stopped: %s" % e


# ---------------------------------------------------------------------------------------------------------------
# reference stack machine for the emitted code

def run_code(p, choices, fuel=4000):
    pool, code = p["pool"], p["code"]
    trace = []
    label_at = {pool[ins[1]][1]: a for a, ins in enumerate(code) if ins[0] == "Label"}
    functions = {}
    globs = {}
    for g in p["globals"]:
        c = pool[g]
        if c[0] == "Method":
            functions[pool[c[1]][1]] = c
        elif c[0] == "Slot":
            globs[pool[c[1]][1]] = None
    stack = []
    frames = []
    created = {"arrays": 0, "objects": 0}

    def enter(mc, args, ret):
        frames.append({"locals": list(args) + [None] * mc[3], "ret": ret})
        return mc[4]

    try:
        ip = enter(pool[p["entry"]], [], None)
        while True:
            fuel -= 1
            if fuel < 0:
                raise Stop("fuel")
            if ip == len(code) and len(frames) == 1:
                if COUNT_ALLOCATIONS:
                    trace.append(("created", created["arrays"], created["objects"]))
                return trace, "ok"   # the entry method has no return: running off the end of the code ends the program
            ins = code[ip]
            k = ins[0]
            nxt = ip + 1
            if k == "Literal":
                c = pool[ins[1]]
                stack.append(None if c[0] == "Null" else c[1])
            elif k == "GetLocal":
                stack.append(frames[-1]["locals"][ins[1]])
            elif k == "SetLocal":
                frames[-1]["locals"][ins[1]] = stack[-1]
            elif k == "GetGlobal":
                name = pool[ins[1]][1]
                if name not in globs:
                    raise Stop("unbound global " + name)
                stack.append(globs[name])
            elif k == "SetGlobal":
                globs[pool[ins[1]][1]] = stack[-1]
            elif k == "Label":
                pass
            elif k == "Jump":
                nxt = label_at[pool[ins[1]][1]]
            elif k == "Branch":
                if truthy(stack.pop()):
                    nxt = label_at[pool[ins[1]][1]]
            elif k == "Drop":
                stack.pop()
            elif k == "Array":
                init = stack.pop()
                size = stack.pop()
                if not isinstance(size, int) or isinstance(size, bool) or size < 0:
                    raise Stop("array size")
                created["arrays"] += 1
                stack.append([init] * size)
            elif k == "Object":
                members = pool[ins[1]][1]
                slots = [m for m in members if pool[m][0] == "Slot"]
                vals = [stack.pop() for _ in slots][::-1]
                parent = stack.pop()
                fields = {pool[pool[m][1]][1]: v for m, v in zip(slots, vals)}
                methods = {pool[pool[m][1]][1]: pool[m] for m in members if pool[m][0] == "Method"}
                created["objects"] += 1
                stack.append(Obj(parent, fields, methods))
            elif k == "GetField":
                o = stack.pop()
                name = pool[ins[1]][1]
                if not isinstance(o, Obj) or name not in o.fields:
                    raise Stop("field")
                stack.append(o.fields[name])
            elif k == "SetField":
                v = stack.pop()
                o = stack.pop()
                name = pool[ins[1]][1]
                if not isinstance(o, Obj) or name not in o.fields:
                    raise Stop("field")
                o.fields[name] = v
                stack.append(v)
            elif k == "Print":
                n = ins[2]
                args = [stack.pop() for _ in range(n)][::-1]
                trace.append(("print", pool[ins[1]][1], [show(a) for a in args]))
                stack.append(None)
            elif k == "CallFunction":
                name, n = pool[ins[1]][1], ins[2]
                args = [stack.pop() for _ in range(n)][::-1]
                if name.startswith("m") and name[1:].isdigit() and name not in functions:
                    trace.append(("m", int(name[1:])))
                    stack.append(choose(choices, trace, int(name[1:])))
                else:
                    mc = functions.get(name)
                    if mc is None or mc[2] != n:
                        raise Stop("function " + name)
                    nxt = enter(mc, args, ip + 1)
            elif k == "CallMethod":
                name, n = pool[ins[1]][1], ins[2]
                args = [stack.pop() for _ in range(n - 1)][::-1]
                o = stack.pop()
                recv = o
                while isinstance(recv, Obj) and name not in recv.methods:
                    recv = recv.parent
                if isinstance(recv, Obj):
                    mc = recv.methods[name]
                    if mc[2] != n:
                        raise Stop("arity")
                    nxt = enter(mc, [recv] + args, ip + 1)
                else:
                    stack.append(builtin(recv, name, args))
            elif k == "Return":
                fr = frames.pop()
                if fr["ret"] is None:
                    if COUNT_ALLOCATIONS:
                        trace.append(("created", created["arrays"], created["objects"]))
                    return trace, "ok"
                nxt = fr["ret"]
            else:
                raise Stop("instruction %r" % (ins,))
            ip = nxt
    except Stop as e:
        return trace, "stopped: %s" % e
    except (IndexError, KeyError, TypeError) as e:
        return trace, "machine fault: %r" % (e,)
