#!/usr/bin/env python3
"""C03 / C04 — whole programs with mixed constant pools and the derived label table, decided on the MIR.

Under CBMC an enum read back from a Vec that holds different variants loses its discriminant, so programs with mixed
constant pools exhaust memory there (DESIGN 2.1); the Kani harnesses cover every constant kind alone and the framing of
a program. Here `Program::serialize`, `Program::from_bytes` and everything below them (ConstantPool, ProgramObject,
OpCode, Globals, Entry, the primitive readers and writers, Code::{materialize,labels,label_addresses}, Labels::from)
run from their MIR. The *shape* of a program is concrete (which constants, which instructions, string contents); every
integer, boolean, index, arity and frame size is symbolic. The sink is a vector of byte terms, the source a cursor over
one. Three queries per shape:

  LAY  the bytes written equal, byte for byte, the documented layout produced by an independent reference encoder
       (this file, `ref_program`): little-endian fields, tags, counts, pool order, method bodies inline;
  RT   from_bytes(serialize(p)) is p: the same constants, instructions, globals and entry, all input consumed, and the
       label table maps every label name to the address of its `label` instruction;
  DEC  from_bytes(reference bytes) is p (the reader alone against the documented layout).

Counterexamples are replayed natively through `listing serialize|roundtrip <spec>`.
Output: one JSON object on stdout.
"""
import json
import os
import subprocess
import sys
import time

import z3

sys.path.insert(0, os.path.dirname(os.path.abspath(__file__)))
import mirx  # noqa: E402
import mirfmt  # noqa: E402
from mirx import BV, Bool, Enum, Ref, Str, Tup, VecV, MapV, Iter, Unit, Slice, Unsupported, deref_all, some, NONE  # noqa: E402
from mirfmt import front, FRONT  # noqa: E402

_N0 = len(FRONT)
ROOT = mirx.ROOT
SRC = ["/repo/src/bytecode/heap.rs", "/repo/src/bytecode/program.rs", "/repo/src/bytecode/bytecode.rs",
       "/repo/src/bytecode/state.rs", "/repo/src/parser/mod.rs"]


class Reader:
    """An input stream: a tuple of byte terms and a position (immutable; the cell is rewritten on every read)."""

    def __init__(self, data, pos=0):
        self.data, self.pos = tuple(data), pos


def byte(t):
    return BV(z3.simplify(t), 8, False)


def ok_unit(ex, store):
    return Enum("Result", 0, {0: [ex.world.new(store, Unit())]})


def bytes_of(ex, store, v):
    """The byte terms of an array / vector / slice value."""
    v = deref_all(store, v)
    if isinstance(v, Slice):
        v = store[v.vec_cell]
    if not isinstance(v, VecV):
        raise Unsupported("byte sequence expected, got %r" % (v,))
    out = []
    for c in v.cells:
        x = store[c]
        if not isinstance(x, BV) or x.width != 8:
            raise Unsupported("byte expected, got %r" % (x,))
        out.append(x.t)
    return out


@front(r"^<\w+ as std::io::Write>::write_all$")
def m_write_all(ex, callee, args, pc, store, depth):
    sink = args[0].cell
    data = bytes_of(ex, store, args[1])
    v = store[sink]
    store[sink] = VecV(list(v.cells) + [ex.world.new(store, byte(t)) for t in data])
    yield ("value", ok_unit(ex, store), pc, store)


@front(r"^<\w+ as std::io::Read>::read_exact$")
def m_read_exact(ex, callee, args, pc, store, depth):
    rcell = args[0].cell
    rd = store[rcell]
    buf = args[1]
    target = deref_all(store, buf)
    cell = None
    if isinstance(buf, Slice):
        cell = buf.vec_cell
    elif isinstance(buf, Ref):
        cell = buf.cell
        while isinstance(store[cell], Ref):
            cell = store[cell].cell
        if isinstance(store[cell], Slice):
            cell = store[cell].vec_cell
    if isinstance(target, Slice):
        target = store[target.vec_cell]
    if not isinstance(target, VecV) or cell is None:
        raise Unsupported("read_exact into %r" % (target,))
    n = len(target.cells)
    if rd.pos + n > len(rd.data):
        yield ("value", Enum("Result", 1, {1: [ex.world.new(store, mirx.Opaque("io error: unexpected end of input"))]}), pc, store)
        return
    store[cell] = VecV([ex.world.new(store, byte(t)) for t in rd.data[rd.pos:rd.pos + n]])
    store[rcell] = Reader(rd.data, rd.pos + n)
    yield ("value", ok_unit(ex, store), pc, store)


@front(r"^core::num::<impl (u8|u16|u32|u64|i8|i16|i32|i64|usize)>::to_le_bytes$")
def m_to_le(ex, callee, args, pc, store, depth):
    v = ex.as_bv(args[0])
    cells = [ex.world.new(store, byte(z3.Extract(8 * i + 7, 8 * i, v.t))) for i in range(v.width // 8)]
    yield ("value", VecV(cells), pc, store)


@front(r"^core::num::<impl (u8|u16|u32|u64|i8|i16|i32|i64|usize)>::from_le_bytes$")
def m_from_le(ex, callee, args, pc, store, depth):
    import re
    ty = re.search(r"<impl (\w+)>", callee).group(1)
    bs = bytes_of(ex, store, args[0])
    t = bs[0] if len(bs) == 1 else z3.Concat(*reversed(bs))
    yield ("value", BV(z3.simplify(t), 8 * len(bs), ty.startswith("i")), pc, store)


@front(r"^(std::)?vec::from_elem::<")
def m_from_elem(ex, callee, args, pc, store, depth):
    n = ex.concretize(args[1].t, pc, "vector length")
    if n is None or n > 4096:
        raise Unsupported("vec![x; n] with a length that is not concrete")
    yield ("value", VecV([ex.world.new(store, ex.world.copy_value(store, args[0])) for _ in range(n)]), pc, store)


@front(r"^(std::string::)?String::from_utf8$")
def m_from_utf8(ex, callee, args, pc, store, depth):
    bs = bytes_of(ex, store, args[0])
    vals = []
    for t in bs:
        sv = z3.simplify(t)
        if not z3.is_bv_value(sv):
            raise Unsupported("String::from_utf8 of symbolic bytes")
        vals.append(sv.as_long())
    try:
        text = bytes(vals).decode("utf-8")
    except UnicodeDecodeError:
        yield ("value", Enum("Result", 1, {1: [ex.world.new(store, mirx.Opaque("utf-8 error"))]}), pc, store)
        return
    yield ("value", Enum("Result", 0, {0: [ex.world.new(store, Str(z3.StringVal(text)))]}), pc, store)


@front(r"^core::str::<impl str>::bytes$|^str::<impl str>::bytes$")
def m_str_bytes(ex, callee, args, pc, store, depth):
    v = deref_all(store, args[0])
    sv = z3.simplify(v.t) if isinstance(v, Str) else None
    if sv is None or not z3.is_string_value(sv):
        raise Unsupported("bytes() of a string that is not concrete")
    data = mirfmt.mirx_string(sv).encode("utf-8")
    yield ("value", Iter("vec", cells=tuple(ex.world.new(store, BV(z3.BitVecVal(x, 8), 8, False)) for x in data)), pc, store)


@front(r"^(std::vec::)?Vec::<.*>::as_slice$|^(std::vec::)?Vec::<.*>::as_mut_slice$")
def m_as_slice(ex, callee, args, pc, store, depth):
    v, cell = mirx.vec_of(ex, store, args[0])
    yield ("value", Slice(cell), pc, store)


@front(r" as Iterator>::flat_map::<")
def m_flat_map(ex, callee, args, pc, store, depth):
    """flat_map with a closure that returns an Option (a filter-and-map): evaluated eagerly, the closures here are pure."""
    it, f = args[0], args[1]
    for items, pc0, st0 in ex.iter_items(it, pc, store, depth):
        def go(k, acc, pcx, stx):
            if k == len(items):
                yield ("value", Iter("vec", cells=tuple(ex.world.new(stx, v) for v in acc)), pcx, stx)
                return
            for kind, val, pcy, sty in ex.call_closure(f, [items[k]], pcx, stx, depth):
                if kind != "value":
                    yield (kind, val, pcy, sty)
                elif not isinstance(val, Enum) or not isinstance(val.disc, int):
                    raise Unsupported("flat_map closure result %r" % (val,))
                elif val.disc == 0:
                    yield from go(k + 1, acc, pcy, sty)
                else:
                    yield from go(k + 1, acc + [sty[val.payload[1][0]]], pcy, sty)
        yield from go(0, [], pc0, st0)


@front(r" as Iterator>::enumerate$")
def m_enumerate(ex, callee, args, pc, store, depth):
    for items, pcx, stx in ex.iter_items(args[0], pc, store, depth):
        pairs = [Tup([ex.world.new(stx, BV(z3.BitVecVal(i, 64), 64, False)), ex.world.new(stx, v)]) for i, v in enumerate(items)]
        yield ("value", Iter("vec", cells=tuple(ex.world.new(stx, p) for p in pairs)), pcx, stx)


@front(r" as Iterator>::zip::<")
def m_zip(ex, callee, args, pc, store, depth):
    for a, pc1, st1 in ex.iter_items(args[0], pc, store, depth):
        other = args[1]
        if isinstance(other, VecV):
            other = Iter("vec", cells=other.cells)
        for b, pc2, st2 in ex.iter_items(other, pc1, st1, depth):
            pairs = [Tup([ex.world.new(st2, x), ex.world.new(st2, y)]) for x, y in zip(a, b)]
            yield ("value", Iter("vec", cells=tuple(ex.world.new(st2, p) for p in pairs)), pc2, st2)


@front(r" as Iterator>::collect::<(std::result::)?Result<\(\), ")
def m_collect_unit_result(ex, callee, args, pc, store, depth):
    for items, pcx, stx in ex.iter_items(args[0], pc, store, depth):
        if isinstance(items, tuple) and items and items[0] == "abort":
            yield (items[1], items[2], pcx, stx)
            continue
        bad = next((v for v in items if not (isinstance(v, Enum) and v.disc == 0)), None)
        if bad is None:
            yield ("value", ok_unit(ex, stx), pcx, stx)
        elif isinstance(bad, Enum) and bad.disc == 1:
            yield ("value", Enum("Result", 1, {1: [bad.payload[1][0]]}), pcx, stx)
        else:
            raise Unsupported("collect::<Result<(), _>> of %r" % (bad,))


@front(r" as Iterator>::collect::<(std::result::)?Result<(std::collections::)?HashMap<")
def m_collect_result_map(ex, callee, args, pc, store, depth):
    for items, pcx, stx in ex.iter_items(args[0], pc, store, depth):
        if isinstance(items, tuple) and items and items[0] == "abort":
            yield (items[1], items[2], pcx, stx)
            continue
        entries = []
        failed = None
        for v in items:
            if not isinstance(v, Enum) or not isinstance(v.disc, int):
                raise Unsupported("collect::<Result<HashMap>> item %r" % (v,))
            if v.disc == 1:
                failed = v
                break
            pair = stx[v.payload[0][0]]
            key = mirx.concrete_key(deref_all(stx, stx[pair.cells[0]]))
            entries = [(k, c) for k, c in entries if k != key] + [(key, pair.cells[1])]
        if failed is not None:
            yield ("value", Enum("Result", 1, {1: [failed.payload[1][0]]}), pcx, stx)
        else:
            yield ("value", Enum("Result", 0, {0: [ex.world.new(stx, MapV(entries))]}), pcx, stx)


@front(r"Result::<.*>::expect$")
def m_result_expect(ex, callee, args, pc, store, depth):
    r = args[0]
    if not isinstance(r, Enum) or not isinstance(r.disc, int):
        raise Unsupported("expect on %r" % (r,))
    if r.disc == 0:
        yield ("value", store[r.payload[0][0]], pc, store)
    else:
        yield ("panic", "Result::expect on Err", pc, store)


mirx.MODELS.table[:0] = FRONT[_N0:]


# ---------------------------------------------------------------------------------------------------------------
# program shapes and the reference encoder (written from the documented layout)

def sym(name, width):
    return z3.BitVec(name, width)


class Shape:
    """consts: list of tuples with z3 terms for payloads; ops: global code vector; methods own [start, start+len)."""

    def __init__(self, name, consts, ops, globals_, entry):
        self.name, self.consts, self.ops, self.globals, self.entry = name, consts, ops, globals_, entry


OPS = {"Label": 0x00, "Literal": 0x01, "Print": 0x02, "Array": 0x03, "Object": 0x04, "GetField": 0x05, "SetField": 0x06, "CallMethod": 0x07,
       "CallFunction": 0x08, "SetLocal": 0x09, "GetLocal": 0x0A, "SetGlobal": 0x0B, "GetGlobal": 0x0C, "Branch": 0x0D, "Jump": 0x0E, "Return": 0x0F, "Drop": 0x10}
TWO_OPERANDS = ("Print", "CallMethod", "CallFunction")


def le(t, width):
    return [z3.simplify(z3.Extract(8 * i + 7, 8 * i, t)) for i in range(width // 8)]


def cst(v, width):
    return z3.BitVecVal(v, width)


def ref_op(op):
    out = [cst(OPS[op[0]], 8)]
    if len(op) >= 2:
        out += le(op[1], 16)
    if op[0] in TWO_OPERANDS:
        out += [z3.simplify(op[2])]
    return out


def ref_const(c, ops):
    k = c[0]
    if k == "Integer":
        return [cst(0, 8)] + le(c[1], 32)
    if k == "Null":
        return [cst(1, 8)]
    if k == "String":
        data = c[1].encode("utf-8")
        return [cst(2, 8)] + le(cst(len(data), 32), 32) + [cst(x, 8) for x in data]
    if k == "Method":
        _, name, params, locals_, start, length = c
        out = [cst(3, 8)] + le(name, 16) + [z3.simplify(params)] + le(locals_, 16) + le(cst(length, 32), 32)
        for op in ops[start:start + length]:
            out += ref_op(op)
        return out
    if k == "Slot":
        return [cst(4, 8)] + le(c[1], 16)
    if k == "Class":
        out = [cst(5, 8)] + le(cst(len(c[1]), 16), 16)
        for mref in c[1]:
            out += le(mref, 16)
        return out
    if k == "Boolean":
        return [cst(6, 8), z3.If(c[1], cst(1, 8), cst(0, 8))]
    raise ValueError(k)


def ref_program(sh):
    out = le(cst(len(sh.consts), 16), 16)
    for c in sh.consts:
        out += ref_const(c, sh.ops)
    out += le(cst(len(sh.globals), 16), 16)
    for g in sh.globals:
        out += le(g, 16)
    out += le(sh.entry, 16)
    return out


def shapes():
    S = []
    i1, b1, k1, k2, k3 = sym("i1", 32), z3.Bool("b1"), sym("k1", 16), sym("k2", 16), sym("k3", 16)
    a1, l1, g1, g2, e1 = sym("a1", 8), sym("l1", 16), sym("g1", 16), sym("g2", 16), sym("e1", 16)
    r1, r2 = sym("r1", 8), sym("r2", 8)
    # one of every constant kind; a method with a label in its body; globals; entry
    ops = [("Literal", k1), ("Label", cst(7, 16)), ("Print", k2, r1), ("Return",)]
    consts = [("String", "main"), ("Integer", i1), ("Boolean", b1), ("Null",), ("Slot", k3),
              ("Method", cst(0, 16), a1, l1, 0, 4), ("Class", [sym("m1", 16), sym("m2", 16)]), ("String", "L:0")]
    S.append(Shape("every-kind", consts, ops, [g1, g2], e1))
    # two methods with disjoint code, two labels, a jump and a branch; the same string constant twice
    ops = [("Label", cst(0, 16)), ("Jump", cst(0, 16)), ("Return",), ("GetLocal", k1), ("Label", cst(3, 16)), ("Branch", cst(3, 16)), ("CallMethod", k2, r1), ("Drop",), ("Return",)]
    consts = [("String", "a"), ("Method", cst(0, 16), a1, l1, 0, 3), ("String", "a"), ("String", "bé"), ("Method", cst(3, 16), r2, sym("l2", 16), 3, 6), ("Integer", i1), ("Integer", i1),
              ("Class", [sym("m1", 16), sym("m2", 16), sym("m3", 16)])]
    S.append(Shape("two-methods", consts, ops, [g1], e1))
    # every instruction kind once, in one method; no globals
    k = [sym("o%d" % i, 16) for i in range(12)]
    ops = [("Label", cst(0, 16)), ("Literal", k[0]), ("Print", k[1], r1), ("Array",), ("Object", k[2]), ("GetField", k[3]), ("SetField", k[4]), ("CallMethod", k[5], r2),
           ("CallFunction", k[6], sym("r3", 8)), ("SetLocal", k[7]), ("GetLocal", k[8]), ("SetGlobal", k[9]), ("GetGlobal", k[10]), ("Branch", cst(0, 16)), ("Jump", cst(0, 16)),
           ("Return",), ("Drop",)]
    # a class that lists its method before its slot, and one that repeats a member
    consts = [("String", "l"), ("Method", cst(0, 16), a1, l1, 0, 17), ("Null",), ("Boolean", b1), ("Slot", cst(0, 16)),
              ("Class", [cst(1, 16), cst(4, 16)]), ("Class", [cst(4, 16), cst(1, 16), cst(4, 16)])]
    S.append(Shape("every-instruction", consts, ops, [], e1))
    # empty program parts
    S.append(Shape("empty-pool", [], [], [], e1))
    S.append(Shape("empty-method-and-class", [("Method", k1, a1, l1, 0, 0), ("Class", []), ("String", "")], [], [g1], e1))
    return S


# ---------------------------------------------------------------------------------------------------------------
# building a program value / reading one back

PO = ["Integer", "Boolean", "Null", "String", "Slot", "Method", "Class"]


class Build:
    def __init__(self, ex, store, enums, structs):
        self.ex, self.store, self.enums, self.structs = ex, store, enums, structs

    def new(self, v):
        return self.ex.world.new(self.store, v)

    def nt(self, adt, t, width):
        return Tup([self.new(BV(t, width, False))], adt)

    def op(self, op):
        idx = self.enums["OpCode"].index(op[0])
        fields = OPFIELDS[op[0]]
        cells = []
        for (fname, fty), t in zip(fields, op[1:]):
            cells.append(self.new(self.nt(fty, t, 8 if fty == "Arity" else 16)))
        return Enum("OpCode", idx, {idx: cells} if cells else {})

    def const(self, c):
        k = c[0]
        idx = PO.index(k)
        if k == "Integer":
            cells = [self.new(BV(c[1], 32, True))]
        elif k == "Boolean":
            cells = [self.new(Bool(c[1]))]
        elif k == "Null":
            cells = []
        elif k == "String":
            cells = [self.new(Str(z3.StringVal(c[1])))]
        elif k == "Slot":
            cells = [self.new(self.nt("ConstantPoolIndex", c[1], 16))]
        elif k == "Method":
            _, name, params, locals_, start, length = c
            rng = Tup([self.new({"start": self.nt("Address", cst(start, 32), 32), "length": BV(cst(length, 64), 64, False)}[f]) for f in self.structs["AddressRange"]], "AddressRange")
            by = {"name": self.nt("ConstantPoolIndex", name, 16), "parameters": self.nt("Arity", params, 8), "locals": self.nt("Size", locals_, 16), "code": rng}
            cells = [self.new(by[f]) for f in METHOD_FIELDS]
        else:
            cells = [self.new(VecV([self.new(self.nt("ConstantPoolIndex", m, 16)) for m in c[1]]))]
        return Enum("ProgramObject", idx, {idx: cells} if cells else {})

    def program(self, sh):
        fields = {"constant_pool": Tup([self.new(VecV([self.new(self.const(c)) for c in sh.consts]))], "ConstantPool"),
                  "labels": Tup([self.new(MapV([]))], "Labels"),
                  "code": Tup([self.new(VecV([self.new(self.op(o)) for o in sh.ops]))], "Code"),
                  "globals": Tup([self.new(VecV([self.new(self.nt("ConstantPoolIndex", g, 16)) for g in sh.globals]))], "Globals"),
                  "entry": Tup([self.new(Enum("Option", 1, {1: [self.new(self.nt("ConstantPoolIndex", sh.entry, 16))]}))], "Entry")}
        return Tup([self.new(fields[f]) for f in self.structs["Program"]], "Program")


OPFIELDS = {}
METHOD_FIELDS = []


def read_layouts():
    import c17_listing
    c17_listing.read_variant_fields()
    OPFIELDS.update(c17_listing.OPCODE_FIELDS)
    METHOD_FIELDS[:] = c17_listing.METHOD_FIELDS


def leaf(store, v):
    v = deref_all(store, v)
    while isinstance(v, Tup) and len(v.cells) == 1:
        v = deref_all(store, store[v.cells[0]])
    return v


def decoded_equals(store, prog, sh, structs, enums):
    """(z3 formula | None, text): the decoded program value equals the shape's program; structure mismatches are reported as text."""
    pf = dict(zip(structs["Program"], prog.cells))
    vec = lambda c: store[store[c].cells[0]]
    conj = []
    pool = vec(pf["constant_pool"])
    if len(pool.cells) != len(sh.consts):
        return z3.BoolVal(False), "decoded pool has %d constants, %d expected" % (len(pool.cells), len(sh.consts))
    # methods append their bodies to the code vector in pool order: the expected code and ranges follow from that
    expected_ops, starts = [], {}
    for i, c in enumerate(sh.consts):
        if c[0] == "Method":
            starts[i] = len(expected_ops)
            expected_ops += sh.ops[c[4]:c[4] + c[5]]
    for i, (cell, c) in enumerate(zip(pool.cells, sh.consts)):
        e = store[cell]
        if not isinstance(e.disc, int) or PO[e.disc] != c[0]:
            return z3.BoolVal(False), "constant %d decodes to a %s, %s expected" % (i, PO[e.disc] if isinstance(e.disc, int) else "?", c[0])
        pl = [store[x] for x in e.payload.get(e.disc, ())]
        if c[0] == "Integer":
            conj.append(leaf(store, pl[0]).t == c[1])
        elif c[0] == "Boolean":
            conj.append(leaf(store, pl[0]).t == c[1])
        elif c[0] == "String":
            conj.append(leaf(store, pl[0]).t == z3.StringVal(c[1]))
        elif c[0] == "Slot":
            conj.append(leaf(store, pl[0]).t == c[1])
        elif c[0] == "Class":
            members = leaf(store, pl[0])
            if len(members.cells) != len(c[1]):
                return z3.BoolVal(False), "class constant %d decodes to %d members" % (i, len(members.cells))
            conj += [leaf(store, store[x]).t == m for x, m in zip(members.cells, c[1])]
        elif c[0] == "Method":
            f = dict(zip(METHOD_FIELDS, pl))
            conj += [leaf(store, f["name"]).t == c[1], leaf(store, f["parameters"]).t == c[2], leaf(store, f["locals"]).t == c[3]]
            rng = dict(zip(structs["AddressRange"], [store[x] for x in deref_all(store, f["code"]).cells]))
            conj += [leaf(store, rng["start"]).t == starts[i], leaf(store, rng["length"]).t == c[5]]
    code = vec(pf["code"])
    if len(code.cells) != len(expected_ops):
        return z3.BoolVal(False), "decoded code has %d instructions, %d expected" % (len(code.cells), len(expected_ops))
    for a, (cell, op) in enumerate(zip(code.cells, expected_ops)):
        e = store[cell]
        if not isinstance(e.disc, int) or enums["OpCode"][e.disc] != op[0]:
            return z3.BoolVal(False), "instruction %d decodes to %s, %s expected" % (a, enums["OpCode"][e.disc] if isinstance(e.disc, int) else "?", op[0])
        conj += [leaf(store, store[x]).t == t for x, t in zip(e.payload.get(e.disc, ()), op[1:])]
    globs = vec(pf["globals"])
    if len(globs.cells) != len(sh.globals):
        return z3.BoolVal(False), "decoded globals: %d, %d expected" % (len(globs.cells), len(sh.globals))
    conj += [leaf(store, store[x]).t == g for x, g in zip(globs.cells, sh.globals)]
    entry = store[store[pf["entry"]].cells[0]]
    if not isinstance(entry, Enum) or entry.disc != 1:
        return z3.BoolVal(False), "decoded entry is unset"
    conj.append(leaf(store, store[entry.payload[1][0]]).t == sh.entry)
    # the label table: every `label` instruction's name constant -> its address in the decoded code
    labels = store[store[pf["labels"]].cells[0]]
    want = {}
    for a, op in enumerate(expected_ops):
        if op[0] == "Label":
            idx = z3.simplify(op[1])
            if not z3.is_bv_value(idx) or sh.consts[idx.as_long()][0] != "String":
                return None, "label operand is not a concrete reference to a string constant"
            want[sh.consts[idx.as_long()][1]] = a
    if not isinstance(labels, MapV):
        return None, "label table is not a map value"
    got = {}
    for k, c in labels.entries:
        v = leaf(store, store[c])
        sv = z3.simplify(v.t)
        got[mirfmt.mirx_string(z3.StringVal(k)) if False else k] = sv.as_long() if z3.is_bv_value(sv) else None
    if got != want:
        return z3.BoolVal(False), "label table %r, %r expected" % (got, want)
    return z3.And(*conj) if conj else z3.BoolVal(True), "equal"


# ---------------------------------------------------------------------------------------------------------------

_EXE = {}


def native(argv):
    if "exe" not in _EXE:
        d = os.path.join(ROOT, "replay")
        b = subprocess.run(["cargo", "build", "--offline", "--bin", "listing"], cwd=d, env=dict(os.environ, CARGO_NET_OFFLINE="true"),
                           stdout=subprocess.PIPE, stderr=subprocess.STDOUT, text=True)
        _EXE["exe"] = os.path.join(d, "target", "debug", "listing") if b.returncode == 0 else None
    if _EXE["exe"] is None:
        return "replay binary did not build"
    r = subprocess.run([_EXE["exe"]] + argv, stdout=subprocess.PIPE, stderr=subprocess.DEVNULL, text=True)
    return r.stdout.strip()


def spec_of(sh, model):
    ev = lambda t: model.eval(t, model_completion=True)
    parts = []
    for c in sh.consts:
        k = c[0]
        if k == "Integer":
            parts.append("c=Integer:%d" % ev(c[1]).as_signed_long())
        elif k == "Boolean":
            parts.append("c=Boolean:%d" % (1 if z3.is_true(ev(c[1])) else 0))
        elif k == "Null":
            parts.append("c=Null")
        elif k == "String":
            parts.append("c=String:" + c[1].encode("utf-8").hex())
        elif k == "Slot":
            parts.append("c=Slot:%d" % ev(c[1]).as_long())
        elif k == "Method":
            parts.append("c=Method:%d:%d:%d:%d:%d" % (ev(c[1]).as_long(), ev(c[2]).as_long(), ev(c[3]).as_long(), c[4], c[5]))
        else:
            parts.append("c=Class:" + ",".join(str(ev(m).as_long()) for m in c[1]))
    parts += ["g=%d" % ev(g).as_long() for g in sh.globals]
    parts.append("e=%d" % ev(sh.entry).as_long())
    for op in sh.ops:
        parts.append("o=" + ":".join([op[0]] + [str(ev(t).as_long()) for t in op[1:]]))
    return "/".join(parts)


def main():
    t0 = time.time()
    res = {"name": "c03_serial_mir", "queries": 0, "discharged": 0, "nontrivial": 0, "violations": [], "inconclusive": [], "samples": [], "paths": 0, "solver_s": 0.0}
    which = sys.argv[1] if len(sys.argv) > 1 else "all"    # C03: RT; C04: LAY + DEC
    try:
        bodies = mirx.parse_mir(mirx.dump_mir())
        enums, structs = mirx.parse_adts(SRC)
        read_layouts()
    except Exception as e:
        res["inconclusive"].append("MIR dump / parse failed: %s" % str(e)[-600:])
        print(json.dumps(res))
        return
    ser = mirfmt.trait_impl_body(mirx.Executor(bodies, enums, structs), "program::Program", "Serializable", "serialize", 2)
    de = next((b for k, b in bodies.items() if k.endswith("::from_bytes") and len(b.params) == 1 and b.ret.endswith("Program")), None)
    if ser is None or de is None:
        res["inconclusive"].append("Program::serialize / Program::from_bytes not found in the MIR dump")
        print(json.dumps(res))
        return

    def solve(cs):
        s = z3.Solver()
        s.set("timeout", 120000)
        s.add(*cs)
        t = time.time()
        r = s.check()
        res["solver_s"] += time.time() - t
        res["queries"] += 1
        return r, (s.model() if r == z3.sat else None)

    def report(sh, what, model, mode):
        spec = spec_of(sh, model)
        out = native([mode, spec])
        if mode == "serialize":
            expected = "".join("%02x" % model.eval(t, model_completion=True).as_long() for t in ref_program(sh))
        else:
            ops, want = [], {}
            for c in sh.consts:
                if c[0] == "Method":
                    ops += sh.ops[c[4]:c[4] + c[5]]
            for a_, op in enumerate(ops):
                if op[0] == "Label":
                    want[sh.consts[z3.simplify(op[1]).as_long()][1]] = a_
            expected = "SAME labels=" + ",".join("%s@%d" % (n.encode("utf-8").hex(), want[n]) for n in sorted(want))
        reproduced = out != expected
        rec = {"id": "%s-%s-%d" % (sh.name, mode, len(res["violations"])), "what": "%s: %s" % (sh.name, what), "reproduced": reproduced, "replay_bin": "listing",
               "replay_argv": [mode, spec], "expected": expected[:200], "observed": out[:200]}
        if reproduced:
            res["violations"].append(rec)
        else:
            res["inconclusive"].append("%s: %s — not reproduced natively (%s)" % (sh.name, what, out[:100]))

    def decode(ex, b, store, data, label, sh):
        """Runs Program::from_bytes on the byte terms; yields (outcome, formula, text)."""
        rcell = ex.world.new(store, Reader(data))
        for o in ex.run(de, [Ref(rcell)], [], store):
            res["paths"] += 1
            if o.kind != "return":
                yield o, z3.BoolVal(False), "%s: the reader %s (%s)" % (label, o.kind, o.msg)
                continue
            rd = o.store[rcell]
            if rd.pos != len(rd.data):
                yield o, z3.BoolVal(False), "%s: %d of %d bytes consumed" % (label, rd.pos, len(rd.data))
                continue
            f, text = decoded_equals(o.store, o.value, sh, structs, enums)
            yield o, f, "%s: %s" % (label, text)

    for sh in shapes():
        ex = mirx.Executor(bodies, enums, structs, max_depth=60, loop_bound=64)
        store = {}
        b = Build(ex, store, enums, structs)
        try:
            prog_cell = b.new(b.program(sh))
            sink = b.new(VecV([]))
            outs = list(ex.run(ser, [Ref(prog_cell), Ref(sink)], [], store))
        except (Unsupported, KeyError, AttributeError, TypeError, IndexError) as e:
            res["inconclusive"].append("%s: serialize: MIR construct outside the executor: %r; opaque calls: %s" % (sh.name, e, sorted(ex.unmodelled)[:4]))
            continue
        reference = ref_program(sh)
        for o in outs:
            res["paths"] += 1
            if o.kind != "return" or not (isinstance(o.value, Enum) and o.value.disc == 0):
                r, m = solve(o.pc)
                if r == z3.sat:
                    report(sh, "serialize fails (%s %s)" % (o.kind, o.msg), m, "serialize")
                continue
            written = bytes_of(ex, o.store, Ref(sink))
            if which in ("all", "C04"):
                if len(written) != len(reference):
                    r, m = solve(o.pc)
                    if r == z3.sat:
                        report(sh, "%d bytes written, the documented layout has %d" % (len(written), len(reference)), m, "serialize")
                    continue
                r, m = solve(list(o.pc) + [z3.Or([w != x for w, x in zip(written, reference)])] if written else list(o.pc) + [z3.BoolVal(False)])
                if r == z3.unsat:
                    res["discharged"] += 1
                elif r == z3.sat:
                    report(sh, "the bytes written differ from the documented layout", m, "serialize")
                else:
                    res["inconclusive"].append("%s: layout query: z3 answered %s" % (sh.name, r))
            sources = []
            if which in ("all", "C03"):
                sources.append(("round trip", written, o.pc))
            if which in ("all", "C04"):
                sources.append(("reference bytes", reference, []))
            for label, data, pc0 in sources:
                try:
                    for o2, f, text in decode(ex, b, dict(o.store), data, label, sh):
                        if f is None:
                            res["inconclusive"].append("%s: %s" % (sh.name, text))
                            continue
                        r, m = solve(list(pc0) + list(o2.pc) + [z3.Not(f)])
                        if r == z3.unsat:
                            res["discharged"] += 1
                        elif r == z3.sat:
                            report(sh, text, m, "roundtrip")
                        else:
                            res["inconclusive"].append("%s: %s: z3 answered %s" % (sh.name, text, r))
                except (Unsupported, KeyError, AttributeError, TypeError, IndexError) as e:
                    res["inconclusive"].append("%s: %s: MIR construct outside the executor: %r; opaque calls: %s" % (sh.name, label, e, sorted(ex.unmodelled)[:4]))
        res["queries"] += ex.queries
        res["solver_s"] += ex.solver_seconds
        res["samples"].append({"shape": sh.name, "constants": len(sh.consts), "instructions": len(sh.ops), "bytes": len(reference)})
    res["nontrivial"] = res["discharged"]
    res["solver_s"] = round(res["solver_s"], 2)
    res["wall_s"] = round(time.time() - t0, 1)
    res["bound"] = ("5 program shapes with mixed constant pools (every constant kind together; two methods with labels, jump, branch and a repeated string; all 17 "
                    "instruction kinds in one method; empty pool; empty method and class); every integer, boolean, index, arity, frame size, global and entry symbolic; "
                    "string contents and counts concrete")
    print(json.dumps(res))


if __name__ == "__main__":
    main()
