#!/usr/bin/env python3
"""C15 / C10 — `print` with arguments and the rendering of values, decided on the MIR of eval_print.

CBMC cannot hold prints with arguments: the popped argument's kind is unknown to it and rendering explores the whole
recursive renderer (12 GB with one concrete integer). Here eval_print, Pointer / HeapObject / ArrayInstance /
ObjectInstance::evaluate_as_string and OperandStack::pop_reverse_sequence run from their MIR. The format string and
the heap's *shape* are concrete (the bound), every argument and every leaf value in the heap is a symbolic Pointer
(null / integer / boolean / reference to any cell). The output sink is a token list: `write_char` / `write_str`
append literal text or one token per rendered integer / boolean carrying its z3 term (smt/mirfmt.py).

Per path one z3 query: the path's verdict and output must equal the property's definition —
  * the count of unescaped `~` equals the argument count and every escape is one of \\n \\t \\r \\\\ \\" \\~, else the
    print fails and nothing at all has been written;
  * otherwise the output is the format string with escapes decoded, other characters unchanged and the k-th `~`
    replaced by the rendering of the k-th argument in push order: null, true / false, the decimal integer,
    [e1, e2, ...] for arrays, object(..=parent, f=v, ...) with fields in lexicographic order and the parent part
    omitted when null, recursively; the arguments are popped, null is pushed, the instruction pointer advances;
plus a covering query per shape. Counterexamples are replayed natively (`vmstep print`).
Output: one JSON object on stdout.
"""
import json
import os
import sys
import time

import z3

sys.path.insert(0, os.path.dirname(os.path.abspath(__file__)))
import mirx  # noqa: E402
import mirfmt  # noqa: E402
from mirx import BV, Bool, Enum, Ref, Str, Tup, VecV, MapV, Iter, Unit, Unsupported, deref_all  # noqa: E402
from mirfmt import FmtOut, front, FRONT  # noqa: E402
import vm_kernels as vk  # noqa: E402
from vm_kernels import Builder, K_NULL, K_INT, K_BOOL, K_REF, pointer_terms, field, native, model_pointer  # noqa: E402

_N0 = len(FRONT)
CODE_LEN = 6


def ok_unit(ex, store):
    return Enum("Result", 0, {0: [ex.world.new(store, Unit())]})


def as_tokens(v):
    """Tokens of a string value: a token list stays, a z3 string becomes one literal / string token."""
    if isinstance(v, FmtOut):
        return v.tokens
    if isinstance(v, Str):
        sv = z3.simplify(v.t)
        return (("lit", mirfmt.mirx_string(sv)),) if z3.is_string_value(sv) else (("str", v, "plain"),)
    raise Unsupported("string value expected, got %r" % (v,))


@front(r"^core::str::<impl str>::chars$|^str::<impl str>::chars$")
def m_chars(ex, callee, args, pc, store, depth):
    v = deref_all(store, args[0])
    sv = z3.simplify(v.t) if isinstance(v, Str) else None
    if sv is None or not z3.is_string_value(sv):
        raise Unsupported("chars() of a string that is not concrete")
    cells = tuple(ex.world.new(store, BV(z3.BitVecVal(ord(ch), 32), 32, False)) for ch in mirfmt.mirx_string(sv))
    yield ("value", Iter("vec", cells=cells), pc, store)


@front(r"^core::str::<impl str>::matches::<(char|&str)>$|^str::<impl str>::matches::<(char|&str)>$")
def m_str_matches(ex, callee, args, pc, store, depth):
    """str::matches on a concrete string and pattern: the non-overlapping occurrences, left to right."""
    v, pat = deref_all(store, args[0]), deref_all(store, args[1])
    sv, pv = (z3.simplify(x.t) if isinstance(x, Str) else None for x in (v, pat))
    if sv is None or pv is None or not z3.is_string_value(sv) or not z3.is_string_value(pv):
        raise Unsupported("matches() on strings that are not concrete")
    text, needle = mirfmt.mirx_string(sv), mirfmt.mirx_string(pv)
    n = text.count(needle) if needle else 0
    yield ("value", Iter("vec", cells=tuple(ex.world.new(store, Str(z3.StringVal(needle))) for _ in range(n))), pc, store)


@front(r" as Iterator>::count$")
def m_iter_count(ex, callee, args, pc, store, depth):
    for items, pcx, stx in ex.iter_items(args[0], pc, store, depth):
        yield ("value", BV(z3.BitVecVal(len(items), 64), 64, False), pcx, stx)


@front(r"^<\w+ as std::fmt::Write>::write_char$")
def m_write_char(ex, callee, args, pc, store, depth):
    out = args[0].cell
    c = deref_all(store, args[1])
    if isinstance(c, BV):
        sv = z3.simplify(c.t)
        if not z3.is_bv_value(sv):
            raise Unsupported("write_char of a symbolic character")
        text = chr(sv.as_long())
    elif isinstance(c, Str):
        text = mirfmt.mirx_string(z3.simplify(c.t))
    else:
        raise Unsupported("write_char(%r)" % (c,))
    store[out] = FmtOut(store[out].tokens + (("lit", text),))
    yield ("value", ok_unit(ex, store), pc, store)


@front(r"^<\w+ as std::fmt::Write>::write_str$")
def m_write_str(ex, callee, args, pc, store, depth):
    out = args[0].cell
    store[out] = FmtOut(store[out].tokens + as_tokens(deref_all(store, args[1])))
    yield ("value", ok_unit(ex, store), pc, store)


@front(r"^format$|^std::fmt::format$|^alloc::fmt::format$")
def m_format_tokens(ex, callee, args, pc, store, depth):
    """`format!` to a token list (the text of error messages is built the same way and never inspected)."""
    fa = args[0]
    if not isinstance(fa, mirfmt.FmtArgs):
        raise Unsupported("format(%r)" % (fa,))
    out = ex.world.new(store, FmtOut())
    try:
        results = list(mirfmt.m_write_fmt(ex, "Formatter::<'_>::write_fmt", [Ref(out), fa], pc, store, depth))
    except Unsupported:
        yield ("value", mirx.Opaque("message text"), pc, store)   # e.g. `{}` of a char in an error message
        return
    for r in results:
        if r[0] == "value":
            yield ("value", r[3][out], r[2], r[3])
        else:
            yield r


@front(r"^must_use::<|^std::hint::must_use::<|^core::hint::must_use::<")
def m_must_use(ex, callee, args, pc, store, depth):
    yield ("value", args[0], pc, store)


@front(r"^(std::string::)?String::as_str$|^<(std::string::)?String as (std::ops::)?Deref>::deref$")
def m_string_view(ex, callee, args, pc, store, depth):
    yield ("value", deref_all(store, args[0]), pc, store)


@front(r"<impl \[(std::string::)?String\]>::join::<&str>$")
def m_join_any(ex, callee, args, pc, store, depth):
    v, _ = mirx.vec_of(ex, store, args[0])
    sep = mirfmt.mirx_string(z3.simplify(deref_all(store, args[1]).t))
    toks = ()
    for i, c in enumerate(v.cells):
        if i:
            toks += (("lit", sep),)
        toks += as_tokens(store[c])
    yield ("value", FmtOut(toks), pc, store)


@front(r"<impl \[.*\]>::sort_by_key::<")
def m_sort_by_key(ex, callee, args, pc, store, depth):
    """sort_by_key with a key closure whose keys are concrete strings (field names): a stable sort of the cells."""
    v, cell = mirx.vec_of(ex, store, args[0])
    keys = []
    for c in v.cells:
        res = list(ex.call_closure(args[1], [Ref(c)], pc, store, depth))
        if len(res) == 1 and res[0][0] == "panic":
            yield res[0]
            return
        if len(res) != 1 or res[0][0] != "value":
            raise Unsupported("sort key closure forks")
        k = deref_all(res[0][3], res[0][1])
        sv = z3.simplify(k.t) if isinstance(k, Str) else None
        if sv is None or not z3.is_string_value(sv):
            raise Unsupported("sort key is not a concrete string")
        keys.append(mirfmt.mirx_string(sv))
    order = sorted(range(len(keys)), key=lambda i: keys[i])
    store[cell] = VecV([v.cells[i] for i in order])
    yield ("value", Unit(), pc, store)


@front(r"^(core::)?slice::<impl \[(std::string::)?String\]>::sort$|^(core::)?slice::<impl \[(std::string::)?String\]>::sort_unstable$")
def m_sort_rendered(ex, callee, args, pc, store, depth):
    """Sorting strings that are token lists: decided by their leading literal text when that differs before either ends."""
    v, cell = mirx.vec_of(ex, store, args[0])
    keys = []
    for c in v.cells:
        toks = merge(as_tokens(store[c]))
        whole = all(t[0] == "lit" for t in toks)
        keys.append(("".join(t[1] for t in toks) if whole else (toks[0][1] if toks and toks[0][0] == "lit" else ""), whole))
    import functools

    def cmp(i, j):
        (a, wa), (b_, wb) = keys[i], keys[j]
        n = min(len(a), len(b_))
        if a[:n] != b_[:n]:
            return -1 if a[:n] < b_[:n] else 1
        if wa and wb:
            return (len(a) > len(b_)) - (len(a) < len(b_))
        if (wa and len(a) <= len(b_)) or (wb and len(b_) <= len(a)):
            return -1 if len(a) < len(b_) or (wa and not wb) else 1
        raise Unsupported("sort of strings whose order depends on symbolic text")
    order = sorted(range(len(keys)), key=functools.cmp_to_key(cmp))
    store[cell] = VecV([v.cells[i] for i in order])
    yield ("value", Unit(), pc, store)


mirx.MODELS.table[:0] = FRONT[_N0:]


# ---------------------------------------------------------------------------------------------------------------
# the property's definition of the output, as tokens

def merge(tokens):
    out = []
    for t in tokens:
        if t[0] == "lit":
            if t[1] == "":
                continue
            if out and out[-1][0] == "lit":
                out[-1] = ("lit", out[-1][1] + t[1])
                continue
        out.append(t)
    return out


class Heap:
    """The concrete shape of the heap: cells are ("array", [leaf names]) or ("object", parent leaf name, [(field, leaf name)])."""

    def __init__(self, cells):
        self.cells = cells


def kind_under(solver, pc, k):
    """The kind a symbolic Pointer has on a path (None if the path does not determine it)."""
    found = []
    for kind in (K_NULL, K_INT, K_BOOL, K_REF):
        solver.push()
        solver.add(*pc)
        solver.add(k == kind)
        if solver.check() == z3.sat:
            found.append(kind)
        solver.pop()
    return found[0] if len(found) == 1 else None


def ref_under(solver, pc, r, n):
    found = []
    for i in range(n):
        solver.push()
        solver.add(*pc)
        solver.add(r == i)
        if solver.check() == z3.sat:
            found.append(i)
        solver.pop()
    return found[0] if len(found) == 1 else None


CYCLIC = "cyclic"


def render(solver, pc, syms, heap, name, depth=0, visiting=()):
    """Tokens the property prescribes for the Pointer `name` (None: the path leaves a needed kind open; CYCLIC: the value reaches
    itself, so it has no finite rendering and the property prescribes none)."""
    if depth > 8:
        return None
    k, i, b, r = syms[name]
    kind = kind_under(solver, pc, k)
    if kind is None:
        return None
    if kind == K_NULL:
        return [("lit", "null")]
    if kind == K_INT:
        return [("int", i)]
    if kind == K_BOOL:
        return [("bool", b)]
    idx = ref_under(solver, pc, r, len(heap.cells))
    if idx is None:
        return None
    if idx in visiting:
        return CYCLIC
    visiting = visiting + (idx,)
    cell = heap.cells[idx]
    if cell[0] == "array":
        toks = [("lit", "[")]
        for n, leaf in enumerate(cell[1]):
            if n:
                toks.append(("lit", ", "))
            sub = render(solver, pc, syms, heap, leaf, depth + 1, visiting)
            if sub is None or sub is CYCLIC:
                return sub
            toks += sub
        return toks + [("lit", "]")]
    _, parent, fields = cell
    parts = []
    pk = kind_under(solver, pc, syms[parent][0])
    if pk is None:
        return None
    if pk != K_NULL:
        sub = render(solver, pc, syms, heap, parent, depth + 1, visiting)
        if sub is None or sub is CYCLIC:
            return sub
        parts.append([("lit", "..=")] + sub)
    for fname, leaf in sorted(fields):
        sub = render(solver, pc, syms, heap, leaf, depth + 1, visiting)
        if sub is None or sub is CYCLIC:
            return sub
        parts.append([("lit", fname + "=")] + sub)
    toks = [("lit", "object(")]
    for n, part in enumerate(parts):
        if n:
            toks.append(("lit", ", "))
        toks += part
    return toks + [("lit", ")")]


def scan_format(fmt):
    """(valid, placeholders, pieces): pieces are literal text and None for a placeholder, escapes decoded."""
    pieces, cur, count, i = [], "", 0, 0
    esc = {"n": "\n", "t": "\t", "r": "\r", "\\": "\\", '"': '"', "~": "~"}
    while i < len(fmt):
        c = fmt[i]
        if c == "\\":
            if i + 1 >= len(fmt):
                return None, count, pieces      # a lone trailing backslash: not decided (DESIGN 4.1)
            if fmt[i + 1] not in esc:
                return False, count, pieces
            cur += esc[fmt[i + 1]]
            i += 2
            continue
        if c == "~":
            pieces.append(cur)
            pieces.append(None)
            cur = ""
            count += 1
        else:
            cur += c
        i += 1
    pieces.append(cur)
    return True, count, pieces


TERMINATES = "any line OK .. / ERR out= (the value reaches itself: only termination without a native crash is prescribed)"
# graph mode: which leaves may be references, and to how many of the first cells
N_CELLS = 5
REPLAYED = [0]
GRAPH_LEAVES = {"graph": {"e0": 2, "f0": 2, "p1": 2}, "graph-thorough": {"e0": 5, "e1": 2, "f0": 5, "f1": 2, "p1": 5}}

FORMATS = [("~", 1), ("a\\\\~b", 1), ("\\\\~", 0), ("a~b~c", 2), ("~~", 2), ("\\~~\\n", 1), ("x", 0), ("", 0), ("~", 0), ("~~", 1), ("x", 1), ("~", 2), ("\\q~", 1), ("~\\q", 1),
           ("é~世", 1), ("\\\"~\\\\~\\t\\r", 2), ("~, ~, ~", 3), ("~ ~", 3)]


def main():
    t0 = time.time()
    task = vk.Task()
    task.result["name"] = "c15_print_mir"
    res = task.result
    try:
        bodies = mirx.parse_mir(mirx.dump_mir())
        enums, structs = mirx.parse_adts(["/repo/src/bytecode/heap.rs", "/repo/src/bytecode/program.rs", "/repo/src/bytecode/bytecode.rs",
                                          "/repo/src/bytecode/state.rs", "/repo/src/parser/mod.rs"])
    except Exception as e:
        res["inconclusive"].append("MIR dump / parse failed: %s" % str(e)[-600:])
        print(json.dumps(res))
        return
    body = next((b for k, b in bodies.items() if k == "eval_print" or k.endswith("::eval_print")), None)
    if body is None:
        res["inconclusive"].append("eval_print not found in the MIR dump")
        print(json.dumps(res))
        return
    mode = sys.argv[1] if len(sys.argv) > 1 else "thorough"
    quick = mode == "quick"
    graph = mode.startswith("graph")
    # graph mode (C10): the heap's leaves may themselves be references, so the value graph under the printed argument is any graph over
    # the cells, cyclic ones included; recursion deeper than any acyclic graph of the shape needs is an outcome of the path
    formats = [("~", 1)] if graph else (FORMATS[:11] if quick else FORMATS)
    if graph:
        res["name"] = "c10_print_graph_mir"
    for fmt, nargs in formats:
        ex = mirx.Executor(bodies, enums, structs, max_depth=60, loop_bound=40)
        if graph:
            # rendering one heap cell nests three `evaluate_as_string` activations (Pointer, HeapObject, Array- / ObjectInstance), a leaf one
            # more, so an acyclic value over n cells needs at most 3n + 1 on one call stack; more is a value that reaches itself (the judge
            # confirms that with the reference's own cycle test and reports anything else as inconclusive, never as a violation)
            ex.recursion_watch = (r"::evaluate_as_string$", 3 * N_CELLS + 1)
        store = {}
        b = Builder(ex, store, structs, enums)
        ip = z3.BitVec("ip", 32)
        # heap shape: #0 array [e0, e1]; #1 object {x1: f0, x: f1} (declared in that order; one name a prefix of the other) with parent p1; #2 object {} whose parent is #1; #3 empty array; #4 array [ref #0]
        leaves = ["e0", "e1", "f0", "f1", "p1"]
        ptr = {n: b.pointer(n) for n in leaves}
        for n in leaves:
            if not graph:
                b.constraints.append(b.syms[n][0] != K_REF)   # leaf values are null / integers / booleans
            elif n in GRAPH_LEAVES[mode]:
                b.constraints.append(z3.Implies(b.syms[n][0] == K_REF, z3.ULT(b.syms[n][3], GRAPH_LEAVES[mode][n])))   # a reference to one of the first cells
            else:
                b.constraints.append(b.syms[n][0] != K_REF)
        b.syms["to1"] = (z3.IntVal(K_REF), z3.BitVecVal(0, 32), z3.BoolVal(False), z3.BitVecVal(1, 64))
        b.syms["to0"] = (z3.IntVal(K_REF), z3.BitVecVal(0, 32), z3.BoolVal(False), z3.BitVecVal(0, 64))
        heap_cells = [b.array_cell([ptr["e0"], ptr["e1"]]),
                      b.object_cell(ptr["p1"], [("x1", ptr["f0"]), ("x", ptr["f1"])], []),
                      b.object_cell(b.pointer_const(K_REF, 1), [], []),
                      b.array_cell([]),
                      b.array_cell([b.pointer_const(K_REF, 0)])]
        shape = Heap([("array", ["e0", "e1"]), ("object", "p1", [("x1", "f0"), ("x", "f1")]), ("object", "to1", []), ("array", []), ("array", ["to0"])])
        args = [b.pointer("a%d" % i) for i in range(nargs)]
        for i in range(nargs):
            k, _, _, r = b.syms["a%d" % i]
            b.constraints.append(z3.Implies(k == K_REF, z3.ULT(r, len(heap_cells))))
            if nargs >= 2:   # several arguments: each is a primitive, the array of two integers or the empty array (keeps the path count per shape near 5^n)
                b.constraints.append(z3.Implies(k == K_REF, z3.Or(r == 0, r == 3)))
        if nargs >= 2:
            b.constraints += [b.syms["e0"][0] == K_INT, b.syms["e1"][0] == K_INT]
        consts = [b.po_string(fmt), b.po_int(1)]
        program = b.program(consts, CODE_LEN)
        stack = [b.pointer("s0")] + args
        state = b.state(stack, [b.frame(None, [])], BV(ip, 32, False), heap_cells)
        state_cell = b.new(state)
        out_cell = b.new(FmtOut())
        try:
            outcomes = list(ex.run(body, [Ref(b.new(program)), Ref(state_cell), Ref(out_cell), Ref(b.new(b.cpi(0))),
                                          Ref(b.new(b.newtype("Arity", b.u(8, nargs))))], b.constraints, store))
        except (Unsupported, KeyError, AttributeError, TypeError, IndexError) as e:
            res["inconclusive"].append("eval_print (format %r, %d arguments): MIR construct outside the executor: %r; opaque calls: %s" % (fmt, nargs, e, sorted(ex.unmodelled)))
            continue
        valid, count, pieces = scan_format(fmt)
        defined = bool(valid) and count == nargs
        solver = z3.Solver()

        def judge(o, b=b, nargs=nargs, defined=defined, pieces=pieces, state_cell=state_cell, out_cell=out_cell, shape=shape, solver=solver, ip=ip):
            st = o.store
            cyclic = False
            if graph and defined:
                for k in range(nargs):
                    sub = render(solver, o.pc, b.syms, shape, "a%d" % k)
                    if sub is None:
                        return None, "the path leaves the kind of a rendered value open"
                    cyclic = cyclic or sub is CYCLIC
            if o.kind == "panic" and str(o.msg).startswith("__DEPTH__"):
                if cyclic:
                    return z3.BoolVal(False), "unbounded recursion: rendering a value that reaches itself never returns (native stack exhaustion)"
                return None, "the executor's call depth bound was hit while rendering an acyclic value"
            if o.kind == "panic":
                return z3.BoolVal(False), "panic: " + str(o.msg)
            if o.kind != "return":
                return z3.BoolVal(False), "unreachable code reached"
            written = merge(st[out_cell].tokens)
            if o.value.disc == 1:
                if written:
                    return z3.BoolVal(False), "Err after writing %r" % (mirfmt_show(written),)
                return z3.BoolVal(cyclic or not defined), "Err"
            if cyclic:
                return z3.BoolVal(True), "terminated on a value that reaches itself (no rendering is prescribed)"
            if not defined:
                return z3.BoolVal(False), "Ok although the print is undefined"
            want = []
            k = 0
            for piece in pieces:
                if piece is None:
                    sub = render(solver, o.pc, b.syms, shape, "a%d" % k)
                    if sub is None:
                        return None, "the path leaves the kind of a rendered value open"
                    want += sub
                    k += 1
                else:
                    want.append(("lit", piece))
            want = merge(want)
            if len(want) != len(written):
                return z3.BoolVal(False), "Ok but wrote %s where %s is prescribed" % (mirfmt_show(written), mirfmt_show(want))
            conj = []
            for w, g in zip(want, written):
                if w[0] != g[0]:
                    return z3.BoolVal(False), "Ok but wrote %s where %s is prescribed" % (mirfmt_show(written), mirfmt_show(want))
                if w[0] == "lit":
                    if w[1] != g[1]:
                        return z3.BoolVal(False), "Ok but wrote %s where %s is prescribed" % (mirfmt_show(written), mirfmt_show(want))
                else:
                    if g[2] != "plain":
                        return z3.BoolVal(False), "Ok but a value is printed with padding"
                    conj.append(g[1].t == w[1])
            S_ = st[state_cell]
            sf = structs["State"]
            ostack = st[field(st, S_, sf, "operand_stack").cells[0]]
            if len(ostack.cells) != 2:
                return z3.BoolVal(False), "Ok but the operand stack holds %d values" % len(ostack.cells)
            conj.append(vk.same_pointer(pointer_terms(st, st[ostack.cells[0]]), b.syms["s0"]))
            conj.append(pointer_terms(st, st[ostack.cells[1]])[0] == K_NULL)
            ipv = st[field(st, S_, sf, "instruction_pointer").cells[0]]
            next_in = z3.ULT(z3.ZeroExt(32, ip) + 1, z3.BitVecVal(CODE_LEN, 64))
            if not isinstance(ipv.disc, int):
                return None, "instruction pointer with symbolic discriminant"
            conj.append(z3.And(next_in, st[st[ipv.payload[1][0]].cells[0]].t == ip + 1) if ipv.disc == 1 else z3.Not(next_in))
            return z3.And(*conj), "Ok"

        def describe(o, mdl, what, pathno, fmt=fmt, nargs=nargs, b=b, leaves=leaves):
            argv = ["print", fmt.encode("utf-8").hex()] + [model_pointer(mdl, b.syms[n]) for n in leaves] + [model_pointer(mdl, b.syms["a%d" % i]) for i in range(nargs)]
            expected = expect_print(fmt, [argv[2 + i] for i in range(len(leaves))], argv[2 + len(leaves):])
            if expected == TERMINATES:
                # one class of counterexample (a value that reaches itself): the first few are run natively, the rest are recorded unreplayed
                REPLAYED[0] += 1
                if REPLAYED[0] > 4:
                    return {"id": "print_cyclic_path%d" % pathno, "what": "print: outcome %s for format %r, heap leaves %s, arguments %s (same class as the replayed ones; not replayed)" % (
                        what, fmt, argv[2:2 + len(leaves)], argv[2 + len(leaves):]), "reproduced": False, "replay_bin": "vmstep", "replay_argv": argv, "expected": expected, "observed": {}}
            observed = native(argv)
            if expected == TERMINATES:
                reproduced = any(line.startswith("SIGNAL") or line.startswith("PANIC") for line in observed.values())
            else:
                reproduced = any(line != expected for line in observed.values()) if expected is not None else False
            return {"id": "print_%s_args%d_path%d" % (fmt.encode("utf-8").hex(), nargs, pathno),
                    "what": "print: outcome %s contradicts the definition for format %r, heap leaves %s, arguments %s (expected %s, observed %s)" % (
                        what, fmt, argv[2:2 + len(leaves)], argv[2 + len(leaves):], expected, observed),
                    "reproduced": reproduced, "replay_bin": "vmstep", "replay_argv": argv, "expected": expected, "observed": observed}

        task.check_paths("eval_print", "format %r, %d argument(s)" % (fmt, nargs), ex, b.constraints, outcomes, judge, describe)
    r = task.result
    r["nontrivial"] = r["discharged"]
    r["solver_s"] = round(r["solver_s"], 2)
    r["wall_s"] = round(time.time() - t0, 1)
    r["bound"] = ("%d format strings (0-3 placeholders, every escape, unknown escapes, two- and three-byte characters) x 0-3 arguments; every argument any Pointer "
                  "(null / integer / boolean / reference to any of 5 heap cells: array of two leaves, object with two fields declared x1, x and any primitive parent, "
                  "object whose parent is that object, empty array, array holding an array) when there is one argument; with several arguments each is a primitive, "
                  "the array of two integers or the empty array; leaf values symbolic" % len(formats))
    if graph:
        r["bound"] = ("print(\"~\", v) for every Pointer v over the 5-cell heap (array [e0, e1]; object {x1: f0, x: f1} with parent p1; object whose parent is that object; "
                      "empty array; array holding the first array) in which the leaves %s are any Pointer too, references to the first cells included (%s), so the "
                      "graph under v is any graph of that shape, cyclic ones included; more than 16 nested `evaluate_as_string` activations on one call stack "
                      "(an acyclic value over 5 cells nests at most 3 * 5 + 1) on a value the reference finds cyclic is the outcome `unbounded recursion`" % (
                          sorted(GRAPH_LEAVES[mode]), ", ".join("%s: first %d" % kv for kv in sorted(GRAPH_LEAVES[mode].items()))))
    r["samples"] = [{"kernel": k["kernel"], "shape": k["shape"], "paths": k["paths"]} for k in r["kernels"][:6]]
    print(json.dumps(r))


def mirfmt_show(tokens):
    out = []
    for t in tokens:
        out.append(repr(t[1]) if t[0] == "lit" else "{%s}" % t[0])
    return " ".join(out)


def expect_print(fmt, leaves, args):
    """The line `vmstep print` must print, from the property's definition on concrete values."""
    valid, count, pieces = scan_format(fmt)
    if valid is None:
        return None
    if not valid or count != len(args):
        return "ERR out="
    e0, e1, f0, f1, p1 = leaves

    class Cycle(Exception):
        pass

    def show(p, seen=()):
        if p == "null":
            return "null"
        k, v = p.split(":")
        if k == "int":
            return v
        if k == "bool":
            return "true" if v == "1" else "false"
        i = int(v)
        if i in seen:
            raise Cycle()
        seen = seen + (i,)
        if i == 0:
            return "[%s, %s]" % (show(e0, seen), show(e1, seen))
        if i == 1:
            parts = ([] if p1 == "null" else ["..=" + show(p1, seen)]) + ["x=" + show(f1, seen), "x1=" + show(f0, seen)]
            return "object(%s)" % ", ".join(parts)
        if i == 2:
            return "object(..=%s)" % show("ref:1", seen)
        if i == 3:
            return "[]"
        return "[%s]" % show("ref:0", seen)
    text, k = "", 0
    try:
        for piece in pieces:
            if piece is None:
                text += show(args[k])
                k += 1
            else:
                text += piece
    except Cycle:
        return TERMINATES
    return "OK out=" + text.encode("utf-8").hex()


if __name__ == "__main__":
    import threading
    sys.setrecursionlimit(200000)           # graph mode follows a cyclic value down to call depth 150; every MIR call is several Python frames
    threading.stack_size(1 << 30)
    t = threading.Thread(target=main)
    t.start()
    t.join()
