#!/usr/bin/env python3
"""C05 / C10 / C13 / C14 / C16 — the allocating and field kernels, decided on their MIR with z3 (see vm_kernels.py for
the method): eval_array, eval_object (with Heap::allocate and HeapObject::size inlined), eval_get_field, eval_set_field.

What is asserted per path: success exactly where the instruction documentation defines the step; the new cell's
contents (array length and elements; object parent, field names bound to the values in declaration order, methods);
exactly one allocation on success (the heap grows by one cell, the cumulative size grows by a positive amount that
depends on the shape only) and none on failure; operand stack and instruction pointer; in-place field update.
Output: one JSON object on stdout.
"""
import json
import os
import sys
import time

import z3

sys.path.insert(0, os.path.dirname(os.path.abspath(__file__)))
import mirx  # noqa: E402
from mirx import BV, Bool, Enum, Ref, Str, Tup, VecV, MapV  # noqa: E402
import vm_kernels as vk  # noqa: E402
from vm_kernels import Builder, Task, field, pointer_terms, same_pointer, model_pointer, native, K_NULL, K_INT, K_BOOL, K_REF, PO  # noqa: E402

CODE_LEN = 6


def post(st, state_cell, structs):
    S = st[state_cell]
    sf = structs["State"]
    ostack = st[field(st, S, sf, "operand_stack").cells[0]]
    heap = field(st, S, sf, "heap")
    memory = field(st, heap, structs["Heap"], "memory")
    size = field(st, heap, structs["Heap"], "size")
    ipv = st[field(st, S, sf, "instruction_pointer").cells[0]]
    return ostack, memory, size, ipv


def ip_bumped(st, ipv, ip):
    next_in = z3.ULT(z3.ZeroExt(32, ip) + 1, z3.BitVecVal(CODE_LEN, 64))
    if not isinstance(ipv.disc, int):
        return None
    return z3.And(next_in, st[st[ipv.payload[1][0]].cells[0]].t == ip + 1) if ipv.disc == 1 else z3.Not(next_in)


def find(bodies, name):
    return next((b for k, b in bodies.items() if k == name or k.endswith("::" + name)), None)


# ---------------------------------------------------------------------------------------------------------------
# eval_array: pops initializer, then size; size must be a non-negative integer; one allocation

def kernel_array(task, bodies, enums, structs, max_len=2):
    body = find(bodies, "eval_array")
    if body is None:
        task.result["inconclusive"].append("eval_array not found in the MIR dump")
        return
    # variant `small_init`: the initializer, when an integer, is small as well — on the pinned tree this adds nothing, but a
    # change that confuses the two operands then builds a *wrong* small array (a violation) instead of an array whose
    # length is outside the shape bound (inconclusive)
    for existing, small_init in ((0, False), (1, False), (0, True)):
        ex = mirx.Executor(bodies, enums, structs)
        store = {}
        b = Builder(ex, store, structs, enums)
        ip = z3.BitVec("ip", 32)
        program = b.program([], CODE_LEN)
        size_p, init_p = b.pointer("size"), b.pointer("init")
        sk, si, _sb, _sr = b.syms["size"]
        b.constraints.append(z3.Implies(sk == K_INT, si <= max_len))  # shape bound: arrays of at most max_len elements
        if small_init:
            ik, ii, _ib, _ir = b.syms["init"]
            b.constraints.append(z3.Implies(ik == K_INT, ii <= max_len))
        heap_cells = [b.array_cell([b.pointer("old")])] if existing else []
        state = b.state([b.pointer("s0"), size_p, init_p], [b.frame(None, [])], BV(ip, 32, False), heap_cells)
        state_cell = b.new(state)
        size0 = z3.BitVec("size0", 64)
        heap_v = field(store, store[state_cell], structs["State"], "heap")
        store[heap_v.cells[structs["Heap"].index("size")]] = BV(size0, 64, False)
        b.constraints.append(z3.ULE(size0, 1 << 40))
        try:
            outcomes = list(ex.run(body, [Ref(b.new(program)), Ref(state_cell)], b.constraints, store))
        except (mirx.Unsupported, KeyError, AttributeError, TypeError, IndexError) as e:
            task.result["inconclusive"].append("eval_array (heap of %d): MIR construct outside the executor: %r; opaque calls: %s" % (existing, e, sorted(ex.unmodelled)))
            continue
        defined = z3.And(sk == K_INT, si >= 0)
        init_t = b.syms["init"]

        def judge(o, existing=existing, b=b, state_cell=state_cell):
            st = o.store
            if o.kind == "panic":
                return z3.BoolVal(False), "panic: " + str(o.msg)
            if o.kind != "return":
                return z3.BoolVal(False), "unreachable code reached"
            ostack, memory, size, ipv = post(st, state_cell, structs)
            if o.value.disc == 1:
                return z3.And(z3.Not(defined), z3.BoolVal(len(memory.cells) == existing), size.t == size0), "Err"
            if len(memory.cells) != existing + 1:
                return z3.BoolVal(False), "Ok but the heap holds %d cells" % len(memory.cells)
            cell = st[memory.cells[existing]]
            if not isinstance(cell.disc, int) or cell.disc != 0:
                return z3.BoolVal(False), "Ok but the new cell is not an array"
            elems = st[st[cell.payload[0][0]].cells[0]]
            n = len(elems.cells)
            conj = [defined, si == n, z3.UGT(size.t, size0)]
            for c in elems.cells:
                conj.append(same_pointer(pointer_terms(st, st[c]), init_t))
            if len(ostack.cells) != 2:
                return z3.BoolVal(False), "Ok but the operand stack holds %d values" % len(ostack.cells)
            top = pointer_terms(st, st[ostack.cells[1]])
            conj.append(z3.And(top[0] == K_REF, top[3] == existing))
            bumped = ip_bumped(st, ipv, ip)
            if bumped is None or any(c is None for c in conj):
                return None, "opaque value in the post-state"
            conj.append(bumped)
            return z3.And(*conj), "Ok"

        def describe(o, mdl, what, pathno, existing=existing, b=b):
            argv = ["array", str(existing), model_pointer(mdl, b.syms["size"]), model_pointer(mdl, b.syms["init"])]
            observed = native(argv)
            sz = argv[2]
            n = int(sz[4:]) if sz.startswith("int:") else None
            expected = ("OK ref:%d len=%d [%s] cells=%d grew=1" % (existing, n, " ".join([argv[3]] * n), existing + 1)) if n is not None and n >= 0 else "ERR cells=%d grew=0" % existing
            return {"id": "array_heap%d_path%d" % (existing, pathno),
                    "what": "array creation: outcome %s contradicts the documented semantics for size %s, initializer %s on a heap of %d (expected %s, observed %s)" % (
                        what, argv[2], argv[3], existing, expected, observed),
                    "reproduced": any(line != expected for line in observed.values()), "replay_bin": "vmstep", "replay_argv": argv, "expected": expected, "observed": observed}

        task.check_paths("eval_array", "heap of %d cell(s), size <= %d%s" % (existing, max_len, ", small integer initializer" if small_init else ""),
                         ex, b.constraints, outcomes, judge, describe)


# ---------------------------------------------------------------------------------------------------------------
# eval_object: class of k slots (+ one method): parent below the field values, fields in declaration order, one allocation

def kernel_object(task, bodies, enums, structs):
    body = find(bodies, "eval_object")
    if body is None:
        task.result["inconclusive"].append("eval_object not found in the MIR dump")
        return
    names = ["y", "x"]   # declared in an order that is not the alphabetical one
    for nslots in (0, 1, 2):
        for with_method in (False, True):
            ex = mirx.Executor(bodies, enums, structs)
            store = {}
            b = Builder(ex, store, structs, enums)
            ip = z3.BitVec("ip", 32)
            index = z3.BitVec("index", 16)
            # constants: #0 class, #1.. slots, then the method, then the name strings; #last an integer (a non-class constant)
            members = list(range(1, 1 + nslots)) + ([1 + nslots] if with_method else [])
            nmembers = len(members)
            first_name = 1 + nmembers
            slot_consts = [Enum("ProgramObject", PO.index("Slot"), {PO.index("Slot"): [b.new(b.cpi(first_name + i))]}) for i in range(nslots)]
            method_consts = [b.po_method(first_name + nslots, 2, 0, 3, 1)] if with_method else []
            name_consts = [b.po_string(names[i]) for i in range(nslots)] + ([b.po_string("m")] if with_method else [])
            klass = Enum("ProgramObject", PO.index("Class"), {PO.index("Class"): [b.new(b.vec([b.cpi(m) for m in members]))]})
            consts = [klass] + slot_consts + method_consts + name_consts + [b.po_int(9)]
            program = b.program(consts, CODE_LEN)
            values = [b.pointer("v%d" % i) for i in range(nslots)]
            stack = [b.pointer("s0"), b.pointer("parent")] + values
            state = b.state(stack, [b.frame(None, [])], BV(ip, 32, False), [])
            state_cell = b.new(state)
            b.constraints.append(z3.ULE(index, len(consts)))
            try:
                outcomes = list(ex.run(body, [Ref(b.new(program)), Ref(state_cell), Ref(b.new(b.cpi(BV(index, 16, False))))], b.constraints, store))
            except (mirx.Unsupported, KeyError, AttributeError, TypeError, IndexError) as e:
                task.result["inconclusive"].append("eval_object (%d slots, method %s): MIR construct outside the executor: %r; opaque calls: %s" % (
                    nslots, with_method, e, sorted(ex.unmodelled)))
                continue
            defined = index == 0
            v_terms = [b.syms["v%d" % i] for i in range(nslots)]

            def judge(o, nslots=nslots, with_method=with_method, v_terms=v_terms, b=b, state_cell=state_cell, defined=defined):
                st = o.store
                if o.kind == "panic":
                    return z3.BoolVal(False), "panic: " + str(o.msg)
                if o.kind != "return":
                    return z3.BoolVal(False), "unreachable code reached"
                ostack, memory, size, ipv = post(st, state_cell, structs)
                if o.value.disc == 1:
                    return z3.And(z3.Not(defined), z3.BoolVal(len(memory.cells) == 0)), "Err"
                if len(memory.cells) != 1:
                    return z3.BoolVal(False), "Ok but the heap holds %d cells" % len(memory.cells)
                cell = st[memory.cells[0]]
                if not isinstance(cell.disc, int) or cell.disc != 1:
                    return z3.BoolVal(False), "Ok but the new cell is not an object"
                inst = st[cell.payload[1][0]]
                of = structs["ObjectInstance"]
                parent = pointer_terms(st, field(st, inst, of, "parent"))
                fields = field(st, inst, of, "fields")
                methods = field(st, inst, of, "methods")
                conj = [defined, same_pointer(parent, b.syms["parent"])]
                if [k for k, _ in fields.entries] != names[:nslots]:
                    return z3.BoolVal(False), "Ok but the fields are %s (declaration order %s expected)" % ([k for k, _ in fields.entries], names[:nslots])
                for i, (k, c) in enumerate(fields.entries):
                    conj.append(same_pointer(pointer_terms(st, st[c]), v_terms[i]))
                if [k for k, _ in methods.entries] != (["m"] if with_method else []):
                    return z3.BoolVal(False), "Ok but the methods are %s" % [k for k, _ in methods.entries]
                if len(ostack.cells) != 2:
                    return z3.BoolVal(False), "Ok but the operand stack holds %d values" % len(ostack.cells)
                top = pointer_terms(st, st[ostack.cells[1]])
                conj.append(z3.And(top[0] == K_REF, top[3] == 0))
                conj.append(z3.UGT(size.t, 0))
                bumped = ip_bumped(st, ipv, ip)
                if bumped is None or any(c is None for c in conj):
                    return None, "opaque value in the post-state"
                conj.append(bumped)
                return z3.And(*conj), "Ok"

            def describe(o, mdl, what, pathno, nslots=nslots, with_method=with_method, v_terms=v_terms, b=b):
                idx = mdl.eval(index, model_completion=True).as_long()
                argv = ["object", str(nslots), "1" if with_method else "0", str(idx), model_pointer(mdl, b.syms["parent"])] + [model_pointer(mdl, t) for t in v_terms]
                observed = native(argv)
                if idx == 0:
                    expected = "OK ref:0 parent=%s fields=[%s] methods=[%s] cells=1" % (argv[4], " ".join("%s=%s" % (names[i], argv[5 + i]) for i in range(nslots)), "m" if with_method else "")
                else:
                    expected = "ERR cells=0"
                return {"id": "object_s%d_m%d_path%d" % (nslots, int(with_method), pathno),
                        "what": "object creation: outcome %s contradicts the documented semantics (class of %d slots%s, constant #%d, parent %s, values %s; expected %s, observed %s)" % (
                            what, nslots, " + 1 method" if with_method else "", idx, argv[4], argv[5:], expected, observed),
                        "reproduced": any(line != expected for line in observed.values()), "replay_bin": "vmstep", "replay_argv": argv, "expected": expected, "observed": observed}

            task.check_paths("eval_object", "class of %d slot(s)%s" % (nslots, " and a method" if with_method else ""), ex, b.constraints, outcomes, judge, describe)


# ---------------------------------------------------------------------------------------------------------------
# the size charged for an object depends on its shape only: classes that differ only in how their members are
# called (same member kinds, same name lengths) are charged the same (z3, with size_of::<T>() as positive constants)

def kernel_object_size(task, bodies, enums, structs):
    body = find(bodies, "eval_object")
    if body is None:
        return
    variants = [("y", "x", "m"), ("x", "y", "m"), ("m", "x", "m"), ("a", "b", "c")]   # the third names a field like the method
    sizes = []
    axioms = []
    for names in variants:
        ex = mirx.Executor(bodies, enums, structs)
        store = {}
        b = Builder(ex, store, structs, enums)
        slot = lambda i: Enum("ProgramObject", PO.index("Slot"), {PO.index("Slot"): [b.new(b.cpi(i))]})
        klass = Enum("ProgramObject", PO.index("Class"), {PO.index("Class"): [b.new(b.vec([b.cpi(1), b.cpi(2), b.cpi(3)]))]})
        consts = [klass, slot(4), slot(5), b.po_method(6, 2, 0, 3, 1)] + [b.po_string(n) for n in names]
        program = b.program(consts, CODE_LEN)
        state = b.state([b.pointer_const(K_NULL)] * 3, [b.frame(None, [])], BV(z3.BitVecVal(0, 32), 32, False), [])
        state_cell = b.new(state)
        try:
            outcomes = [o for o in ex.run(body, [Ref(b.new(program)), Ref(state_cell), Ref(b.new(b.cpi(0)))], b.constraints, store)]
        except (mirx.Unsupported, KeyError, AttributeError, TypeError, IndexError) as e:
            task.result["inconclusive"].append("eval_object size (members %s): MIR construct outside the executor: %r; opaque calls: %s" % (names, e, sorted(ex.unmodelled)))
            return
        oks = [o for o in outcomes if o.kind == "return" and o.value.disc == 0]
        if len(oks) != 1 or len(outcomes) != 1:
            task.result["inconclusive"].append("eval_object size (members %s): %d outcomes, one successful creation expected" % (names, len(outcomes)))
            return
        _, _, size, _ = post(oks[0].store, state_cell, structs)
        sizes.append(size.t)
        axioms = list(ex.axioms) + list(oks[0].pc)
        task.result["queries"] += ex.queries
        task.result["solver_s"] += ex.solver_seconds
    for k in range(1, len(variants)):
        s = z3.Solver()
        s.set("timeout", 120000)
        s.add(*axioms)
        s.add(sizes[0] != sizes[k])
        t1 = time.time()
        r = s.check()
        task.result["solver_s"] += time.time() - t1
        task.result["queries"] += 1
        if r == z3.unsat:
            task.result["discharged"] += 1
            continue
        what = "object size: classes with members %s and %s (same kinds, same name lengths) are charged differently" % (variants[0], variants[k])
        if r != z3.sat:
            task.result["inconclusive"].append(what + " (z3 answered %s)" % r)
            continue
        a, c = native(["object-size"] + list(variants[0])), native(["object-size"] + list(variants[k]))
        reproduced = any(a[p] != c[p] for p in a)
        rec = {"id": "object_size_%d" % k, "what": what + " (natively: %s vs %s)" % (a, c), "reproduced": reproduced, "replay_bin": "vmstep",
               "replay_argv": ["object-size"] + list(variants[k]), "expected": str(a), "observed": str(c)}
        if reproduced:
            task.result["violations"].append(rec)
        else:
            task.result["inconclusive"].append(what + " — not reproduced natively (%s vs %s)" % (a, c))
    task.result["kernels"].append({"kernel": "eval_object size", "shape": "two fields and a method, 4 namings", "paths": len(variants)})


# ---------------------------------------------------------------------------------------------------------------
# eval_get_field / eval_set_field: heap [object {f: x, g: y}, array]; receiver any pointer; name constant f / g / h / not a string

def kernel_fields(task, bodies, enums, structs):
    for kname in ("eval_get_field", "eval_set_field"):
        body = find(bodies, kname)
        if body is None:
            task.result["inconclusive"].append("%s not found in the MIR dump" % kname)
            continue
        setting = kname == "eval_set_field"
        ex = mirx.Executor(bodies, enums, structs)
        store = {}
        b = Builder(ex, store, structs, enums)
        ip = z3.BitVec("ip", 32)
        index = z3.BitVec("index", 16)
        consts = [b.po_string("f"), b.po_string("g"), b.po_string("h"), b.po_int(1)]
        program = b.program(consts, CODE_LEN)
        obj = b.object_cell(b.pointer_const(K_NULL), [("f", b.pointer("x")), ("g", b.pointer("y"))], [])
        arr = b.array_cell([b.pointer("e")])
        stack = [b.pointer("s0"), b.pointer("recv")] + ([b.pointer("val")] if setting else [])
        state = b.state(stack, [b.frame(None, [])], BV(ip, 32, False), [obj, arr])
        state_cell = b.new(state)
        b.constraints.append(z3.ULE(index, 5))
        rk, _ri, _rb, rr = b.syms["recv"]
        b.constraints.append(z3.Implies(rk == K_REF, z3.ULE(rr, 2)))  # references range over the two cells plus one dangling index
        try:
            outcomes = list(ex.run(body, [Ref(b.new(program)), Ref(state_cell), Ref(b.new(b.cpi(BV(index, 16, False))))], b.constraints, store))
        except (mirx.Unsupported, KeyError, AttributeError, TypeError, IndexError) as e:
            task.result["inconclusive"].append("%s: MIR construct outside the executor: %r; opaque calls: %s" % (kname, e, sorted(ex.unmodelled)))
            continue
        is_obj = z3.And(rk == K_REF, rr == 0)
        defined = z3.And(is_obj, z3.ULE(index, 1))
        x_t, y_t = b.syms["x"], b.syms["y"]

        def judge(o, setting=setting, b=b, state_cell=state_cell):
            st = o.store
            if o.kind == "panic":
                return z3.BoolVal(False), "panic: " + str(o.msg)
            if o.kind != "return":
                return z3.BoolVal(False), "unreachable code reached"
            ostack, memory, size, ipv = post(st, state_cell, structs)
            inst = st[st[memory.cells[0]].payload[1][0]]
            fields = field(st, inst, structs["ObjectInstance"], "fields")
            cur = {k: pointer_terms(st, st[c]) for k, c in fields.entries}
            if o.value.disc == 1:
                # a failing step prints nothing; what it leaves in the object is a don't-care (DESIGN 4.1), except that the
                # two existing fields keep their values
                if "f" not in cur or "g" not in cur:
                    return z3.BoolVal(False), "Err and a field disappeared"
                return z3.And(z3.Not(defined), same_pointer(cur["f"], x_t), same_pointer(cur["g"], y_t)), "Err"
            if sorted(cur) != ["f", "g"] or len(memory.cells) != 2:
                return z3.BoolVal(False), "Ok but the object now has fields %s / the heap %d cells" % (sorted(cur), len(memory.cells))
            if len(ostack.cells) != 2:
                return z3.BoolVal(False), "Ok but the operand stack holds %d values" % len(ostack.cells)
            top = pointer_terms(st, st[ostack.cells[1]])
            conj = [defined]
            if setting:
                v_t = b.syms["val"]
                conj.append(same_pointer(top, v_t))
                conj.append(z3.If(index == 0, z3.And(same_pointer(cur["f"], v_t), same_pointer(cur["g"], y_t)),
                                  z3.And(same_pointer(cur["g"], v_t), same_pointer(cur["f"], x_t))))
            else:
                conj.append(z3.If(index == 0, same_pointer(top, x_t), same_pointer(top, y_t)))
                conj.append(z3.And(same_pointer(cur["f"], x_t), same_pointer(cur["g"], y_t)))
            bumped = ip_bumped(st, ipv, ip)
            if bumped is None or any(c is None for c in conj):
                return None, "opaque value in the post-state"
            conj.append(bumped)
            return z3.And(*conj), "Ok"

        def describe(o, mdl, what, pathno, setting=setting, b=b, kname=kname):
            idx = mdl.eval(index, model_completion=True).as_long()
            argv = ["set-field" if setting else "get-field", str(idx), model_pointer(mdl, b.syms["recv"]), model_pointer(mdl, b.syms["x"]), model_pointer(mdl, b.syms["y"])]
            if setting:
                argv.append(model_pointer(mdl, b.syms["val"]))
            observed = native(argv)
            ok = argv[2] == "ref:0" and idx <= 1
            if not ok:
                expected = "ERR f=%s g=%s" % (argv[3], argv[4])
            elif setting:
                expected = "OK %s f=%s g=%s" % (argv[5], argv[5] if idx == 0 else argv[3], argv[5] if idx == 1 else argv[4])
            else:
                expected = "OK %s f=%s g=%s" % (argv[3 + idx], argv[3], argv[4])
            return {"id": "%s_path%d" % (kname, pathno),
                    "what": "%s: outcome %s contradicts the documented semantics (constant #%d, receiver %s; expected %s, observed %s)" % (kname, what, idx, argv[2], expected, observed),
                    "reproduced": any(line != expected for line in observed.values()), "replay_bin": "vmstep", "replay_argv": argv, "expected": expected, "observed": observed}

        task.check_paths(kname, "object {f, g} and an array on the heap, any receiver", ex, b.constraints, outcomes, judge, describe)


def main():
    t0 = time.time()
    task = Task()
    task.result["name"] = "vm_heap_kernels_mir"
    try:
        text = mirx.dump_mir()
        bodies = mirx.parse_mir(text)
        enums, structs = mirx.parse_adts(["/repo/src/bytecode/heap.rs", "/repo/src/bytecode/program.rs", "/repo/src/bytecode/bytecode.rs",
                                          "/repo/src/bytecode/state.rs", "/repo/src/parser/mod.rs"])
    except Exception as e:
        task.result["inconclusive"].append("MIR dump / parse failed: %s" % str(e)[-600:])
        print(json.dumps(task.result))
        return
    which = sys.argv[1:] or ["array", "object", "size", "fields"]
    if "array" in which:
        kernel_array(task, bodies, enums, structs)
    if "object" in which:
        kernel_object(task, bodies, enums, structs)
    if "size" in which:
        kernel_object_size(task, bodies, enums, structs)
    if "fields" in which:
        kernel_fields(task, bodies, enums, structs)
    r = task.result
    r["nontrivial"] = r["discharged"]
    r["solver_s"] = round(r["solver_s"], 2)
    r["wall_s"] = round(time.time() - t0, 1)
    r["bound"] = ("array creation on heaps of 0-1 cells with sizes <= 2; object creation for classes of 0-2 slots with and without a method; "
                  "field get / set on an object with two fields, any receiver; every Pointer, constant index and address symbolic")
    r["samples"] = [{"kernel": k["kernel"], "shape": k["shape"], "paths": k["paths"]} for k in r["kernels"][:6]]
    print(json.dumps(r))


if __name__ == "__main__":
    main()
