"""Models the MIR executor needs for the compiler (imported only by the compiler task, after mirfmt):
`format!` to a string value, Box / String deref, HashMap with tuple keys, HashSet, small conversions."""
import re

import z3

import mirx
import mirfmt
from mirx import BV, Bool, Str, Ref, Tup, VecV, Enum, Iter, Unit, MapV, Unsupported, deref_all, some, NONE
from mirfmt import FmtArgs, FmtArg, FmtOut, front, FRONT

_N0 = len(FRONT)


def tokens_to_str(tokens):
    """The string a token list prints: concrete pieces are joined, symbolic strings concatenated."""
    parts = []
    for t in tokens:
        if t[0] == "lit":
            parts.append(z3.StringVal(t[1]))
        elif t[0] == "str":
            parts.append(t[1].t)
        elif t[0] in ("uint", "int"):
            sv = z3.simplify(t[1].t)
            if not z3.is_bv_value(sv) or t[2] != "plain":
                raise Unsupported("format! of a symbolic integer")
            parts.append(z3.StringVal(str(sv.as_signed_long() if t[0] == "int" else sv.as_long())))
        elif t[0] == "bool":
            sv = z3.simplify(t[1].t)
            if not (z3.is_true(sv) or z3.is_false(sv)):
                raise Unsupported("format! of a symbolic boolean")
            parts.append(z3.StringVal("true" if z3.is_true(sv) else "false"))
        else:
            raise Unsupported("format! of %r" % (t[0],))
    if not parts:
        return Str(z3.StringVal(""))
    return Str(z3.simplify(parts[0] if len(parts) == 1 else z3.Concat(*parts)))


@front(r"^format$|^std::fmt::format$|^alloc::fmt::format$")
def m_format(ex, callee, args, pc, store, depth):
    fa = args[0]
    if not isinstance(fa, FmtArgs):
        raise Unsupported("format(%r)" % (fa,))
    out = ex.world.new(store, FmtOut())
    for r in mirfmt.m_write_fmt(ex, "Formatter::<'_>::write_fmt", [Ref(out), fa], pc, store, depth):
        if r[0] == "value":
            yield ("value", tokens_to_str(r[3][out].tokens), r[2], r[3])
        else:
            yield r


@front(r"^must_use::<|^std::hint::must_use::<|^core::hint::must_use::<")
def m_must_use(ex, callee, args, pc, store, depth):
    yield ("value", args[0], pc, store)


@front(r"^<(std::string::)?String as (std::ops::)?Deref>::deref$|^(std::string::)?String::as_str$|^<(std::string::)?String as AsRef<str>>::as_ref$|"
       r"^<(std::string::)?String as Borrow<str>>::borrow$|^<&str as Into<(std::string::)?String>>::into$|^<(std::string::)?String as From<&str>>::from$|"
       r"^<(std::string::)?String as Into<(std::string::)?String>>::into$|^<(std::string::)?String as ToString>::to_string$|^<&(std::string::)?String as Into|^<\w+ as Into<(std::string::)?String>>::into$")
def m_string_id(ex, callee, args, pc, store, depth):
    v = deref_all(store, args[0])
    if not isinstance(v, Str):
        raise Unsupported("%s on %r" % (callee, v))
    yield ("value", v, pc, store)


def box_payload_ref(store, b):
    b = deref_all(store, b)
    u = store[b.cells[0]]
    return store[u.cells[0]]


def make_box(ex, store, payload_cell):
    nonnull = ex.world.new(store, Ref(payload_cell))
    unique = ex.world.new(store, Tup([nonnull], "Unique"))
    return Tup([unique], "Box")


@front(r"^<Box<.*> as (std::ops::)?Deref(Mut)?>::deref(_mut)?$|^<Box<.*> as AsRef<.*>>::as_ref$")
def m_box_deref(ex, callee, args, pc, store, depth):
    yield ("value", box_payload_ref(store, args[0]), pc, store)


@front(r"^Box::<.*>::new$|^std::boxed::Box::<.*>::new$")
def m_box_new(ex, callee, args, pc, store, depth):
    yield ("value", make_box(ex, store, ex.world.new(store, args[0])), pc, store)


@front(r"^<Box<(.+)> as Clone>::clone$")
def m_box_clone(ex, callee, args, pc, store, depth):
    ty = re.match(r"^<Box<(.+)> as Clone>::clone$", callee).group(1)
    inner = box_payload_ref(store, args[0])
    body = mirfmt.trait_impl_body(ex, ty, "Clone", "clone", 1)
    if body is None:
        # derived impls are named by the span of the derive attribute: fall back to the engine's resolution
        body = ex.find_body("<%s as Clone>::clone" % ty, 1)
    if body is None:
        raise Unsupported("no Clone impl for " + ty)
    for o in ex.run(body, [inner], pc, store, depth + 1):
        if o.kind == "return":
            yield ("value", make_box(ex, o.store, ex.world.new(o.store, o.value)), o.pc, o.store)
        else:
            yield (o.kind, o.msg, o.pc, o.store)


@front(r"^<Box<.*> as (std::ops::)?Drop>::drop$|^std::mem::drop::<|^core::mem::drop::<|^drop_in_place::<")
def m_drop(ex, callee, args, pc, store, depth):
    yield ("value", Unit(), pc, store)


# ---- maps and sets with concrete keys of any shape (strings, integers, tuples of those)

def key_of(store, v):
    v = deref_all(store, v)
    if isinstance(v, Str):
        sv = z3.simplify(v.t)
        if not z3.is_string_value(sv):
            raise Unsupported("map key is not a concrete string")
        return mirfmt.mirx_string(sv)
    if isinstance(v, BV):
        sv = z3.simplify(v.t)
        if not z3.is_bv_value(sv):
            raise Unsupported("map key is not a concrete integer")
        return sv.as_long()
    if isinstance(v, Tup):
        return tuple(key_of(store, store[c]) for c in v.cells)
    raise Unsupported("map key %r" % (v,))


@front(r"(HashMap|IndexMap)::<.*>::(get|contains_key)::<|HashSet::<.*>::contains::<")
def m_map_get_any(ex, callee, args, pc, store, depth):
    m = deref_all(store, args[0])
    if not isinstance(m, MapV):
        raise Unsupported("map lookup on %r" % (m,))
    k = deref_all(store, args[1])
    if isinstance(k, Str) and not z3.is_string_value(z3.simplify(k.t)) and "::get::<" in callee:
        yield from mirx.m_map_get(ex, callee, args, pc, store, depth)
        return
    key = key_of(store, k)
    hit = next((c for kk, c in m.entries if kk == key), None)
    if "::get::<" in callee:
        yield ("value", some(ex, store, Ref(hit)) if hit is not None else NONE, pc, store)
    else:
        yield ("value", Bool(z3.BoolVal(hit is not None)), pc, store)


@front(r"(HashMap|IndexMap)::<.*>::insert$")
def m_map_insert_any(ex, callee, args, pc, store, depth):
    cell = args[0].cell
    m = store[cell]
    key = key_of(store, args[1])
    for i, (k, c) in enumerate(m.entries):
        if k == key:
            old = store[c]
            entries = list(m.entries)
            entries[i] = (k, ex.world.new(store, args[2]))
            store[cell] = MapV(entries)
            yield ("value", some(ex, store, old), pc, store)
            return
    store[cell] = MapV(list(m.entries) + [(key, ex.world.new(store, args[2]))])
    yield ("value", NONE, pc, store)


@front(r"HashSet::<.*>::new$")
def m_set_new(ex, callee, args, pc, store, depth):
    yield ("value", MapV([]), pc, store)


@front(r"HashSet::<.*>::insert$")
def m_set_insert(ex, callee, args, pc, store, depth):
    cell = args[0].cell
    m = store[cell]
    key = key_of(store, args[1])
    if any(k == key for k, _ in m.entries):
        yield ("value", Bool(z3.BoolVal(False)), pc, store)
        return
    store[cell] = MapV(list(m.entries) + [(key, ex.world.new(store, Unit()))])
    yield ("value", Bool(z3.BoolVal(True)), pc, store)


@front(r"^<&(std::vec::)?Vec<.*> as IntoIterator>::into_iter$")
def m_vec_ref_into_iter(ex, callee, args, pc, store, depth):
    v, _ = mirx.vec_of(ex, store, args[0])
    yield ("value", Iter("refs", cells=v.cells), pc, store)


@front(r"Result::<.*>::expect$")
def m_result_expect_any(ex, callee, args, pc, store, depth):
    r = args[0]
    if not isinstance(r.disc, int):
        raise Unsupported("expect on a symbolic result")
    if r.disc == 0:
        yield ("value", store[r.payload[0][0]], pc, store)
    else:
        yield ("panic", "Result::expect on Err", pc, store)


@front(r" as Iterator>::position::<")
def m_position(ex, callee, args, pc, store, depth):
    """Iterator::position with a predicate closure: the first index whose element satisfies it (forks on symbolic verdicts)."""
    it, f = args[0], args[1]
    if isinstance(it, Ref):
        it = store[it.cell]
    for items, pc0, st0 in ex.iter_items(it, pc, store, depth):
        def go(k, pcx, stx):
            if k == len(items):
                yield ("value", NONE, pcx, stx)
                return
            for kind, val, pcy, sty in ex.call_closure(f, [items[k]], pcx, stx, depth):
                if kind != "value":
                    yield (kind, val, pcy, sty)
                    continue
                b = z3.simplify(val.t)
                if z3.is_true(b):
                    yield ("value", some(ex, sty, BV(z3.BitVecVal(k, 64), 64, False)), pcy, sty)
                elif z3.is_false(b):
                    yield from go(k + 1, pcy, sty)
                else:
                    hit, miss = ex.feasible(pcy + [b]), ex.feasible(pcy + [z3.Not(b)])
                    if hit:
                        st_hit = dict(sty) if miss else sty
                        yield ("value", some(ex, st_hit, BV(z3.BitVecVal(k, 64), 64, False)), pcy + [b], st_hit)
                    if miss:
                        yield from go(k + 1, pcy + [z3.Not(b)], sty)
        yield from go(0, pc0, st0)


@front(r"^core::slice::<impl \[.*\]>::contains$|^(std::vec::)?Vec::<.*>::contains$")
def m_slice_contains(ex, callee, args, pc, store, depth):
    v, _ = mirx.vec_of(ex, store, args[0])
    needle = deref_all(store, args[1])
    conds = []
    for c in v.cells:
        conds.append(value_eq(store, store[c], needle))
    t = z3.simplify(z3.Or(conds)) if conds else z3.BoolVal(False)
    yield ("value", Bool(t), pc, store)


def value_eq(store, a, b):
    a, b = deref_all(store, a), deref_all(store, b)
    if isinstance(a, BV) and isinstance(b, BV):
        return a.t == b.t
    if isinstance(a, Str) and isinstance(b, Str):
        return a.t == b.t
    if isinstance(a, Bool) and isinstance(b, Bool):
        return a.t == b.t
    if isinstance(a, Tup) and isinstance(b, Tup) and len(a.cells) == len(b.cells):
        return z3.And([value_eq(store, store[x], store[y]) for x, y in zip(a.cells, b.cells)])
    if isinstance(a, VecV) and isinstance(b, VecV):
        if len(a.cells) != len(b.cells):
            return z3.BoolVal(False)
        return z3.And([value_eq(store, store[x], store[y]) for x, y in zip(a.cells, b.cells)]) if a.cells else z3.BoolVal(True)
    if isinstance(a, Enum) and isinstance(b, Enum) and isinstance(a.disc, int) and isinstance(b.disc, int):
        if a.disc != b.disc:
            return z3.BoolVal(False)
        pa, pb = a.payload.get(a.disc, ()), b.payload.get(b.disc, ())
        return z3.And([value_eq(store, store[x], store[y]) for x, y in zip(pa, pb)]) if pa else z3.BoolVal(True)
    raise Unsupported("equality of %r and %r" % (a, b))


@front(r"^<(std::vec::)?Vec<.*> as PartialEq(<.*>)?>::(eq|ne)$")
def m_vec_eq(ex, callee, args, pc, store, depth):
    t = z3.simplify(value_eq(store, args[0], args[1]))
    yield ("value", Bool(z3.Not(t) if callee.endswith("::ne") else t), pc, store)


@front(r"^(std::vec::)?Vec::<.*>::extend::<|^<(std::vec::)?Vec<.*> as Extend<.*>>::extend::<")
def m_vec_extend(ex, callee, args, pc, store, depth):
    cell = args[0].cell
    src = args[1]
    if isinstance(src, VecV):
        src = Iter("vec", cells=src.cells)
    for items, pcx, stx in ex.iter_items(src, pc, store, depth):
        v = stx[cell]
        stx[cell] = VecV(list(v.cells) + [ex.world.new(stx, x) for x in items])
        yield ("value", Unit(), pcx, stx)


@front(r"^<(?!str|std::string::String|String)(.+) as ToString>::to_string$")
def m_to_string_str(ex, callee, args, pc, store, depth):
    """`to_string` of one of /repo's types: its Display impl run from the MIR, the tokens joined into a string value."""
    for r in mirfmt.m_to_string(ex, callee, args, pc, store, depth):
        if r[0] == "value" and isinstance(r[1], FmtOut):
            yield ("value", tokens_to_str(r[1].tokens), r[2], r[3])
        else:
            yield r


mirx.MODELS.table[:0] = FRONT[_N0:]
