#!/usr/bin/env python3
"""C07 / C15 — the lexer's token and skip languages, decided with z3's theory of regular expressions.

Every `r"…"` literal of the `match { … }` block of /repo/src/fml.lalrpop (re-read on every run) is translated to a
z3 regular expression and compared with the language the README documents. The queries have no length bound:
`unsat` of `InRe(s, impl) != InRe(s, ref)` means the two languages are equal over all strings.

Trusted: lalrpop's longest-match lexer and the `regex` crate implement the regex semantics z3 is given
(Unicode-aware `\\s`, `.` = any character but LF, negated classes match LF).

usage: c07_lexer.py [C07|C15]
"""
import json
import os
import re
import sys
import time

import z3

GRAMMAR = "/repo/src/fml.lalrpop"
RS = z3.ReSort(z3.StringSort())
ALL = z3.AllChar(RS)
WHITE = [(0x09, 0x0D), (0x20, 0x20), (0x85, 0x85), (0xA0, 0xA0), (0x1680, 0x1680), (0x2000, 0x200A), (0x2028, 0x2029),
         (0x202F, 0x202F), (0x205F, 0x205F), (0x3000, 0x3000)]


def ch(c):
    return z3.Re(z3.StringVal(c if ord(c) < 128 and c.isprintable() and c not in '\\"' else "\\u{%x}" % ord(c)))


def rng(lo, hi):
    if lo == hi:
        return ch(chr(lo))
    return z3.Range(z3.StringVal("\\u{%x}" % lo) if lo >= 128 or not chr(lo).isprintable() or chr(lo) in '\\"' else z3.StringVal(chr(lo)),
                    z3.StringVal("\\u{%x}" % hi) if hi >= 128 or not chr(hi).isprintable() or chr(hi) in '\\"' else z3.StringVal(chr(hi)))


def union(xs):
    xs = list(xs)
    return xs[0] if len(xs) == 1 else z3.Union(*xs)


class RegexParser:
    """The subset of the `regex` crate syntax the grammar uses: literals, escapes, classes, groups, | * + ? ."""

    def __init__(self, s):
        self.s, self.i = s, 0

    def peek(self):
        return self.s[self.i] if self.i < len(self.s) else None

    def parse(self):
        r = self.alt()
        if self.i != len(self.s):
            raise ValueError("regex not fully parsed at %d: %r" % (self.i, self.s))
        return r

    def alt(self):
        parts = [self.seq()]
        while self.peek() == "|":
            self.i += 1
            parts.append(self.seq())
        return union(parts)

    def seq(self):
        items = []
        while self.peek() is not None and self.peek() not in "|)":
            items.append(self.repeat())
        if not items:
            return z3.Re(z3.StringVal(""))
        return items[0] if len(items) == 1 else z3.Concat(*items)

    def repeat(self):
        a = self.atom()
        while self.peek() in ("*", "+", "?"):
            c = self.peek()
            self.i += 1
            a = {"*": z3.Star, "+": z3.Plus, "?": z3.Option}[c](a)
        return a

    def escape(self):
        c = self.s[self.i]
        self.i += 1
        if c == "s":
            return union(rng(a, b) for a, b in WHITE)
        if c == "n":
            return ch("\n")
        if c == "r":
            return ch("\r")
        if c == "t":
            return ch("\t")
        if c.isalnum():
            raise ValueError("unsupported escape \\" + c)
        return ch(c)

    def atom(self):
        c = self.peek()
        if c == "(":
            self.i += 1
            r = self.alt()
            if self.peek() != ")":
                raise ValueError("unbalanced group")
            self.i += 1
            return r
        if c == "[":
            return self.cls()
        if c == ".":
            self.i += 1
            return z3.Diff(ALL, ch("\n"))
        if c == "\\":
            self.i += 1
            return self.escape()
        self.i += 1
        return ch(c)

    def cls(self):
        self.i += 1
        neg = self.peek() == "^"
        if neg:
            self.i += 1
        items = []
        first = True
        while self.peek() != "]" or first:
            first = False
            c = self.peek()
            if c == "\\":
                self.i += 1
                e = self.s[self.i]
                self.i += 1
                lo = {"n": "\n", "r": "\r", "t": "\t"}.get(e, e)
                if e == "s":
                    items += [rng(a, b) for a, b in WHITE]
                    continue
            else:
                self.i += 1
                lo = c
            if self.peek() == "-" and self.s[self.i + 1] != "]":
                self.i += 1
                hi = self.s[self.i]
                self.i += 1
                items.append(rng(ord(lo), ord(hi)))
            else:
                items.append(ch(lo))
        self.i += 1
        u = union(items)
        return z3.Diff(ALL, u) if neg else u


def read_match_block():
    src = open(GRAMMAR).read()
    m = re.search(r"\bmatch\s*\{(.*?)\n\}", src, re.S)
    block = m.group(1)
    rules = []
    for line in block.splitlines():
        line = line.split("//")[0] if not re.search(r'r#?"', line) else line
        rm = re.match(r'^\s*r(#?)"(.*)"\1\s*=>\s*(\{\s*\}|\w+)\s*,', line)
        lm = re.match(r'^\s*"((?:[^"\\]|\\.)*)"\s*=>\s*(\w+)\s*,', line)
        if rm:
            rules.append(("regex", rm.group(2), None if rm.group(3).startswith("{") else rm.group(3)))
        elif lm:
            rules.append(("literal", lm.group(1), lm.group(2)))
    return rules


def equal_languages(a, b):
    s = z3.String("s")
    sol = z3.Solver()
    sol.set("timeout", 120000)
    sol.add(z3.InRe(s, a) != z3.InRe(s, b))
    r = sol.check()
    return r, (sol.model()[s] if r == z3.sat else None)


def empty_intersection(a, b, nonempty=True):
    s = z3.String("s")
    sol = z3.Solver()
    sol.set("timeout", 120000)
    sol.add(z3.InRe(s, a), z3.InRe(s, b))
    if nonempty:
        sol.add(z3.Length(s) > 0)
    r = sol.check()
    return r, (sol.model()[s] if r == z3.sat else None)


def subset(a, b):
    s = z3.String("s")
    sol = z3.Solver()
    sol.set("timeout", 120000)
    sol.add(z3.InRe(s, a), z3.Not(z3.InRe(s, b)))
    r = sol.check()
    return r, (sol.model()[s] if r == z3.sat else None)


def main():
    which = sys.argv[1] if len(sys.argv) > 1 else "C07"
    t0 = time.time()
    result = {"name": "lexer_regex_" + which.lower(), "queries": 0, "discharged": 0, "nontrivial": 0, "violations": [], "inconclusive": [],
              "samples": [], "solver_s": 0.0}

    def record(label, verdict, witness, expect_unsat=True, sample=None, skipped_expected=None):
        result["queries"] += 1
        if verdict == z3.unsat:
            result["discharged"] += 1
        elif verdict == z3.sat:
            w = witness.as_string() if witness is not None else ""
            w = re.sub(r"\\u\{([0-9a-fA-F]+)\}", lambda m: chr(int(m.group(1), 16)), w)
            reproduced = True
            observed = None
            if skipped_expected is not None:
                # replay through /repo's real lexer: a word the lexer skips entirely leaves the empty program
                import subprocess
                try:
                    # the helper is generated from /repo's current grammar: rebuild it first (a no-op when it is up to date)
                    subprocess.run(["cargo", "build", "--offline"], cwd="/verif/lalr", env=dict(os.environ, CARGO_NET_OFFLINE="true"),
                                   stdout=subprocess.DEVNULL, stderr=subprocess.DEVNULL, timeout=600)
                    out = subprocess.run(["/verif/lalr/target/debug/parse_ast"], input=w, stdout=subprocess.PIPE, text=True, timeout=30).stdout.strip()
                    observed = out == 'OK {"Top":["Null"]}'
                    reproduced = observed != skipped_expected(w)
                except Exception as e:  # helper missing: cannot confirm
                    reproduced = False
                    observed = str(e)
            result["violations"].append({"id": re.sub(r"\W+", "_", label)[:60], "what": "%s — witness string %r (real lexer skips it entirely: %s)" % (label, w, observed),
                                         "reproduced": reproduced, "replay_cmd": "printf '%%s' %r | /verif/lalr/target/debug/parse_ast" % w})
        else:
            result["inconclusive"].append("%s: z3 answered %s" % (label, verdict))
        if sample and len(result["samples"]) < 8:
            result["samples"].append({"query": label, "verdict": str(verdict)})

    try:
        rules = read_match_block()
        regexes = [(src, name, RegexParser(src).parse()) for kind, src, name in rules if kind == "regex"]
        literals = [(src.replace('\\"', '"').replace("\\\\", "\\"), name) for kind, src, name in rules if kind == "literal"]
    except Exception as e:
        result["inconclusive"].append("match block of fml.lalrpop not understood: %s" % e)
        print(json.dumps(result))
        return
    skips = [(src, rx) for src, name, rx in regexes if name is None]
    tokens = {name: (src, rx) for src, name, rx in regexes if name is not None}
    result["rules"] = {"skip_regexes": [s for s, _ in skips], "token_regexes": {k: v[0] for k, v in tokens.items()}, "literals": len(literals)}
    star, slash, nl = ch("*"), ch("/"), ch("\n")
    anys = z3.Star(ALL)

    def documented_comment(w):
        if w.startswith("//"):
            return "\n" not in w
        return len(w) >= 4 and w.startswith("/*") and w.endswith("*/") and "*/" not in w[2:-2] and not w[2:-1].endswith("*/") and w.find("*/", 2) == len(w) - 2

    def documented_white(w):
        return all(any(a <= ord(c) <= b for a, b in WHITE) for c in w)

    if which == "C07":
        if len(skips) != 2:
            result["inconclusive"].append("expected two skip rules (whitespace, comments), found %d" % len(skips))
            print(json.dumps(result))
            return
        ws = next((rx for s, rx in skips if "/" not in s), None)
        com = next((rx for s, rx in skips if "/" in s), None)
        # whitespace: any run of Unicode white space
        ref_ws = z3.Star(union(rng(a, b) for a, b in WHITE))
        v, w = equal_languages(ws, ref_ws)
        record("whitespace skip rule is not exactly `any run of white space`", v, w, sample=True, skipped_expected=documented_white)
        # comments: `/*` text-without-`*/` `*/`  |  `//` up to the end of the line; any Unicode inside, line breaks inside blocks
        # `/*` W `*/` with W free of `*/` and W* not closing early: W may end in stars ("/***/"), so state it directly:
        # the word starts with `/*`, ends with `*/`, has length >= 4, and contains `*/` nowhere before its last two characters.
        body_ok = z3.Complement(z3.Concat(anys, star, slash, ALL, anys))  # no `*/` followed by at least one more character
        ref_block = z3.Intersect(z3.Concat(slash, star, anys, star, slash), z3.Concat(slash, star, body_ok))
        ref_block = z3.Intersect(ref_block, z3.Complement(z3.Concat(slash, star, slash)))  # `/*/` is not a comment
        ref_line = z3.Concat(slash, slash, z3.Star(z3.Diff(ALL, nl)))
        v, w = equal_languages(com, z3.Union(ref_block, ref_line))
        record("comment skip rule differs from the documented comment language (/* ... */ without nesting, // to end of line)", v, w, sample=True,
               skipped_expected=documented_comment)
        # a block comment never swallows what follows it: no comment is a proper prefix of another block comment
        s, t = z3.String("s"), z3.String("t")
        sol = z3.Solver()
        sol.set("timeout", 120000)
        sol.add(z3.InRe(s, z3.Intersect(com, z3.Concat(slash, star, anys))), z3.Length(t) > 0, z3.InRe(z3.Concat(s, t), z3.Intersect(com, z3.Concat(slash, star, anys))))
        r = sol.check()
        record("a block comment can extend over a later `*/` (comment swallows following text)", r, sol.model()[s] if r == z3.sat else None, sample=True)
        # skip rules never match a token: no non-empty word is both skipped and a literal / identifier / number / string
        for src, name in literals:
            for ssrc, srx in skips:
                v, w = empty_intersection(srx, z3.Re(z3.StringVal(src)))
                record("skip rule %r also matches the token %s" % (ssrc, name), v, w)
        for name, (src, rx) in tokens.items():
            for ssrc, srx in skips:
                v, w = empty_intersection(srx, rx)
                record("skip rule %r overlaps the token class %s" % (ssrc, name), v, w, sample=True)
        # no comment word is empty (the whitespace rule's own empty match is harmless and recorded)
        v, w = empty_intersection(com, z3.Re(z3.StringVal("")), nonempty=False)
        record("comment rule matches the empty string", v, w)
        # documented token classes
        if "IDENTIFIER" in tokens:
            idref = z3.Concat(union([ch("_"), rng(65, 90), rng(97, 122)]), z3.Star(union([ch("_"), rng(65, 90), rng(97, 122), rng(48, 57)])))
            v, w = equal_languages(tokens["IDENTIFIER"][1], idref)
            record("identifier token class changed", v, w, sample=True)
        if "NUMBER" in tokens:
            numref = z3.Concat(z3.Option(ch("-")), z3.Plus(rng(48, 57)))
            v, w = equal_languages(tokens["NUMBER"][1], numref)
            record("number token class changed", v, w, sample=True)
    else:
        # C15: every string literal the lexer admits is escape-clean for the VM's print:
        # `"` ( any character but backslash and quote | backslash followed by one of ~ n t r \ " )* `"`
        if "STRING_LITERAL" not in tokens:
            result["inconclusive"].append("STRING_LITERAL rule not found")
        else:
            q, bs = ch('"'), ch("\\")
            plain = z3.Diff(ALL, z3.Union(q, bs))
            esc = z3.Concat(bs, union([ch(c) for c in '~ntr\\"']))
            ref = z3.Concat(q, z3.Star(z3.Union(plain, esc)), q)
            v, w = subset(tokens["STRING_LITERAL"][1], ref)
            record("lexer admits a string literal with an escape the VM's print rejects (or an unterminated escape)", v, w, sample=True)
            v, w = subset(ref, tokens["STRING_LITERAL"][1])
            record("lexer rejects a string literal made only of plain characters (any Unicode, raw line breaks) and the six documented escapes", v, w, sample=True)
    result["nontrivial"] = result["discharged"]
    result["wall_s"] = round(time.time() - t0, 2)
    result["solver_s"] = result["wall_s"]
    result["bound"] = "no length bound: regular-language equivalence / inclusion / disjointness over all Unicode strings"
    print(json.dumps(result))


if __name__ == "__main__":
    main()
