#!/usr/bin/env python3
"""C05 / C10 / C12 / C13 / C14 / C16 — the VM kernels CBMC cannot hold, decided on their MIR with z3.

The array built-ins, field update, function calls, object-method calls through a parent chain and object creation
are built from iterator chains (`veccat!`, `collect`, `pop_sequence`, IndexMap builds) that exhausted 12-50 GB
under Kani/CBMC. Here their MIR (dumped from /repo now) is executed symbolically by smt/mirx.py: the VM state is a
tree of cells of concrete *shape* (stack depth, frame sizes, heap cells, argument counts: the stated bound) whose
`Pointer`s, indices, addresses and names are symbolic. Every path ends in a post-state; one z3 query per path
asks for an input on which the post-state (or the success/failure verdict) differs from the documented
instruction semantics, and one covering query per kernel checks that the enumerated paths exhaust the inputs.

Counterexamples are replayed natively through the `vmstep` binary of /verif/replay (real code, real containers).
Output: one JSON object on stdout.
"""
import json
import os
import subprocess
import sys
import time

import z3

sys.path.insert(0, os.path.dirname(os.path.abspath(__file__)))
import mirx  # noqa: E402
from mirx import BV, Bool, Enum, Ref, Str, Tup, VecV, MapV, Opaque, Unit  # noqa: E402

ROOT = mirx.ROOT
K_NULL, K_INT, K_BOOL, K_REF = 0, 1, 2, 3
PO = ["Integer", "Boolean", "Null", "String", "Slot", "Method", "Class"]  # ProgramObject variants, declaration order


class Builder:
    """Builds values of /repo's types in a store, with the field order the MIR uses (declaration order)."""

    def __init__(self, ex, store, structs, enums):
        self.ex, self.store, self.structs, self.enums = ex, store, structs, enums
        self.constraints = []
        self.syms = {}

    def new(self, v):
        return self.ex.world.new(self.store, v)

    def u(self, width, value):
        return BV(z3.BitVecVal(value, width), width, False)

    def struct(self, name, **fields):
        order = self.structs[name]
        assert set(order) == set(fields), (name, order, list(fields))
        return Tup([self.new(fields[f]) for f in order], name)

    def newtype(self, name, v):
        return Tup([self.new(v)], name)

    def pointer(self, tag):
        """A symbolic Pointer: kind and payloads are z3 variables named after `tag`."""
        k = z3.Int("k_" + tag)
        ai, ab, ar = z3.BitVec("i_" + tag, 32), z3.Bool("b_" + tag), z3.BitVec("r_" + tag, 64)
        self.constraints += [k >= 0, k <= 3]
        self.syms[tag] = (k, ai, ab, ar)
        return Enum("Pointer", k, {K_INT: [self.new(BV(ai, 32, True))], K_BOOL: [self.new(Bool(ab))],
                                   K_REF: [self.new(self.newtype("HeapIndex", BV(ar, 64, False)))]})

    def pointer_const(self, kind, payload=0):
        if kind == K_NULL:
            return Enum("Pointer", 0, {})
        if kind == K_INT:
            return Enum("Pointer", 1, {1: [self.new(BV(z3.BitVecVal(payload, 32), 32, True))]})
        if kind == K_BOOL:
            return Enum("Pointer", 2, {2: [self.new(Bool(z3.BoolVal(bool(payload))))]})
        return Enum("Pointer", 3, {3: [self.new(self.newtype("HeapIndex", self.u(64, payload)))]})

    def cpi(self, v):
        return self.newtype("ConstantPoolIndex", v if isinstance(v, BV) else self.u(16, v))

    def po_string(self, s):
        return Enum("ProgramObject", PO.index("String"), {PO.index("String"): [self.new(Str(z3.StringVal(s)))]})

    def po_int(self, v):
        return Enum("ProgramObject", PO.index("Integer"), {PO.index("Integer"): [self.new(BV(z3.BitVecVal(v, 32), 32, True))]})

    def po_method(self, name, params, nlocals, start, length):
        rng = self.struct("AddressRange", start=self.newtype("Address", start if isinstance(start, BV) else self.u(32, start)), length=self.u(64, length))
        cells = [self.new(self.cpi(name)), self.new(self.newtype("Arity", self.u(8, params))), self.new(self.newtype("Size", self.u(16, nlocals))), self.new(rng)]
        return Enum("ProgramObject", PO.index("Method"), {PO.index("Method"): cells})

    def vec(self, values):
        return VecV([self.new(v) for v in values])

    def program(self, constants, code_len):
        code = self.newtype("Code", self.vec([Enum("OpCode", self.enums["OpCode"].index("Return"), {}) for _ in range(code_len)]))
        return self.struct("Program", constant_pool=self.newtype("ConstantPool", self.vec(constants)),
                           labels=self.struct("Labels", names=MapV([])), code=code, globals=self.newtype("Globals", self.vec([])),
                           entry=self.newtype("Entry", Enum("Option", 0, {})))

    def frame(self, ret, locals_):
        ra = Enum("Option", 1, {1: [self.new(self.newtype("Address", ret))]}) if ret is not None else Enum("Option", 0, {})
        return self.struct("Frame", return_address=ra, locals=self.vec(locals_))

    def state(self, stack, frames, ip, heap_cells, functions=(), globals_=()):
        fs = self.struct("FrameStack", globals=self.newtype("GlobalFrame", MapV([(k, self.new(v)) for k, v in globals_])),
                         functions=self.newtype("GlobalFunctions", MapV([(k, self.new(self.cpi(v))) for k, v in functions])),
                         frames=self.vec(frames))
        ipv = Enum("Option", 1, {1: [self.new(self.newtype("Address", ip))]}) if ip is not None else Enum("Option", 0, {})
        heap = self.struct("Heap", max_size=self.u(64, 0), size=self.u(64, 0), log=Enum("Option", 0, {}), memory=self.vec(heap_cells))
        return self.struct("State", operand_stack=self.newtype("OperandStack", self.vec(stack)), frame_stack=fs,
                           instruction_pointer=self.newtype("InstructionPointer", ipv), heap=heap)

    def object_cell(self, parent, fields, methods):
        inst = self.struct("ObjectInstance", parent=parent, fields=MapV([(k, self.new(v)) for k, v in fields]),
                           methods=MapV([(k, self.new(v)) for k, v in methods]))
        return Enum("HeapObject", 1, {1: [self.new(inst)]})

    def array_cell(self, elements):
        return Enum("HeapObject", 0, {0: [self.new(self.newtype("ArrayInstance", self.vec(elements)))]})


# ---------------------------------------------------------------------------------------------------------------
# reading post-states

def field(store, v, struct_fields, name):
    return store[v.cells[struct_fields.index(name)]]


def pointer_terms(store, p):
    """(kind term, int term, bool term, ref term) of a Pointer value (concrete or symbolic discriminant)."""
    k = p.disc if not isinstance(p.disc, int) else z3.IntVal(p.disc)
    def payload(idx, default):
        cs = p.payload.get(idx)
        if not cs:
            return default
        v = store[cs[0]]
        if idx == K_REF:
            v = store[v.cells[0]]
        return v.t if isinstance(v, (BV, Bool)) else None
    return k, payload(K_INT, z3.BitVecVal(0, 32)), payload(K_BOOL, z3.BoolVal(False)), payload(K_REF, z3.BitVecVal(0, 64))


def same_pointer(a, b):
    """z3: two pointer term tuples denote the same Pointer."""
    ka, ia, ba, ra = a
    kb, ib, bb, rb = b
    if None in (ia, ba, ra, ib, bb, rb):
        return None
    return z3.And(ka == kb, z3.Implies(ka == K_INT, ia == ib), z3.Implies(ka == K_BOOL, ba == bb), z3.Implies(ka == K_REF, ra == rb))


def sym_terms(b, tag):
    return b.syms[tag]


class Task:
    def __init__(self):
        self.result = {"name": "vm_kernels_mir", "queries": 0, "discharged": 0, "nontrivial": 0, "violations": [], "inconclusive": [],
                       "samples": [], "kernels": [], "paths": 0, "solver_s": 0.0}

    def check_paths(self, kernel, shape, ex, constraints, outcomes, judge, describe):
        """judge(outcome) -> (z3 agreement formula | None, label). One query per path + one covering query."""
        res = self.result
        ok_paths = 0
        for n, o in enumerate(outcomes):
            try:
                f, what = judge(o)
            except (KeyError, AttributeError, IndexError, TypeError, mirx.Unsupported) as e:
                f, what = None, "post-state not readable: %r" % (e,)
            if f is None:
                res["inconclusive"].append("%s %s: %s" % (kernel, shape, what))
                continue
            s = z3.Solver()
            s.set("timeout", 120000)
            for c in o.pc:
                s.add(c)
            s.add(z3.Not(f))
            t1 = time.time()
            r = s.check()
            res["solver_s"] += time.time() - t1
            res["queries"] += 1
            if r == z3.unsat:
                res["discharged"] += 1
                if what.startswith("Ok"):
                    ok_paths += 1
            elif r == z3.sat:
                res["violations"].append(describe(o, s.model(), what, n))
            else:
                res["inconclusive"].append("%s %s: z3 answered %s (%s)" % (kernel, shape, r, what))
        s = z3.Solver()
        s.set("timeout", 120000)
        for c in list(constraints) + list(getattr(ex, "axioms", [])):
            s.add(c)
        s.add(z3.Not(z3.Or([z3.And(o.pc) if o.pc else z3.BoolVal(True) for o in outcomes])))
        t1 = time.time()
        r = s.check()
        res["solver_s"] += time.time() - t1
        res["queries"] += 1
        if r == z3.unsat:
            res["discharged"] += 1
        else:
            res["inconclusive"].append("%s %s: enumerated paths do not cover the input space (%s)" % (kernel, shape, r))
        res["paths"] += len(outcomes)
        res["queries"] += ex.queries
        res["solver_s"] += ex.solver_seconds
        res["kernels"].append({"kernel": kernel, "shape": shape, "paths": len(outcomes), "value_paths_verified": ok_paths,
                               "inlined": len(ex.inlined), "modelled": sorted(ex.modelled)[:40], "opaque_calls": sorted(ex.unmodelled)[:10]})
        return ok_paths


def model_pointer(m, terms):
    k = m.eval(terms[0], model_completion=True).as_long()
    if k == K_NULL:
        return "null"
    if k == K_INT:
        return "int:%d" % m.eval(terms[1], model_completion=True).as_signed_long()
    if k == K_BOOL:
        return "bool:%d" % (1 if z3.is_true(m.eval(terms[2], model_completion=True)) else 0)
    return "ref:%d" % m.eval(terms[3], model_completion=True).as_long()


def decode_z3_string(s):
    import re
    return re.sub(r"\\u\{([0-9a-fA-F]+)\}", lambda mm: chr(int(mm.group(1), 16)), s)


def native(argv):
    """Runs /verif/replay's vmstep binary (dev and release); returns {profile: output line}."""
    exe_dir = os.path.join(ROOT, "replay")
    out = {}
    for profile, flag in (("dev", []), ("release", ["--release"])):
        b = subprocess.run(["cargo", "build", "--offline", "--bin", "vmstep"] + flag, cwd=exe_dir, env=dict(os.environ, CARGO_NET_OFFLINE="true"),
                           stdout=subprocess.PIPE, stderr=subprocess.STDOUT, text=True)
        if b.returncode:
            out[profile] = "BUILD-FAILED"
            continue
        exe = os.path.join(exe_dir, "target", "release" if flag else "debug", "vmstep")
        r = subprocess.run([exe] + argv, stdout=subprocess.PIPE, stderr=subprocess.STDOUT, text=True, timeout=60)
        out[profile] = r.stdout.strip() if r.returncode >= 0 else "SIGNAL %d %s" % (-r.returncode, r.stdout.strip()[-200:].replace("\n", " | "))
    return out


# ---------------------------------------------------------------------------------------------------------------
# kernel 1: array built-ins (dispatch_array_method): get(i) / set(i, v), bounds, kinds, argument counts, other names

def kernel_array_methods(task, bodies, enums, structs, max_len=2, max_args=3):
    body = next((b for k, b in bodies.items() if k == "dispatch_array_method" or k.endswith("::dispatch_array_method")), None)
    if body is None:
        task.result["inconclusive"].append("dispatch_array_method not found in the MIR dump")
        return
    name = z3.String("name")
    for n in range(0, max_len + 1):
        for m in range(0, max_args + 1):
            ex = mirx.Executor(bodies, enums, structs)
            store = {}
            b = Builder(ex, store, structs, enums)
            elems = [b.pointer("e%d" % i) for i in range(n)]
            arr = b.newtype("ArrayInstance", b.vec(elems))
            arr_cell = b.new(arr)
            args = [b.pointer("a%d" % i) for i in range(m)]
            try:
                outcomes = list(ex.run(body, [Ref(arr_cell), Str(name), b.vec(args)], b.constraints, store))
            except (mirx.Unsupported, KeyError, AttributeError, TypeError, IndexError) as e:
                task.result["inconclusive"].append("dispatch_array_method n=%d args=%d: MIR construct outside the executor: %r" % (n, m, e))
                continue
            e_terms = [b.syms["e%d" % i] for i in range(n)]
            a_terms = [b.syms["a%d" % i] for i in range(m)]
            is_get, is_set = name == z3.StringVal("get"), name == z3.StringVal("set")
            if m >= 1:
                k0, i0 = a_terms[0][0], a_terms[0][1]
                in_range = z3.And(k0 == K_INT, i0 >= 0, i0 < n)
            else:
                in_range, i0 = z3.BoolVal(False), None
            get_ok = z3.And(is_get, m == 1, in_range) if m == 1 else z3.BoolVal(False)
            set_ok = z3.And(is_set, m == 2, in_range) if m == 2 else z3.BoolVal(False)

            def judge(o, n=n, m=m, e_terms=e_terms, a_terms=a_terms, get_ok=get_ok, set_ok=set_ok, i0=i0, arr_cell=arr_cell):
                st = o.store
                final = st[st[arr_cell].cells[0]]
                final_terms = [pointer_terms(st, st[c]) for c in final.cells]
                if len(final_terms) != n:
                    return z3.BoolVal(False), "array length changed"
                unchanged = z3.And([same_pointer(final_terms[i], e_terms[i]) for i in range(n)]) if n else z3.BoolVal(True)
                if o.kind == "panic":
                    return z3.BoolVal(False), "panic: " + str(o.msg)
                if o.kind != "return":
                    return z3.BoolVal(False), "unreachable code reached"
                v = o.value
                if v.disc == 1:
                    return z3.And(z3.Not(get_ok), z3.Not(set_ok), unchanged), "Err"
                p = pointer_terms(st, st[v.payload[0][0]])
                conds = []
                for i in range(n):
                    at_i = i0 == i
                    conds.append(z3.Implies(z3.And(get_ok, at_i), z3.And(same_pointer(p, e_terms[i]), unchanged)))
                    if m == 2:
                        updated = z3.And([same_pointer(final_terms[j], a_terms[1] if j == i else e_terms[j]) for j in range(n)])
                        conds.append(z3.Implies(z3.And(set_ok, at_i), updated))
                return z3.And(z3.Or(get_ok, set_ok), *conds), "Ok"

            def describe(o, mdl, what, pathno, n=n, m=m, e_terms=e_terms, a_terms=a_terms):
                nm = decode_z3_string(mdl.eval(name, model_completion=True).as_string())
                argv = ["array-method", nm.encode().hex(), str(n)] + [model_pointer(mdl, t) for t in e_terms] + [model_pointer(mdl, t) for t in a_terms]
                observed = native(argv)
                expected = expect_array_method(nm, [model_pointer(mdl, t) for t in e_terms], [model_pointer(mdl, t) for t in a_terms])
                reproduced = any(line != expected for line in observed.values())
                return {"id": "array_method_n%d_args%d_path%d" % (n, m, pathno),
                        "what": "array built-in: outcome %s contradicts the documented get/set semantics for name %r, elements %s, arguments %s (expected %s, observed %s)" % (
                            what, nm, argv[3:3 + n], argv[3 + n:], expected, observed),
                        "reproduced": reproduced, "replay_bin": "vmstep", "replay_argv": argv, "expected": expected, "observed": observed}

            task.check_paths("dispatch_array_method", "length %d, %d arguments" % (n, m), ex, b.constraints, outcomes, judge, describe)


def expect_array_method(name, elems, args):
    """The documented outcome on concrete values, as the line the native binary prints."""
    def idx(a):
        return int(a[4:]) if a.startswith("int:") else None
    if name == "get" and len(args) == 1 and idx(args[0]) is not None and 0 <= idx(args[0]) < len(elems):
        return "OK %s [%s]" % (elems[idx(args[0])], " ".join(elems))
    if name == "set" and len(args) == 2 and idx(args[0]) is not None and 0 <= idx(args[0]) < len(elems):
        new = list(elems)
        new[idx(args[0])] = args[1]
        return "OK %s [%s]" % (args[1], " ".join(new))
    return "ERR [%s]" % " ".join(elems)


# ---------------------------------------------------------------------------------------------------------------
# kernel 2: function call (eval_call_function): frame layout, return address, arity, operand stack

def kernel_call_function(task, bodies, enums, structs):
    body = next((b for k, b in bodies.items() if k == "eval_call_function" or k.endswith("::eval_call_function")), None)
    if body is None:
        task.result["inconclusive"].append("eval_call_function not found in the MIR dump")
        return
    CODE_LEN = 6
    for params in (0, 1, 2):
        for nlocals in (0, 2):
            for depth in (params, params + 1):  # operand stack: sentinel + `depth` values (one too many is fine, the call takes the top `params`)
                ex = mirx.Executor(bodies, enums, structs)
                store = {}
                b = Builder(ex, store, structs, enums)
                start = z3.BitVec("start", 32)
                ip = z3.BitVec("ip", 32)
                given = z3.BitVec("given", 8)
                index = z3.BitVec("index", 16)
                b_constraints_extra = [z3.ULE(given, 4)]  # shape bound: call-site argument counts 0-4
                consts = [b.po_string("f"), b.po_method(0, params, nlocals, BV(start, 32, False), 1), b.po_int(7), b.po_string("g")]
                program = b.program(consts, CODE_LEN)
                stack = [b.pointer("s0")] + [b.pointer("v%d" % i) for i in range(depth)]
                base_locals = [b.pointer("l0")]
                state = b.state(stack, [b.frame(None, base_locals)], BV(ip, 32, False), [], functions=[("f", 1), ("h", 2)])
                state_cell = b.new(state)
                b.constraints += b_constraints_extra
                try:
                    outcomes = list(ex.run(body, [Ref(b.new(program)), Ref(state_cell), Ref(b.new(b.cpi(BV(index, 16, False)))),
                                                  Ref(b.new(b.newtype("Arity", BV(given, 8, False))))], b.constraints, store))
                except (mirx.Unsupported, KeyError, AttributeError, TypeError, IndexError) as e:
                    task.result["inconclusive"].append("eval_call_function params=%d locals=%d depth=%d: MIR construct outside the executor: %r; opaque calls so far: %s" % (params, nlocals, depth, e, sorted(ex.unmodelled)))
                    continue
                v_terms = [b.syms["v%d" % i] for i in range(depth)]
                defined = z3.And(index == 0, given == params)  # constant #0 = "f" names the registered function, arity matches

                def judge(o, params=params, nlocals=nlocals, depth=depth, v_terms=v_terms, defined=defined, b=b, state_cell=state_cell):
                    st = o.store
                    if o.kind == "panic":
                        return z3.BoolVal(False), "panic: " + str(o.msg)
                    if o.kind != "return":
                        return z3.BoolVal(False), "unreachable code reached"
                    if o.value.disc == 1:
                        return z3.Not(defined), "Err"
                    S = st[state_cell]
                    sf = structs["State"]
                    ostack = st[field(st, S, sf, "operand_stack").cells[0]]
                    fstack = field(st, S, sf, "frame_stack")
                    frames = field(st, fstack, structs["FrameStack"], "frames")
                    ipv = st[field(st, S, sf, "instruction_pointer").cells[0]]
                    conj = [defined]
                    # operand stack: exactly the arguments were popped
                    if len(ostack.cells) != 1 + depth - params:
                        return z3.BoolVal(False), "Ok but operand stack has %d values" % len(ostack.cells)
                    # frames: one new frame on top
                    if len(frames.cells) != 2:
                        return z3.BoolVal(False), "Ok but %d frames" % len(frames.cells)
                    top = st[frames.cells[1]]
                    locals_ = field(st, top, structs["Frame"], "locals")
                    if len(locals_.cells) != params + nlocals:
                        return z3.BoolVal(False), "Ok but new frame has %d slots" % len(locals_.cells)
                    taken = v_terms[depth - params:]
                    for i in range(params):  # argument i binds local i (deepest first)
                        conj.append(same_pointer(pointer_terms(st, st[locals_.cells[i]]), taken[i]))
                    for i in range(params, params + nlocals):  # remaining locals start as null
                        conj.append(pointer_terms(st, st[locals_.cells[i]])[0] == K_NULL)
                    # return address = the instruction after the call (None past the end of the code), ip = method start
                    ra = field(st, top, structs["Frame"], "return_address")
                    next_in = z3.ULT(z3.ZeroExt(32, ip) + 1, z3.BitVecVal(CODE_LEN, 64))
                    if isinstance(ra.disc, int):
                        if ra.disc == 1:
                            conj.append(z3.And(next_in, st[st[ra.payload[1][0]].cells[0]].t == ip + 1))
                        else:
                            conj.append(z3.Not(next_in))
                    else:
                        return None, "return address with symbolic discriminant"
                    if not isinstance(ipv.disc, int) or ipv.disc != 1:
                        return z3.BoolVal(False), "Ok but instruction pointer unset"
                    conj.append(st[st[ipv.payload[1][0]].cells[0]].t == start)
                    if any(c is None for c in conj):
                        return None, "opaque value in the post-state"
                    return z3.And(*conj), "Ok"

                def describe(o, mdl, what, pathno, params=params, nlocals=nlocals, depth=depth, v_terms=v_terms, b=b):
                    argv = ["call-function", str(params), str(nlocals), str(mdl.eval(start, model_completion=True).as_long()),
                            str(mdl.eval(ip, model_completion=True).as_long()), str(mdl.eval(index, model_completion=True).as_long()),
                            str(mdl.eval(given, model_completion=True).as_long()), model_pointer(mdl, b.syms["s0"])] + [model_pointer(mdl, t) for t in v_terms]
                    observed = native(argv)
                    expected = expect_call_function(argv)
                    reproduced = any(line != expected and not (expected == "ERR" and line.startswith("ERR")) for line in observed.values())
                    return {"id": "call_function_p%d_l%d_d%d_path%d" % (params, nlocals, depth, pathno),
                            "what": "function call: outcome %s contradicts the documented call semantics (parameters %d, locals %d, stack %s, constant #%s, arity %s; expected %s, observed %s)" % (
                                what, params, nlocals, argv[7:], argv[5], argv[6], expected, observed),
                            "reproduced": reproduced, "replay_bin": "vmstep", "replay_argv": argv, "expected": expected, "observed": observed}

                task.check_paths("eval_call_function", "%d parameters, %d locals, stack depth %d" % (params, nlocals, depth), ex, b.constraints, outcomes, judge, describe)


def expect_call_function(argv):
    params, nlocals, start, ip, index, given = [int(x) for x in argv[1:7]]
    stack = argv[7:]
    if index != 0 or given != params or len(stack) < params:
        return "ERR"
    taken = stack[len(stack) - params:] if params else []
    rest = stack[:len(stack) - params]
    ret = str(ip + 1) if ip + 1 < 6 else "none"
    return "OK ip=%d ret=%s frame=[%s] stack=[%s] frames=2" % (start, ret, " ".join(taken + ["null"] * nlocals), " ".join(rest))


# ---------------------------------------------------------------------------------------------------------------
# kernel 3: method call on objects (eval_call_method -> dispatch_method -> dispatch_object_method -> eval_call_object_method):
# receiver first, then its parent, ... ; primitives at the end of the chain supply their built-ins; argument count checked

def kernel_object_dispatch(task, bodies, enums, structs):
    import c09_dispatch as c09
    body = next((b for k, b in bodies.items() if k == "eval_call_method" or k.endswith("::eval_call_method")), None)
    if body is None:
        task.result["inconclusive"].append("eval_call_method not found in the MIR dump")
        return
    CODE_LEN = 6
    for recv in (0, 1):
        for nargs in (1, 2):
            ex = mirx.Executor(bodies, enums, structs)
            store = {}
            b = Builder(ex, store, structs, enums)
            name = z3.String("name")
            ip = z3.BitVec("ip", 32)
            S, T = z3.BitVec("S", 32), z3.BitVec("T", 32)
            V0, U = z3.BitVec("V0", 32), z3.BitVec("U", 32)
            parent = b.pointer("P")
            # shape: the chain ends in null / an integer / a boolean / the array in heap cell #2
            b.constraints.append(z3.Or(b.syms["P"][0] != K_REF, b.syms["P"][3] == 2))
            consts = [Enum("ProgramObject", PO.index("String"), {PO.index("String"): [b.new(Str(name))]})]
            program = b.program(consts, CODE_LEN)
            # `v` is defined at both levels with different parameter counts: the receiver's own definition hides the inherited one,
            # whatever the argument count of the call
            obj0 = b.object_cell(parent, [], [("m", b.po_method(0, 2, 1, BV(S, 32, False), 1)), ("v", b.po_method(0, 2, 1, BV(V0, 32, False), 1))])
            obj1 = b.object_cell(b.pointer_const(K_REF, 0), [], [("n", b.po_method(0, 2, 0, BV(T, 32, False), 1)), ("v", b.po_method(0, 3, 0, BV(U, 32, False), 1))])
            args = [b.pointer("a%d" % i) for i in range(nargs)]
            stack = [b.pointer("s0"), b.pointer_const(K_REF, recv)] + args
            arr2 = b.array_cell([b.pointer_const(K_INT, 10), b.pointer_const(K_INT, 20)])
            state = b.state(stack, [b.frame(None, [b.pointer("l0")])], BV(ip, 32, False), [obj0, obj1, arr2])
            state_cell = b.new(state)
            try:
                outcomes = list(ex.run(body, [Ref(b.new(program)), Ref(state_cell), Ref(b.new(b.cpi(0))),
                                              Ref(b.new(b.newtype("Arity", b.u(8, nargs + 1))))], b.constraints, store))
            except (mirx.Unsupported, KeyError, AttributeError, TypeError, IndexError) as e:
                task.result["inconclusive"].append("eval_call_method (object receiver %d, %d arguments): MIR construct outside the executor: %r; opaque calls: %s" % (
                    recv, nargs, e, sorted(ex.unmodelled)))
                continue
            a_terms = [b.syms["a%d" % i] for i in range(nargs)]
            pk, pi, pb, _pr = b.syms["P"]
            is_m, is_n, is_v = name == z3.StringVal("m"), name == z3.StringVal("n"), name == z3.StringVal("v")
            own = (is_n if recv == 1 else z3.BoolVal(False))           # defined by the receiver itself
            own_v = (is_v if recv == 1 else z3.BoolVal(False))         # the receiver's own three-parameter `v` (hides the parent's two-parameter one)
            inherited = is_m if recv == 1 else z3.BoolVal(False)       # found in the parent
            direct = z3.Or(is_m, is_v) if recv == 0 else z3.BoolVal(False)
            user = z3.Or(own, own_v, inherited, direct)
            next_in = z3.ULT(z3.ZeroExt(32, ip) + 1, z3.BitVecVal(CODE_LEN, 64))
            # built-in reached at the end of the chain
            rows_int = c09.spec(K_INT, pi, name, a_terms[0])
            rows_bool = c09.spec(K_BOOL, pb, name, a_terms[0])
            rows_null = []

            def builtin_defined(rows):
                return z3.Or([z3.And(r[0], r[1]) for r in rows]) if rows and nargs == 1 else z3.BoolVal(False)
            prim_defined = z3.And(z3.Not(user), z3.Or(z3.And(pk == K_INT, builtin_defined(rows_int)), z3.And(pk == K_BOOL, builtin_defined(rows_bool))))
            prim_dontcare = z3.And(z3.Not(user), pk == K_INT, z3.Or([z3.And(r[0], r[5]) for r in rows_int])) if nargs == 1 else z3.BoolVal(False)
            # the chain ends in an array: its built-ins get(i) / set(i, v) on the two elements
            in_range = z3.And(a_terms[0][0] == K_INT, a_terms[0][1] >= 0, a_terms[0][1] < 2)
            arr_get = z3.And(z3.Not(user), pk == K_REF, name == z3.StringVal("get"), in_range) if nargs == 1 else z3.BoolVal(False)
            arr_set = z3.And(z3.Not(user), pk == K_REF, name == z3.StringVal("set"), in_range) if nargs == 2 else z3.BoolVal(False)
            prim_defined = z3.Or(prim_defined, arr_get, arr_set)
            user_defined = z3.Or(z3.And(own_v, nargs == 2), z3.And(user, z3.Not(own_v), nargs == 1))

            def judge(o, recv=recv, nargs=nargs, a_terms=a_terms, state_cell=state_cell, b=b):
                st = o.store
                if o.kind == "panic":
                    if o.msg in c09.R9:
                        return z3.Or(z3.Not(z3.Or(prim_defined, user_defined)), prim_dontcare), "panic: " + o.msg
                    return z3.BoolVal(False), "panic: " + str(o.msg)
                if o.kind != "return":
                    return z3.BoolVal(False), "unreachable code reached"
                if o.value.disc == 1:
                    return z3.Or(z3.Not(z3.Or(prim_defined, user_defined)), prim_dontcare), "Err"
                S_ = st[state_cell]
                sf = structs["State"]
                ostack = st[field(st, S_, sf, "operand_stack").cells[0]]
                frames = field(st, field(st, S_, sf, "frame_stack"), structs["FrameStack"], "frames")
                ipv = st[field(st, S_, sf, "instruction_pointer").cells[0]]
                if len(frames.cells) == 2:
                    # a user method was entered
                    top = st[frames.cells[1]]
                    locals_ = field(st, top, structs["Frame"], "locals")
                    nloc = len(locals_.cells)
                    conj = [user_defined]
                    if len(ostack.cells) != 1:
                        return z3.BoolVal(False), "Ok(call) but operand stack has %d values" % len(ostack.cells)
                    slot0 = pointer_terms(st, st[locals_.cells[0]])
                    definer = 1 if recv == 1 else 0
                    # slot 0 is the receiver (the pinned code binds the defining object when the method is inherited; either is accepted)
                    conj.append(z3.And(slot0[0] == K_REF, z3.Or(slot0[3] == recv, z3.And(inherited, slot0[3] == 0))))
                    conj.append(same_pointer(pointer_terms(st, st[locals_.cells[1]]), a_terms[0]) if nloc >= 2 else z3.BoolVal(False))
                    # "m" and the parent's "v" have one extra local (null), "n" none; the receiver's own "v" takes two arguments and has no local
                    conj.append(z3.If(z3.Or(inherited, direct, own_v), z3.BoolVal(nloc == 3), z3.BoolVal(nloc == 2)))
                    if nloc == 3:
                        third = pointer_terms(st, st[locals_.cells[2]])
                        conj.append(z3.If(own_v, same_pointer(third, a_terms[1]) if nargs == 2 else z3.BoolVal(False), third[0] == K_NULL))
                    if not isinstance(ipv.disc, int) or ipv.disc != 1:
                        return z3.BoolVal(False), "Ok(call) but instruction pointer unset"
                    conj.append(st[st[ipv.payload[1][0]].cells[0]].t == z3.If(own, T, z3.If(own_v, U, z3.If(is_v, V0, S))))
                    ra = field(st, top, structs["Frame"], "return_address")
                    if not isinstance(ra.disc, int):
                        return None, "return address with symbolic discriminant"
                    conj.append(z3.And(next_in, st[st[ra.payload[1][0]].cells[0]].t == ip + 1) if ra.disc == 1 else z3.Not(next_in))
                    return z3.And(*conj), "Ok(call)"
                # a built-in ran: one result replaces receiver and argument
                if len(frames.cells) != 1 or len(ostack.cells) != 2:
                    return z3.BoolVal(False), "Ok(built-in) but %d frames / %d stack values" % (len(frames.cells), len(ostack.cells))
                res = pointer_terms(st, st[ostack.cells[1]])
                if None in res:
                    return None, "built-in result is an opaque value"
                conj = [z3.Or(prim_defined, prim_dontcare)]
                heap = field(st, S_, sf, "heap")
                cells_ = field(st, heap, structs["Heap"], "memory")
                arr_obj = st[cells_.cells[2]]
                elems = st[st[arr_obj.payload[0][0]].cells[0]]
                if len(elems.cells) != 2:
                    return z3.BoolVal(False), "Ok(built-in) but the array has %d elements" % len(elems.cells)
                e0, e1 = (pointer_terms(st, st[c]) for c in elems.cells)
                i0 = a_terms[0][1]
                conj.append(z3.Implies(arr_get, z3.And(res[0] == K_INT, res[1] == z3.If(i0 == 0, z3.BitVecVal(10, 32), z3.BitVecVal(20, 32)))))
                if nargs == 2:
                    kept = lambda e, v: z3.And(e[0] == K_INT, e[1] == v)
                    conj.append(z3.Implies(arr_set, z3.And(same_pointer(res, a_terms[1]),
                                                           z3.If(i0 == 0, z3.And(same_pointer(e0, a_terms[1]), kept(e1, 20)), z3.And(kept(e0, 10), same_pointer(e1, a_terms[1]))))))
                conj.append(z3.Implies(z3.Not(arr_set), z3.And(e0[0] == K_INT, e0[1] == 10, e1[0] == K_INT, e1[1] == 20)))
                for rows, kind in ((rows_int, K_INT), (rows_bool, K_BOOL)):
                    for (cond, dfn, rkind, ival, bval, dc) in rows:
                        same = z3.And(res[0] == rkind, res[1] == ival) if rkind == K_INT else z3.And(res[0] == rkind, res[2] == bval)
                        conj.append(z3.Implies(z3.And(pk == kind, cond), z3.Or(dc, z3.And(dfn, same))))
                if isinstance(ipv.disc, int):
                    conj.append(z3.And(next_in, st[st[ipv.payload[1][0]].cells[0]].t == ip + 1) if ipv.disc == 1 else z3.Not(next_in))
                return z3.And(*conj), "Ok(built-in)"

            def describe(o, mdl, what, pathno, recv=recv, nargs=nargs, a_terms=a_terms, b=b):
                nm = decode_z3_string(mdl.eval(name, model_completion=True).as_string())
                argv = ["object-method", nm.encode().hex(), str(recv), model_pointer(mdl, b.syms["P"])] + [model_pointer(mdl, t) for t in a_terms]
                observed = native(argv)
                expected = expect_object_method(nm, recv, argv[3], argv[4:])
                reproduced = any(not match_object_method(expected, line) for line in observed.values())
                return {"id": "object_method_recv%d_args%d_path%d" % (recv, nargs, pathno),
                        "what": "method call on an object: outcome %s contradicts parent-chain dispatch for receiver #%d, name %r, chain end %s, arguments %s (expected %s, observed %s)" % (
                            what, recv, nm, argv[3], argv[4:], expected, observed),
                        "reproduced": reproduced, "replay_bin": "vmstep", "replay_argv": argv, "expected": expected, "observed": observed}

            task.check_paths("eval_call_method on objects", "receiver #%d of a two-object chain, %d argument(s)" % (recv, nargs), ex, b.constraints, outcomes, judge, describe)


def expect_object_method(name, recv, parent, args):
    import c09_dispatch as c09
    if name == "v" and recv == 1:
        return "CALL" if len(args) == 2 else "ERR"      # the receiver's own v/3 hides the parent's v/2
    if (name == "n" and recv == 1) or name in ("m", "v"):
        return "CALL" if len(args) == 1 else "ERR"
    def val(p):
        if p == "null":
            return ("null", 0)
        k, v = p.split(":")
        return (k, bool(int(v)) if k == "bool" else int(v))
    if parent == "null":
        return "ERR"
    if parent.startswith("ref:"):   # the array [10, 20] in heap cell #2
        i = val(args[0]) if args else None
        ok = i is not None and i[0] == "int" and 0 <= i[1] < 2
        if name == "get" and len(args) == 1 and ok:
            return "OK int:%d" % (10, 20)[i[1]]
        if name == "set" and len(args) == 2 and ok:
            return "OK %s" % args[1]
        return "ERR"
    r = c09.concrete_spec(val(parent), name, [val(a) for a in args])
    if r[0] == "ok":
        return "OK %s:%d" % (r[1], int(r[2]))
    return "ANY" if r[0] == "dontcare" else "ERR"


def match_object_method(expected, line):
    if expected == "ANY":
        return True
    if expected == "ERR":
        return line.startswith("ERR") or (line.startswith("PANIC") and any(m in line for m in ("divide", "remainder")))
    if expected == "CALL":
        return line.startswith("CALL")
    return line == expected


def main():
    t0 = time.time()
    task = Task()
    try:
        text = mirx.dump_mir()
        bodies = mirx.parse_mir(text)
        enums, structs = mirx.parse_adts(["/repo/src/bytecode/heap.rs", "/repo/src/bytecode/program.rs", "/repo/src/bytecode/bytecode.rs",
                                          "/repo/src/bytecode/state.rs", "/repo/src/parser/mod.rs"])
    except Exception as e:
        task.result["inconclusive"].append("MIR dump / parse failed: %s" % str(e)[-600:])
        print(json.dumps(task.result))
        return
    which = sys.argv[1:] or ["array", "call", "object"]
    if "array" in which:
        kernel_array_methods(task, bodies, enums, structs)
    if "call" in which:
        kernel_call_function(task, bodies, enums, structs)
    if "object" in which:
        kernel_object_dispatch(task, bodies, enums, structs)
    r = task.result
    r["nontrivial"] = r["discharged"]
    r["solver_s"] = round(r["solver_s"], 2)
    r["wall_s"] = round(time.time() - t0, 1)
    r["bound"] = "arrays of length 0-2 with 0-3 arguments; function calls with 0-2 parameters, 0 or 2 locals, operand stack of parameters(+1) values; every Pointer, index, address and method name symbolic"
    r["samples"] = [{"kernel": k["kernel"], "shape": k["shape"], "paths": k["paths"]} for k in r["kernels"][:6]]
    print(json.dumps(r))


if __name__ == "__main__":
    main()
