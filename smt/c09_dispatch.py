#!/usr/bin/env python3
"""C09 — the built-in dispatch tables, decided on their MIR with z3.

For dispatch_null_method / dispatch_integer_method / dispatch_boolean_method (MIR dumped from /repo now), every
path is enumerated symbolically with: the method name a z3 *string* (any length, any content), the receiver
payload a 32-bit vector / Boolean, 0-3 arguments each a symbolic Pointer (kind and payload). For every path one
z3 query asks for an input on which the path's outcome differs from the documented table; unsat on every path
and a covering check (the path conditions exhaust the input space) decide the function. This is where the
numeric result of * / % is decided over the full 2^32 x 2^32 space (term-level: the divider is never bit-blasted
against a second one).

Output: one JSON object on stdout (consumed by lib/smttasks.py).
"""
import json
import os
import subprocess
import sys
import time

import z3

sys.path.insert(0, os.path.dirname(os.path.abspath(__file__)))
import mirx as mirsym  # noqa: E402
from mirx import BV, Bool, Enum, Ref, Str, Tup, VecV, Opaque  # noqa: E402

ROOT = mirsym.ROOT
OPS = [("+", "add"), ("-", "sub"), ("*", "mul"), ("/", "div"), ("%", "mod"), ("<=", "le"), (">=", "ge"), ("<", "lt"), (">", "gt"),
       ("==", "eq"), ("!=", "neq"), ("&", "and"), ("|", "or")]
R9 = ("attempt to divide by zero", "attempt to calculate the remainder with a divisor of zero",
      "attempt to divide with overflow", "attempt to calculate the remainder with overflow")
K_NULL, K_INT, K_BOOL, K_REF = 0, 1, 2, 3
MIN = z3.BitVecVal(-2 ** 31, 32)


def sym_pointer(ex, store, i):
    k = z3.Int("k%d" % i)
    ai = z3.BitVec("ai%d" % i, 32)
    ab = z3.Bool("ab%d" % i)
    ar = z3.BitVec("ar%d" % i, 64)
    new = lambda v: ex.world.new(store, v)
    e = Enum("Pointer", k, {K_INT: [new(BV(ai, 32, True))], K_BOOL: [new(Bool(ab))], K_REF: [new(Tup([new(BV(ar, 64, False))], "HeapIndex"))]})
    return e, (k, ai, ab, ar), [k >= 0, k <= 3]


def spec(recv_kind, a, name, arg):
    """The documented table for one argument: list of (condition, defined, kind, int term, bool term, dont_care)."""
    k, ai, ab, _ar = arg
    is_op = lambda i: z3.Or(name == z3.StringVal(OPS[i][0]), name == z3.StringVal(OPS[i][1]))
    rows = []
    F, T = z3.BoolVal(False), z3.BoolVal(True)
    zero32 = z3.BitVecVal(0, 32)
    if recv_kind == K_INT:
        argint = k == K_INT
        arith = [(0, a + ai), (1, a - ai), (2, a * ai)]
        for i, val in arith:
            rows.append((is_op(i), argint, K_INT, val, F, F))
        bad = z3.Or(ai == 0, z3.And(a == MIN, ai == -1))
        rows.append((is_op(3), z3.And(argint, z3.Not(bad)), K_INT, a / ai, F, F))
        rows.append((is_op(4), z3.And(argint, z3.Not(bad)), K_INT, z3.SRem(a, ai), F, z3.And(argint, a == MIN, ai == -1)))
        for i, val in [(5, a <= ai), (6, a >= ai), (7, a < ai), (8, a > ai)]:
            rows.append((is_op(i), argint, K_BOOL, zero32, val, F))
        rows.append((is_op(9), T, K_BOOL, zero32, z3.And(argint, a == ai), F))
        rows.append((is_op(10), T, K_BOOL, zero32, z3.Not(z3.And(argint, a == ai)), F))
    elif recv_kind == K_BOOL:
        argbool = k == K_BOOL
        rows.append((is_op(11), argbool, K_BOOL, zero32, z3.And(a, ab), F))
        rows.append((is_op(12), argbool, K_BOOL, zero32, z3.Or(a, ab), F))
        rows.append((is_op(9), T, K_BOOL, zero32, z3.And(argbool, a == ab), F))
        rows.append((is_op(10), T, K_BOOL, zero32, z3.Not(z3.And(argbool, a == ab)), F))
    else:
        rows.append((is_op(9), T, K_BOOL, zero32, k == K_NULL, F))
        rows.append((is_op(10), T, K_BOOL, zero32, k != K_NULL, F))
    return rows


def agreement(outcome, rows, nargs):
    """z3 formula: this path's outcome is what the table prescribes (under the path condition)."""
    any_row = z3.Or([r[0] for r in rows]) if rows else z3.BoolVal(False)
    defined = z3.Or([z3.And(r[0], r[1]) for r in rows]) if (rows and nargs == 1) else z3.BoolVal(False)
    dont_care = z3.Or([z3.And(r[0], r[5]) for r in rows]) if (rows and nargs == 1) else z3.BoolVal(False)
    if outcome.kind == "panic":
        if outcome.msg in R9:
            # Rust's division panic is the accepted failure exactly where the table defines none
            return z3.Or(z3.Not(defined), dont_care), "panic: " + outcome.msg
        return z3.BoolVal(False), "panic: " + str(outcome.msg)
    if outcome.kind == "unreachable":
        return z3.BoolVal(False), "unreachable code reached"
    v = outcome.value
    st = outcome.store
    if not isinstance(v, Enum) or v.adt != "Result" or not isinstance(v.disc, int):
        return None, "return value not understood"
    if v.disc == 1:
        return z3.Or(z3.Not(defined), dont_care), "Err"
    p = st[v.payload[0][0]]
    if not isinstance(p, Enum) or not isinstance(p.disc, int):
        return None, "Ok payload not understood"
    if nargs != 1:
        return z3.BoolVal(False), "Ok(kind %d)" % p.disc
    conj = []
    for (cond, dfn, kind, ival, bval, dc) in rows:
        same = z3.BoolVal(False)
        if p.disc == kind == K_INT:
            got = st[p.payload[K_INT][0]]
            if not isinstance(got, BV):
                return None, "integer result is an opaque value (a callee outside the executor's models produced it)"
            same = got.t == ival
        elif p.disc == kind == K_BOOL:
            got = st[p.payload[K_BOOL][0]]
            if not isinstance(got, Bool):
                return None, "boolean result is an opaque value (a callee outside the executor's models produced it)"
            same = got.t == bval
        conj.append(z3.Implies(cond, z3.Or(dc, z3.And(dfn, same))))
    return z3.And(any_row, *conj), "Ok(kind %d)" % p.disc


def concrete_spec(recv, name, args):
    """The same table on concrete values, in plain Python (used to judge native replays)."""
    def w32(x):
        x &= 0xFFFFFFFF
        return x - (1 << 32) if x >= 1 << 31 else x
    if len(args) != 1:
        return ("fail",)
    arg = args[0]
    op = None
    for i, (s, f) in enumerate(OPS):
        if name in (s, f):
            op = i
    if op is None:
        return ("fail",)
    rk, rv = recv
    ak, av = arg
    if rk == "int":
        if op in (9, 10):
            eq = ak == "int" and av == rv
            return ("ok", "bool", eq if op == 9 else not eq)
        if op > 8 or ak != "int":
            return ("fail",)
        a, b = rv, av
        if op == 0:
            return ("ok", "int", w32(a + b))
        if op == 1:
            return ("ok", "int", w32(a - b))
        if op == 2:
            return ("ok", "int", w32(a * b))
        if op in (3, 4):
            if b == 0 or (a == -2 ** 31 and b == -1):
                return ("dontcare",) if (op == 4 and b == -1) else ("fail",)
            q = abs(a) // abs(b)
            if (a < 0) != (b < 0):
                q = -q
            return ("ok", "int", q if op == 3 else a - q * b)
        return ("ok", "bool", [a <= b, a >= b, a < b, a > b][op - 5])
    if rk == "bool":
        if op in (9, 10):
            eq = ak == "bool" and av == rv
            return ("ok", "bool", eq if op == 9 else not eq)
        if op in (11, 12) and ak == "bool":
            return ("ok", "bool", (rv and av) if op == 11 else (rv or av))
        return ("fail",)
    if op == 9:
        return ("ok", "bool", ak == "null")
    if op == 10:
        return ("ok", "bool", ak != "null")
    return ("fail",)


def model_value(m, t, default=0):
    v = m.eval(t, model_completion=True)
    if z3.is_bv_value(v):
        return v.as_signed_long() if v.size() == 32 else v.as_long()
    if z3.is_true(v):
        return True
    if z3.is_false(v):
        return False
    if z3.is_int_value(v):
        return v.as_long()
    if z3.is_string_value(v):
        return v.as_string()
    return default


def fmt_val(kind, val):
    return "null" if kind == "null" else "%s:%d" % (kind, int(val))


def native_replay(recv, name, args):
    """Runs the real eval_call_method natively (dev and release) and returns the observed outcome lines."""
    exe_dir = os.path.join(ROOT, "replay")
    raw = name.encode("utf-8", "surrogatepass") if isinstance(name, str) else name
    argv = [raw.hex(), fmt_val(*recv)] + [fmt_val(*a) for a in args]
    out = {}
    for profile, flag in (("dev", []), ("release", ["--release"])):
        b = subprocess.run(["cargo", "build", "--offline", "--bin", "dispatch"] + flag, cwd=exe_dir,
                           env=dict(os.environ, CARGO_NET_OFFLINE="true"), stdout=subprocess.PIPE, stderr=subprocess.STDOUT, text=True)
        if b.returncode:
            out[profile] = "BUILD-FAILED"
            continue
        exe = os.path.join(exe_dir, "target", "release" if flag else "debug", "dispatch")
        r = subprocess.run([exe] + argv, stdout=subprocess.PIPE, stderr=subprocess.STDOUT, text=True)
        out[profile] = r.stdout.strip()
    return out, argv


def judge(expected, line):
    """Does the observed native outcome contradict the table?"""
    if expected[0] == "dontcare":
        return False
    if expected[0] == "fail":
        return line.startswith("OK ") or (line.startswith("PANIC") and not any(m in line for m in R9))
    want = "OK %s:%d" % (expected[1], int(expected[2]))
    return line != want


def decode_z3_string(s):
    # z3 prints non-printable / non-ASCII characters as \u{..}
    import re
    return re.sub(r"\\u\{([0-9a-fA-F]+)\}", lambda m: chr(int(m.group(1), 16)), s)


def main():
    t0 = time.time()
    max_args = 3
    text = mirsym.dump_mir()
    bodies = mirsym.parse_mir(text)
    enums, structs = mirsym.parse_adts(["/repo/src/bytecode/heap.rs", "/repo/src/bytecode/program.rs", "/repo/src/bytecode/bytecode.rs",
                                        "/repo/src/bytecode/state.rs", "/repo/src/parser/mod.rs"])
    result = {"name": "c09_dispatch_mir", "queries": 0, "discharged": 0, "nontrivial": 0, "violations": [], "inconclusive": [],
              "samples": [], "functions": [], "paths": 0, "solver_s": 0.0}
    targets = [("dispatch_null_method", K_NULL), ("dispatch_integer_method", K_INT), ("dispatch_boolean_method", K_BOOL)]
    name = z3.String("name")
    for fname, rk in targets:
        body = next((b for k, b in bodies.items() if k == fname or k.endswith("::" + fname)), None)
        if body is None:
            result["inconclusive"].append("function %s not found in the MIR dump" % fname)
            continue
        for nargs in range(0, max_args + 1):
            ex = mirsym.Executor(bodies, enums, structs)
            store = {}
            args_cells, arg_vars, constraints = [], [], []
            for i in range(nargs):
                e, vars_, cs = sym_pointer(ex, store, i)
                args_cells.append(ex.world.new(store, e))
                arg_vars.append(vars_)
                constraints += cs
            vec = VecV(args_cells)
            if rk == K_INT:
                a = z3.BitVec("a", 32)
                call_args = [Ref(ex.world.new(store, BV(a, 32, True))), Str(name), vec]
            elif rk == K_BOOL:
                a = z3.Bool("a")
                call_args = [Ref(ex.world.new(store, Bool(a))), Str(name), vec]
            else:
                a = None
                call_args = [Str(name), vec]
            try:
                outcomes = list(ex.run(body, call_args, constraints, store))
            except (mirsym.Unsupported, AttributeError, KeyError, TypeError, IndexError) as e:
                result["inconclusive"].append("%s/%d args: MIR construct outside the executor: %s" % (fname, nargs, e))
                continue
            rows = spec(rk, a, name, arg_vars[0]) if nargs >= 1 else spec(rk, a, name, (z3.Int("k_none"), z3.BitVec("x", 32), z3.Bool("y"), None))
            fn_paths = 0
            ok_paths = 0
            for o in outcomes:
                fn_paths += 1
                f, what = agreement(o, rows, nargs)
                if f is None:
                    result["inconclusive"].append("%s/%d args: %s" % (fname, nargs, what))
                    continue
                s = z3.Solver()
                s.set("timeout", 120000)
                for c in o.pc:
                    s.add(c)
                s.add(z3.Not(f))
                t1 = time.time()
                r = s.check()
                result["solver_s"] += time.time() - t1
                result["queries"] += 1
                if r == z3.unsat:
                    result["discharged"] += 1
                    if what.startswith("Ok"):
                        ok_paths += 1
                elif r == z3.sat:
                    m = s.model()
                    nm = decode_z3_string(model_value(m, name, ""))
                    recv = ("null", 0) if rk == K_NULL else (("int", model_value(m, a)) if rk == K_INT else ("bool", 1 if model_value(m, a) else 0))
                    cargs = []
                    for (k, ai, ab, ar) in arg_vars:
                        kk = model_value(m, k)
                        cargs.append([("null", 0), ("int", model_value(m, ai)), ("bool", 1 if model_value(m, ab) else 0), ("ref", model_value(m, ar))][kk])
                    expected = concrete_spec((recv[0], bool(recv[1]) if recv[0] == "bool" else recv[1]), nm,
                                             [(k, bool(v) if k == "bool" else v) for k, v in cargs])
                    observed, argv = native_replay(recv, nm, cargs)
                    reproduced = any(judge(expected, line) for line in observed.values())
                    result["violations"].append({
                        "id": "%s_%dargs_path%d" % (fname, nargs, fn_paths),
                        "what": "%s: path outcome %s contradicts the table for receiver %s, name %r, arguments %s (expected %s, observed %s)" % (
                            fname, what, recv, nm, cargs, expected, observed),
                        "reproduced": reproduced, "replay_argv": argv, "replay_bin": "dispatch", "expected": list(expected), "observed": observed})
                else:
                    result["inconclusive"].append("%s/%d args: z3 answered %s on a path (%s)" % (fname, nargs, r, what))
            # covering obligation: the enumerated paths exhaust the input space (nothing was dropped)
            s = z3.Solver()
            s.set("timeout", 120000)
            for c in constraints:
                s.add(c)
            s.add(z3.Not(z3.Or([z3.And(o.pc) if o.pc else z3.BoolVal(True) for o in outcomes])))
            t1 = time.time()
            r = s.check()
            result["solver_s"] += time.time() - t1
            result["queries"] += 1
            if r == z3.unsat:
                result["discharged"] += 1
            else:
                result["inconclusive"].append("%s/%d args: enumerated paths do not cover the input space (%s)" % (fname, nargs, r))
            if ex.unmodelled:
                # an opaque call may only feed error messages; outcomes above never inspect opaque values, so this is informational
                pass
            result["paths"] += fn_paths
            result["queries"] += ex.queries
            result["solver_s"] += ex.solver_seconds
            if nargs == 1:
                expected_ok = {K_NULL: 2, K_INT: 11, K_BOOL: 4}[rk]
                if ok_paths < expected_ok:
                    result["inconclusive"].append("%s: only %d value-returning paths verified, the table has %d operations (vacuity guard)" % (fname, ok_paths, expected_ok))
            result["functions"].append({"function": fname, "arguments": nargs, "paths": fn_paths, "value_paths_verified": ok_paths,
                                        "inlined": sorted(ex.inlined), "modelled": sorted(ex.modelled), "opaque_calls": sorted(ex.unmodelled)})
            if len(result["samples"]) < 4 and outcomes:
                o = outcomes[min(3, len(outcomes) - 1)]
                result["samples"].append({"function": fname, "arguments": nargs, "path_condition": [str(c)[:120] for c in o.pc][:6], "outcome": o.kind})
    result["nontrivial"] = result["discharged"]
    result["solver_s"] = round(result["solver_s"], 2)
    result["wall_s"] = round(time.time() - t0, 1)
    result["bound"] = "method name: any string; receiver payload: all values; 0-%d arguments, each of any kind and payload" % max_args
    print(json.dumps(result))


if __name__ == "__main__":
    main()
