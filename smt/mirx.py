"""A small symbolic executor for the MIR of kernels of kondziu/FML, with z3 as the decision procedure.

The MIR is dumped from /repo's current sources on every run (`cargo +nightly rustc -- -Zunpretty=mir` on the
include-only crate /verif/mir). Functions defined in the dump — closures included — are executed from their own
MIR (calls are inlined); functions of core/alloc that the kernels call are modelled from their documented
semantics: the list is MODELS below and is part of the trusted base. Anything else yields an *opaque* value; a
property that would have to inspect an opaque value makes the run inconclusive, never a pass.

Memory is a store (cell id -> value) that is threaded along every path, so a mutation through a `&mut` made in a
callee is seen by the caller and forked paths never share writes. Values: bit-vectors (machine integers wrap),
z3 Booleans, z3 strings (`&str` / `String`: any length, any content), enum / struct / tuple trees of cells,
references to cells, vectors and iterators of *concrete length* with symbolic contents (the shape bound of a
task). Paths are enumerated depth-first, z3 prunes infeasible branches; a basic block may be re-entered at most
`loop_bound` times on one path (iterator loops of concrete length terminate on their own).
"""
import os
import re
import subprocess
import time

import z3

ROOT = os.path.dirname(os.path.dirname(os.path.abspath(__file__)))
MIR_CRATE = os.path.join(ROOT, "mir")


# ---------------------------------------------------------------------------------------------------------------
# dumping and parsing

def dump_mir(out_path=None):
    lock = os.path.join(MIR_CRATE, "Cargo.lock")
    if not os.path.exists(lock):
        import shutil
        shutil.copy("/repo/Cargo.lock", lock)
    env = dict(os.environ, CARGO_NET_OFFLINE="true")
    os.utime(os.path.join(MIR_CRATE, "src", "lib.rs"))
    p = subprocess.run(["cargo", "+nightly", "rustc", "--offline", "--lib", "--", "-Zunpretty=mir",
                        "-C", "debug-assertions=off", "-C", "overflow-checks=on"],
                       cwd=MIR_CRATE, env=env, stdout=subprocess.PIPE, stderr=subprocess.PIPE, text=True)
    if p.returncode != 0:
        raise RuntimeError("MIR dump failed:\n" + p.stderr[-3000:])
    if out_path:
        with open(out_path, "w") as f:
            f.write(p.stdout)
    return p.stdout


class Body:
    def __init__(self, name, params, ret, header):
        self.name, self.params, self.ret, self.header = name, params, ret, header
        self.local_types = {}
        self.blocks = {}


_HDR_FN = re.compile(r"^fn (.+?)\((.*)\) -> (.+) \{$")
_HDR_CONST = re.compile(r"^const (.+): (.+?) = \{$")


def _split_top(s, sep=","):
    out, depth, cur = [], 0, ""
    i = 0
    while i < len(s):
        c = s[i]
        if c in "([<{":
            depth += 1
        elif c in ")]}":
            depth -= 1
        elif c == ">" and not (i > 0 and s[i - 1] in "-="):
            depth -= 1
        if c == sep and depth == 0:
            out.append(cur.strip())
            cur = ""
        else:
            cur += c
        i += 1
    if cur.strip():
        out.append(cur.strip())
    return out


def parse_mir(text):
    bodies = {}
    lines = text.splitlines()
    i = 0
    while i < len(lines):
        line = lines[i]
        m = _HDR_FN.match(line)
        c = _HDR_CONST.match(line) if not m else None
        if not m and not c:
            i += 1
            continue
        if m:
            params = []
            for p in _split_top(m.group(2)):
                pm = re.match(r"^(_\d+): (.+)$", p)
                if pm:
                    params.append((pm.group(1), pm.group(2)))
            body = Body(m.group(1), params, m.group(3), line)
        else:
            body = Body(c.group(1), [], c.group(2), line)
        i += 1
        cur = None
        while i < len(lines) and lines[i] != "}":
            l = lines[i]
            lm = re.match(r"^\s+let (?:mut )?(_\d+): (.+);$", l)
            bm = re.match(r"^\s+(bb\d+)(?: \(cleanup\))?: \{$", l)
            if lm:
                body.local_types[lm.group(1)] = lm.group(2)
            elif bm:
                cur = bm.group(1)
                body.blocks[cur] = []
            elif cur is not None:
                s = l.strip()
                if s == "}":
                    cur = None
                elif s:
                    body.blocks[cur].append(s)
            i += 1
        for (p, t) in body.params:
            body.local_types[p] = t
        body.local_types["_0"] = body.ret
        bodies.setdefault(body.name, body)
        i += 1
    return bodies


def parse_adts(paths):
    """enum name -> variant names; struct name -> field names; both in declaration order (MIR indexes by it)."""
    enums = {"Option": ["None", "Some"], "Result": ["Ok", "Err"], "ControlFlow": ["Continue", "Break"]}
    structs = {}
    for p in paths:
        src = open(p).read()
        src = re.sub(r"/\*.*?\*/", "", src, flags=re.S)
        src = re.sub(r"//[^\n]*", "", src)
        for m in re.finditer(r"\b(enum|struct)\s+(\w+)\s*(?:<[^>{(]*>)?\s*([{(])", src):
            kind, name, opener = m.group(1), m.group(2), m.group(3)
            closer = "}" if opener == "{" else ")"
            i = m.end()
            depth, j = 1, i
            while depth and j < len(src):
                if src[j] == opener:
                    depth += 1
                elif src[j] == closer:
                    depth -= 1
                j += 1
            body = src[i:j - 1]
            items, d, cur = [], 0, ""
            for ch in body:
                if ch in "({[<":
                    d += 1
                elif ch in ")}]>":
                    d -= 1
                if ch == "," and d == 0:
                    items.append(cur)
                    cur = ""
                else:
                    cur += ch
            items.append(cur)
            names = []
            for it in items:
                it = re.sub(r"#\[[^\]]*\]", "", it).strip()
                it = re.sub(r"^pub(\([^)]*\))?\s+", "", it)
                vm = re.match(r"^(\w+)", it)
                if vm and it:
                    names.append(vm.group(1))
            if kind == "enum":
                enums[name] = names
            elif opener == "{":
                structs[name] = names
            else:
                structs[name] = [str(k) for k in range(len([x for x in items if x.strip()]))]
    return enums, structs


# ---------------------------------------------------------------------------------------------------------------
# values (immutable; cells are integer ids resolved through the path's store)

class BV:
    def __init__(self, t, width, signed):
        self.t, self.width, self.signed = t, width, signed


class Bool:
    def __init__(self, t):
        self.t = t


class Str:
    def __init__(self, t):
        self.t = t


class Ref:
    def __init__(self, cell):
        self.cell = cell


class Tup:
    def __init__(self, cells, adt=None):
        self.cells, self.adt = tuple(cells), adt


class Enum:
    """disc: python int (concrete) or z3 Int term; payload: dict variant index -> tuple of cell ids."""

    def __init__(self, adt, disc, payload):
        self.adt, self.disc, self.payload = adt, disc, {k: tuple(v) for k, v in payload.items()}


class VecV:
    def __init__(self, cells):
        self.cells = tuple(cells)


class Slice:
    def __init__(self, vec_cell):
        self.vec_cell = vec_cell  # a slice is a view of a vector cell (so writes through it reach the vector)


class Iter:
    """An iterator of concrete length: kind in range|vec|map|chain|repeat|take|rev; state is immutable."""

    def __init__(self, kind, **kw):
        self.kind = kind
        self.__dict__.update(kw)


class Closure:
    def __init__(self, loc, captures):
        self.loc, self.captures = loc, tuple(captures)


class FnItem:
    """A function named as a value (`.map(ConstantPoolIndex::new)`)."""

    def __init__(self, name):
        self.name = name


class MapV:
    """HashMap / IndexMap with concrete keys in insertion order: tuple of (key string, value cell id)."""

    def __init__(self, entries):
        self.entries = tuple(entries)


class Opaque:
    def __init__(self, what):
        self.what = what


class Unit:
    pass


INT_TYPES = {"i8": (8, True), "i16": (16, True), "i32": (32, True), "i64": (64, True), "isize": (64, True), "i128": (128, True),
             "u8": (8, False), "u16": (16, False), "u32": (32, False), "u64": (64, False), "usize": (64, False), "u128": (128, False)}


class Unsupported(Exception):
    pass


class Outcome:
    def __init__(self, kind, pc, store, value=None, msg=None, frame=None):
        self.kind, self.pc, self.store, self.value, self.msg, self.frame = kind, pc, store, value, msg, frame


class World:
    """Allocation of cell ids and store helpers. Stores are plain dicts owned by exactly one path."""

    def __init__(self):
        self.next = 1

    def new(self, store, value):
        i = self.next
        self.next += 1
        store[i] = value
        return i

    def copy_value(self, store, v):
        """Deep copy for `copy` of an aggregate: fresh cells, so the copy is independent."""
        if isinstance(v, Tup):
            return Tup([self.new(store, self.copy_value(store, store[c])) for c in v.cells], v.adt)
        if isinstance(v, Enum):
            return Enum(v.adt, v.disc, {k: [self.new(store, self.copy_value(store, store[c])) for c in cs] for k, cs in v.payload.items()})
        if isinstance(v, VecV):
            return VecV([self.new(store, self.copy_value(store, store[c])) for c in v.cells])
        if isinstance(v, MapV):
            return MapV([(k, self.new(store, self.copy_value(store, store[c]))) for k, c in v.entries])
        return v


# ---------------------------------------------------------------------------------------------------------------
# the executor

class Executor:
    def __init__(self, bodies, enums, structs=None, max_depth=40, loop_bound=12):
        self.bodies, self.enums, self.structs = bodies, enums, structs or {}
        self.max_depth, self.loop_bound = max_depth, loop_bound
        self.world = World()
        self.solver = z3.Solver()
        self.solver_seconds = 0.0
        self.queries = 0
        self.unmodelled, self.inlined, self.modelled = set(), set(), set()
        self.axioms = []  # constraints on auxiliary constants the models introduce (e.g. size_of::<T>() >= 1)
        self.closures = {}
        for k, b in bodies.items():
            if "{closure#" in k and b.params:
                m = re.search(r"\{closure@([^}]+)\}", b.params[0][1])
                if m:
                    self.closures[m.group(1)] = b

    # -- helpers
    def feasible(self, pc):
        self.solver.push()
        for c in pc:
            self.solver.add(c)
        t0 = time.time()
        r = self.solver.check()
        self.solver_seconds += time.time() - t0
        self.queries += 1
        self.solver.pop()
        return r != z3.unsat

    def concretize(self, t, pc, what):
        """The single value a bit-vector term can take under the path condition (e.g. an argument count that a preceding
        check has pinned to the callee's parameter count); anything else is outside the shape bound."""
        sv = z3.simplify(t)
        if z3.is_bv_value(sv):
            return sv.as_long()
        self.solver.push()
        for c in pc:
            self.solver.add(c)
        t0 = time.time()
        r = self.solver.check()
        v = None
        if r == z3.sat:
            v = self.solver.model().eval(t, model_completion=True)
            self.solver.add(t != v)
            if self.solver.check() != z3.unsat:
                v = None
        self.solver_seconds += time.time() - t0
        self.queries += 2
        self.solver.pop()
        if v is None:
            raise Unsupported("%s is not pinned to one value by the path condition" % what)
        return v.as_long()

    def value_branches(self, t, pc, what, limit=8):
        """[(value, extra path constraint)] for a bit-vector term: its constant value, or — when the path condition does not
        pin it — every feasible value up to `limit`; a feasible value beyond the limit is outside the shape bound."""
        sv = z3.simplify(t)
        if z3.is_bv_value(sv):
            return [(sv.as_long(), None)]
        out = []
        for v in range(limit + 1):
            c = t == v
            if self.feasible(pc + [c]):
                out.append((v, c))
        if self.feasible(pc + [z3.UGT(t, z3.BitVecVal(limit, t.size()))]):
            raise Unsupported("%s can exceed %d on this path (outside the shape bound)" % (what, limit))
        return out

    def variant_index(self, adt, name):
        vs = self.enums.get(adt)
        if vs is None or name not in vs:
            raise Unsupported("unknown enum variant %s::%s" % (adt, name))
        return vs.index(name)

    def find_body(self, callee, nargs):
        if callee in self.bodies:
            return self.bodies[callee]
        name = callee
        # strip generic arguments (turbofish segments, nested ones included)
        prev = None
        while prev != name:
            prev = name
            name = re.sub(r"::<[^<>]*>", "", name)
        while "::<" in name:
            i = name.index("::<")
            depth, j = 0, i + 2
            while j < len(name):
                if name[j] == "<":
                    depth += 1
                elif name[j] == ">" and name[j - 1] not in "-=":
                    depth -= 1
                    if depth == 0:
                        break
                j += 1
            if j >= len(name):
                break
            name = name[:i] + name[j + 1:]
        if name in self.bodies:
            return self.bodies[name]
        m = re.match(r"^<(.+?) as (.+)>::(\w+)$", callee) or re.match(r"^<(.+?) as (.+)>::(\w+)$", name)
        short = lambda t: re.sub(r"[A-Za-z_0-9]+::", "", t).replace(" ", "")
        if m:
            self_ty, trait, meth = m.group(1), m.group(2), m.group(3)
            tm = re.match(r"^(?:[\w:]*::)?(\w+)<(.+)>$", trait)
            cands = []
            for k, b in self.bodies.items():
                if not re.search(r"<impl at [^>]+>::%s$" % re.escape(meth), k) or len(b.params) != nargs:
                    continue
                ret, p0 = short(b.ret), short(b.params[0][1]) if b.params else ""
                if tm and tm.group(1) == "From" and ret == short(self_ty) and p0 == short(tm.group(2)):
                    cands.append(b)
                elif tm and tm.group(1) == "Into" and p0 == short(self_ty) and ret == short(tm.group(2)):
                    cands.append(b)
            if len(cands) == 1:
                return cands[0]
            # any other trait method of a type of the dump (derived PartialEq / Clone ...): the impl body whose receiver is that type
            strip = lambda t: short(t).lstrip("&").replace("mut", "")
            cands = [b for k, b in self.bodies.items() if re.search(r"<impl at [^>]+>::%s$" % re.escape(meth), k) and len(b.params) == nargs
                     and b.params and strip(b.params[0][1]) == strip(self_ty)]
            if len(cands) == 1:
                return cands[0]
            # a static trait method (no receiver): the impl whose return type is the implementing type
            cands = [b for k, b in self.bodies.items() if re.search(r"<impl at [^>]+>::%s$" % re.escape(meth), k) and len(b.params) == nargs
                     and short(b.ret) == short(self_ty) and not (b.params and strip(b.params[0][1]) == strip(self_ty))]
            if len(cands) == 1:
                return cands[0]
            return None
        parts = name.split("::")
        tail = parts[-1]
        owner = parts[-2] if len(parts) > 1 else None
        if owner and owner[:1].isupper():
            cands = [b for k, b in self.bodies.items() if re.search(r"<impl at [^>]+>::%s$" % re.escape(tail), k) and len(b.params) == nargs]

            def owner_ok(b):
                first = b.params[0][1] if b.params else ""
                return re.search(r"\b%s\b" % re.escape(owner), first) is not None or re.search(r"\b%s\b" % re.escape(owner), b.ret) is not None
            narrowed = [b for b in cands if owner_ok(b)]
            if len(narrowed) == 1:
                return narrowed[0]
            if len(cands) == 1:
                return cands[0]
            return None
        for k, b in self.bodies.items():
            if k.endswith("::" + name) and len(b.params) == nargs:
                return b
        return None

    # -- running a body: generator of Outcome
    def run(self, body, args, pc, store, depth=0):
        # `depth` counts call frames; a task may also watch the nesting of one recursive function (recursion_watch = (regex, limit)):
        # each entry into a watched body adds 1000, so depth // 1000 is the number of its activations on the current path's call stack
        # and exceeding the limit is an *outcome* of the path (native recursion that outgrows every acyclic input of the shape)
        watch = getattr(self, "recursion_watch", None)
        if watch is not None and re.search(watch[0], body.name):
            depth += 1000
            if depth // 1000 > watch[1]:
                yield Outcome("panic", pc, store, msg="__DEPTH__ more than %d nested activations of %s" % (watch[1], body.name))
                return
        if depth % 1000 > self.max_depth:
            raise Unsupported("call depth exceeded in " + body.name)
        frame = {}
        for (p, _t), a in zip(body.params, args):
            frame[p] = self.world.new(store, a)
        yield from self.run_block(body, "bb0", frame, list(pc), store, depth, {})

    def run_block(self, body, bb, frame, pc, store, depth, visits):
        n = visits.get(bb, 0)
        if n >= self.loop_bound:
            raise Unsupported("block %s of %s entered more than %d times on one path" % (bb, body.name, self.loop_bound))
        visits = dict(visits)
        visits[bb] = n + 1
        stmts = body.blocks[bb]
        for idx, s in enumerate(stmts):
            if idx < len(stmts) - 1:
                self.exec_stmt(body, s, frame, store)
                continue
            if s == "return;":
                yield Outcome("return", pc, store, value=store.get(frame.get("_0")) if "_0" in frame else Unit(), frame=frame)
                return
            if s in ("unreachable;", "resume;") or s.startswith("resume"):
                yield Outcome("unreachable", pc, store)
                return
            m = re.match(r"^goto -> (bb\d+);$", s)
            if m:
                yield from self.run_block(body, m.group(1), frame, pc, store, depth, visits)
                return
            m = re.match(r"^switchInt\((.+)\) -> \[(.+)\];$", s)
            if m:
                v = self.operand(body, m.group(1), frame, store)
                yield from self.do_switch(body, v, m.group(2), frame, pc, store, depth, visits)
                return
            m = re.match(r"^drop\(.+\) -> \[return: (bb\d+), unwind.*\];$", s)
            if m:
                yield from self.run_block(body, m.group(1), frame, pc, store, depth, visits)
                return
            m = re.match(r"^assert\((!?)(.+?), \"(.*?)\"(?:, .+)?\) -> \[success: (bb\d+), unwind.*\];$", s)
            if m:
                neg, cond_s, msg, succ = m.group(1), m.group(2), m.group(3), m.group(4)
                c = self.operand(body, cond_s, frame, store)
                if not isinstance(c, Bool):
                    raise Unsupported("assert on non-boolean")
                ok = z3.Not(c.t) if neg else c.t
                bad_feasible = self.feasible(pc + [z3.Not(ok)])
                ok_feasible = self.feasible(pc + [ok])
                if bad_feasible:
                    yield Outcome("panic", pc + [z3.Not(ok)], dict(store) if ok_feasible else store, msg=msg.split("{")[0].strip())
                if ok_feasible:
                    yield from self.run_block(body, succ, frame, pc + [ok], store, depth, visits)
                return
            m = self.split_call(s)
            if m:
                dest, callee, args_s, ret_bb = m
                args = [self.operand(body, a, frame, store) for a in _split_top(args_s)]
                results = list(self.call(callee, args, pc, store, depth))
                for k, (kind, val, cpc, cstore) in enumerate(results):
                    if kind == "panic":
                        yield Outcome("panic", cpc, cstore, msg=val)
                        continue
                    if kind == "unreachable":
                        yield Outcome("unreachable", cpc, cstore)
                        continue
                    f2 = dict(frame)
                    if dest:
                        self.assign(body, dest, val, f2, cstore)
                    yield from self.run_block(body, ret_bb, f2, cpc, cstore, depth, visits)
                return
            m = re.match(r"^(?:(.+?) = )?(.+?)\((.*)\) -> unwind.*;$", s)
            if m:
                yield Outcome("panic", pc, store, msg="diverging call " + m.group(2))
                return
            raise Unsupported("terminator not understood: " + s)

    @staticmethod
    def split_call(s):
        """`[dest = ]callee(args) -> [return: bbN, unwind ...];`  — the callee path may itself contain parentheses (`Result<(), E>`),
        so the argument list is the parenthesis group that closes right before ` -> [`."""
        m = re.match(r"^(.*)\) -> \[return: (bb\d+), unwind.*\];$", s)
        if not m:
            return None
        head, ret_bb = m.group(1), m.group(2)
        depth = 0
        i = len(head) - 1
        start = None
        # scan backwards for the parenthesis that opens the argument list
        depth = 1
        while i >= 0:
            c = head[i]
            if c == ")":
                depth += 1
            elif c == "(":
                depth -= 1
                if depth == 0:
                    start = i
                    break
            i -= 1
        if start is None:
            return None
        before, args_s = head[:start], head[start + 1:]
        dm = re.match(r"^(.+?) = (.+)$", before)
        # an assignment's `=` comes before any `<`; a callee such as `<A as B<C = D>>::f` without destination has none at top level
        if dm and not dm.group(1).startswith("<") and re.match(r"^[_(\*]", dm.group(1)):
            return dm.group(1), dm.group(2), args_s, ret_bb
        return None, before, args_s, ret_bb

    def do_switch(self, body, v, targets_s, frame, pc, store, depth, visits):
        targets = []
        for t in _split_top(targets_s):
            k, bbn = t.split(": ")
            targets.append((k.strip(), bbn.strip()))
        if isinstance(v, Bool):
            term_of = lambda k: z3.Not(v.t) if k == 0 else v.t
            conc = None
            if z3.is_true(z3.simplify(v.t)):
                conc = 1
            elif z3.is_false(z3.simplify(v.t)):
                conc = 0
        elif isinstance(v, BV):
            sv = z3.simplify(v.t)
            conc = sv.as_long() if z3.is_bv_value(sv) else None
            term_of = lambda k: v.t == z3.BitVecVal(k, v.width)
        elif isinstance(v, int):
            conc, term_of = v, None
        elif z3.is_expr(v):
            sv = z3.simplify(v)
            conc = sv.as_long() if z3.is_int_value(sv) else None
            term_of = lambda k: v == k
        else:
            raise Unsupported("switchInt on %r" % (v,))
        consts = [(int(re.sub(r"_\w+$", "", k)), bbn) for k, bbn in targets if k != "otherwise"]
        other = [bbn for k, bbn in targets if k == "otherwise"]
        if conc is not None:
            for kk, bbn in consts:
                if conc == kk or (isinstance(v, BV) and conc == kk % (1 << v.width)):
                    yield from self.run_block(body, bbn, frame, pc, store, depth, visits)
                    return
            if other:
                yield from self.run_block(body, other[0], frame, pc, store, depth, visits)
            return
        branches = []
        taken = []
        for kk, bbn in consts:
            c = term_of(kk)
            taken.append(c)
            if self.feasible(pc + [c]):
                branches.append((bbn, c))
        if other:
            c = z3.Not(z3.Or(taken)) if taken else z3.BoolVal(True)
            if self.feasible(pc + [c]):
                branches.append((other[0], c))
        for i, (bbn, c) in enumerate(branches):
            last = i == len(branches) - 1
            yield from self.run_block(body, bbn, dict(frame), pc + [c], store if last else dict(store), depth, visits)

    # -- statements
    def exec_stmt(self, body, s, frame, store):
        if s.startswith(("StorageLive", "StorageDead", "FakeRead", "PlaceMention", "nop", "Retag", "AscribeUserType", "Coverage", "ConstEvalCounter")):
            return
        m = re.match(r"^(.+?) = (.+);$", s)
        if not m:
            raise Unsupported("statement not understood: " + s)
        self.assign(body, m.group(1), self.rvalue(body, m.group(2), frame, store), frame, store)

    def assign(self, body, place_s, value, frame, store):
        cell = self.place(body, place_s.strip(), frame, store, create=True)
        store[cell] = value

    # -- places:  _N | (*P) | (P.N: T) | ((P as V).N: T) | P[_i]
    def place(self, body, s, frame, store, create=False):
        s = s.strip()
        if re.match(r"^_\d+$", s):
            if s not in frame:
                frame[s] = self.world.new(store, None)
            return frame[s]
        if s.startswith("(*") and s.endswith(")"):
            inner = store[self.place(body, s[2:-1], frame, store, create)]
            if isinstance(inner, Slice):
                return inner.vec_cell  # a slice reference points at its vector
            if not isinstance(inner, Ref):
                raise Unsupported("deref of non-reference in %s: %r" % (s, inner))
            return inner.cell
        m = re.match(r"^(.*)\[(_\d+|\d+ of \d+)\]$", s)
        if m and not (s.startswith("(") and s.endswith(")")):
            base = store[self.place(body, m.group(1), frame, store)]
            base = self.resolve_slice(store, base)
            cm = re.match(r"^(\d+) of (\d+)$", m.group(2))
            if cm:   # a slice pattern's element: counted from the start of a slice of at least that length
                if int(cm.group(1)) >= len(base.cells):
                    raise Unsupported("constant index projection outside the slice")
                return base.cells[int(cm.group(1))]
            idx = store[frame[m.group(2)]]
            sv = z3.simplify(idx.t)
            if not z3.is_bv_value(sv):
                raise Unsupported("symbolic index projection")
            return base.cells[sv.as_long()]
        if s.startswith("(") and s.endswith(")"):
            body_s = s[1:-1]
            depth, split = 0, None
            for i, c in enumerate(body_s):
                if c in "([<":
                    depth += 1
                elif c in ")]>":
                    depth -= 1
                elif c == ":" and depth == 0 and body_s[i:i + 2] == ": " and (i == 0 or body_s[i - 1] != ":"):
                    split = i
                    break
            if split is not None:
                left = body_s[:split]
                fm = re.match(r"^(.*)\.(\d+)$", left)
                if not fm:
                    raise Unsupported("field projection not understood: " + s)
                base_s, idx = fm.group(1), int(fm.group(2))
                vm = re.match(r"^\((.+) as (\w+)\)$", base_s)
                if vm:
                    bcell = self.place(body, vm.group(1), frame, store)
                    e = store[bcell]
                    if not isinstance(e, Enum):
                        raise Unsupported("downcast of non-enum: %r in %s" % (e, s))
                    vi = self.variant_index(e.adt, vm.group(2))
                    cells = list(e.payload.get(vi, ()))
                    if len(cells) <= idx:
                        while len(cells) <= idx:
                            cells.append(self.world.new(store, None))
                        pl = dict(e.payload)
                        pl[vi] = cells
                        store[bcell] = Enum(e.adt, e.disc, pl)
                    return cells[idx]
                bcell = self.place(body, base_s, frame, store, create)
                v = store[bcell]
                if v is None and create:
                    v = Tup([])
                if isinstance(v, Tup):
                    if len(v.cells) <= idx:
                        cells = list(v.cells)
                        while len(cells) <= idx:
                            cells.append(self.world.new(store, None))
                        store[bcell] = Tup(cells, v.adt)
                        v = store[bcell]
                    return v.cells[idx]
                if isinstance(v, Closure):
                    return v.captures[idx]
                raise Unsupported("field %d of non-aggregate %r in %s" % (idx, v, s))
        raise Unsupported("place not understood: " + s)

    def resolve_slice(self, store, v):
        while isinstance(v, (Ref, Slice)):
            v = store[v.cell] if isinstance(v, Ref) else store[v.vec_cell]
        return v

    # -- operands and rvalues
    def const(self, s, store):
        s = s.strip()
        if s in ("true", "false"):
            return Bool(z3.BoolVal(s == "true"))
        m = re.match(r"^(-?\d+)_(\w+)$", s)
        if m and m.group(2) in INT_TYPES:
            w, sg = INT_TYPES[m.group(2)]
            return BV(z3.BitVecVal(int(m.group(1)), w), w, sg)
        m = re.match(r'^"(.*)"$', s, re.S)
        if m:
            raw = bytes(m.group(1), "utf-8").decode("unicode_escape") if "\\" in m.group(1) else m.group(1)
            return Str(z3.StringVal(raw))
        if s.startswith('b"') or s.startswith("b'"):
            return Opaque("byte string constant")
        if s == "()":
            return Unit()
        m = re.match(r"^ZeroSized: \{closure@([^}]+)\}$", s)
        if m:
            return Closure(m.group(1), [])
        if s.startswith("ZeroSized"):
            return Unit()
        if re.match(r"^i32::(MIN|MAX)$", s):
            return BV(z3.BitVecVal(-2 ** 31 if s.endswith("MIN") else 2 ** 31 - 1, 32), 32, True)
        if "promoted[" in s:
            key = s.split("::", 1)[-1] if s not in self.bodies else s
            for k, b in self.bodies.items():
                if k == s or s.endswith("::" + k) or k.endswith("::" + key):
                    outs = list(self.run(b, [], [], store, 0))
                    if len(outs) == 1 and outs[0].kind == "return":
                        return outs[0].value
        m = re.match(r"^(?:[\w:]+::)?(\w+)::(\w+)$", s)
        if m and m.group(1) in self.enums and m.group(2) in self.enums[m.group(1)]:
            return Enum(m.group(1), self.enums[m.group(1)].index(m.group(2)), {})
        return Opaque("constant " + s)

    def operand(self, body, s, frame, store):
        s = s.strip()
        for pre in ("no_retag copy ", "copy ", "move "):
            if s.startswith(pre):
                v = store[self.place(body, s[len(pre):], frame, store)]
                if v is None:
                    raise Unsupported("read of unset place %s in %s" % (s, body.name))
                return v if pre == "move " else self.world.copy_value(store, v)
        if s.startswith("const "):
            return self.const(s[len("const "):], store)
        if re.match(r"^[A-Za-z_][\w:<>, ]*$", s) and any(self.find_body(s, n) is not None for n in (1, 2, 3)):
            return FnItem(s)
        raise Unsupported("operand not understood: " + s)

    def as_bv(self, v):
        if isinstance(v, BV):
            return v
        if isinstance(v, Bool):
            return BV(z3.If(v.t, z3.BitVecVal(1, 8), z3.BitVecVal(0, 8)), 8, False)
        if isinstance(v, int) and not isinstance(v, bool):
            return BV(z3.BitVecVal(v, 64), 64, True)  # a concrete enum discriminant used in arithmetic (derived comparisons, or-patterns)
        if z3.is_expr(v) and z3.is_int(v):
            return BV(z3.Int2BV(v, 64), 64, True)
        raise Unsupported("integer expected, got %r" % (v,))

    def binop(self, op, a, b):
        if op in ("Eq", "Ne") and isinstance(a, Bool) and isinstance(b, Bool):
            t = a.t == b.t
            return Bool(t if op == "Eq" else z3.Not(t))
        if op in ("BitAnd", "BitOr", "BitXor") and isinstance(a, Bool) and isinstance(b, Bool):
            return Bool({"BitAnd": z3.And, "BitOr": z3.Or, "BitXor": z3.Xor}[op](a.t, b.t))
        a, b = self.as_bv(a), self.as_bv(b)
        sg, x, y = a.signed, a.t, b.t
        cmp = {"Eq": lambda: x == y, "Ne": lambda: x != y, "Lt": lambda: x < y if sg else z3.ULT(x, y), "Le": lambda: x <= y if sg else z3.ULE(x, y),
               "Gt": lambda: x > y if sg else z3.UGT(x, y), "Ge": lambda: x >= y if sg else z3.UGE(x, y)}
        if op in cmp:
            return Bool(cmp[op]())
        arith = {"Add": lambda: x + y, "Sub": lambda: x - y, "Mul": lambda: x * y, "BitAnd": lambda: x & y, "BitOr": lambda: x | y,
                 "BitXor": lambda: x ^ y, "Div": lambda: (x / y) if sg else z3.UDiv(x, y), "Rem": lambda: z3.SRem(x, y) if sg else z3.URem(x, y),
                 "AddUnchecked": lambda: x + y, "SubUnchecked": lambda: x - y, "MulUnchecked": lambda: x * y}
        if op in arith:
            return BV(arith[op](), a.width, sg)
        if op in ("AddWithOverflow", "SubWithOverflow", "MulWithOverflow"):
            # the wrapped result at the operand width and z3's own overflow predicates (widening both operands and comparing
            # nests 2w-bit terms at every addition of a sum and made one feasibility query take 15 minutes)
            w = a.width
            if op == "AddWithOverflow":
                res = x + y
                fine = z3.And(z3.BVAddNoOverflow(x, y, True), z3.BVAddNoUnderflow(x, y)) if sg else z3.BVAddNoOverflow(x, y, False)
            elif op == "SubWithOverflow":
                res = x - y
                fine = z3.And(z3.BVSubNoOverflow(x, y), z3.BVSubNoUnderflow(x, y, True)) if sg else z3.BVSubNoUnderflow(x, y, False)
            else:
                res = x * y
                fine = z3.And(z3.BVMulNoOverflow(x, y, True), z3.BVMulNoUnderflow(x, y)) if sg else z3.BVMulNoOverflow(x, y, False)
            return ("overflowing", BV(res, w, sg), Bool(z3.Not(fine)))
        raise Unsupported("binary operator " + op)

    def rvalue(self, body, s, frame, store):
        s = s.strip()
        if s.startswith("&"):
            inner = re.sub(r"^&(raw (const|mut) |mut )?(\(fake\) |fake shallow |fake )?", "", s)  # fake borrows (match guards) are ordinary reads here
            return Ref(self.place(body, inner, frame, store))
        m = re.match(r"^discriminant\((.+)\)$", s)
        if m:
            e = store[self.place(body, m.group(1), frame, store)]
            if not isinstance(e, Enum):
                raise Unsupported("discriminant of %r" % (e,))
            return e.disc
        m = re.match(r"^PtrMetadata\((.+)\)$", s)
        if m:  # the length of a slice / vector behind a (raw) pointer
            v = self.operand(body, m.group(1), frame, store)
            tgt = store[v.vec_cell] if isinstance(v, Slice) else deref_all(store, v)
            if isinstance(tgt, Slice):
                tgt = store[tgt.vec_cell]
            if not isinstance(tgt, VecV):
                raise Unsupported("PtrMetadata of %r" % (tgt,))
            return BV(z3.BitVecVal(len(tgt.cells), 64), 64, False)
        m = re.match(r"^(Not|Neg)\((.+)\)$", s)
        if m:
            v = self.operand(body, m.group(2), frame, store)
            if m.group(1) == "Not":
                return Bool(z3.Not(v.t)) if isinstance(v, Bool) else BV(~v.t, v.width, v.signed)
            return BV(-v.t, v.width, v.signed)
        m = re.match(r"^(\w+)\((.+)\)$", s)
        if m and m.group(1) in ("Eq", "Ne", "Lt", "Le", "Gt", "Ge", "Add", "Sub", "Mul", "Div", "Rem", "BitAnd", "BitOr", "BitXor",
                                "AddWithOverflow", "SubWithOverflow", "MulWithOverflow", "AddUnchecked", "SubUnchecked", "MulUnchecked"):
            a, b = _split_top(m.group(2))
            r = self.binop(m.group(1), self.operand(body, a, frame, store), self.operand(body, b, frame, store))
            if isinstance(r, tuple):
                return Tup([self.world.new(store, r[1]), self.world.new(store, r[2])])
            return r
        m = re.match(r"^((?:copy|move) .+?) as (.+) \((\w+)(?:\(.*\))?\)$", s)
        if m:
            v = self.operand(body, m.group(1), frame, store)
            ty, kind = m.group(2), m.group(3)
            if kind == "IntToInt" and ty in INT_TYPES:
                w, sg = INT_TYPES[ty]
                v = self.as_bv(v)
                t = v.t if w == v.width else (z3.Extract(w - 1, 0, v.t) if w < v.width else (z3.SignExt(w - v.width, v.t) if v.signed else z3.ZeroExt(w - v.width, v.t)))
                return BV(t, w, sg)
            if isinstance(v, Ref):
                return v  # pointer-to-pointer casts and transmutes between pointer types keep the referent
            return Opaque("cast " + kind)
        m = re.match(r"^\{closure@([^}]+)\}(?: \{(.*)\})?$", s)
        if m:
            caps = []
            if m.group(2):
                for part in _split_top(m.group(2)):
                    caps.append(self.world.new(store, self.operand(body, part.split(": ", 1)[1], frame, store)))
            return Closure(m.group(1), caps)
        # struct aggregate with named fields:  path::Name::<..> { a: op, b: op }
        m = re.match(r"^(?:[\w:]+::)?(\w+)(?:::<.*?>)? \{(.*)\}$", s)
        if m:
            cells = []
            for part in _split_top(m.group(2).strip()):
                cells.append(self.world.new(store, self.operand(body, part.split(": ", 1)[1], frame, store)))
            em = re.match(r"^(?:[\w:]+::)?(\w+)(?:::<.*?>)?::(\w+) \{", s)
            if em and em.group(1) in self.enums and em.group(2) in self.enums[em.group(1)]:
                vi = self.enums[em.group(1)].index(em.group(2))  # struct-like enum variant: fields in declaration order
                return Enum(em.group(1), vi, {vi: cells})
            return Tup(cells, m.group(1))
        if s.startswith("(") and s.endswith(")") and not re.match(r"^\(.*\) as ", s):
            parts = _split_top(s[1:-1])
            if all(p.startswith(("copy ", "move ", "const ", "no_retag ")) for p in parts):
                return Tup([self.world.new(store, self.operand(body, p, frame, store)) for p in parts])
        if s.startswith("[") and s.endswith("]"):
            rm = re.match(r"^\[(.+); (\d+)(?:_usize)?\]$", s)
            if rm and len(_split_top(s[1:-1])) == 1:   # [x; N]: N copies
                v = self.operand(body, rm.group(1), frame, store)
                return VecV([self.world.new(store, self.world.copy_value(store, v)) for _ in range(int(rm.group(2)))])
            parts = _split_top(s[1:-1])
            return VecV([self.world.new(store, self.operand(body, p, frame, store)) for p in parts])
        m = re.match(r"^(?:[\w:]+::)?(\w+)(?:::<.*>)?::(\w+)(?:\((.*)\))?$", s)
        if m and m.group(1) in self.enums and m.group(2) in self.enums[m.group(1)]:
            adt, var, args_s = m.group(1), m.group(2), m.group(3)
            vi = self.enums[adt].index(var)
            cells = [self.world.new(store, self.operand(body, a, frame, store)) for a in _split_top(args_s)] if args_s else []
            return Enum(adt, vi, {vi: cells})
        m = re.match(r"^(?:[\w:]+::)?([A-Z]\w*)(?:::<.*>)?\((.*)\)$", s)
        if m:
            return Tup([self.world.new(store, self.operand(body, a, frame, store)) for a in _split_top(m.group(2))], m.group(1))
        if s.startswith(("copy ", "move ", "const ", "no_retag ")):
            return self.operand(body, s, frame, store)
        raise Unsupported("rvalue not understood: " + s)

    # -- calls: yields (kind, value, pc, store)
    def call(self, callee, args, pc, store, depth):
        callee = callee.strip()
        model = MODELS.lookup(callee)
        if model is not None:
            self.modelled.add(re.sub(r"::<.*", "", callee)[:80])
            yield from model(self, callee, args, pc, store, depth)
            return
        body = self.find_body(callee, len(args))
        if body is not None:
            self.inlined.add(body.name)
            for o in self.run(body, args, pc, store, depth + 1):
                if o.kind == "return":
                    yield ("value", o.value, o.pc, o.store)
                elif o.kind == "panic":
                    yield ("panic", o.msg, o.pc, o.store)
                else:
                    yield ("unreachable", None, o.pc, o.store)
            return
        self.unmodelled.add(callee)
        yield ("value", Opaque("call " + callee), pc, store)

    def call_closure(self, clo, args, pc, store, depth):
        """Calls a closure value: its body takes the closure (by value or by reference) as first parameter."""
        if isinstance(clo, FnItem):
            fb = self.find_body(clo.name, len(args))
            if fb is None:
                raise Unsupported("function item not found: " + clo.name)
            for o in self.run(fb, list(args), pc, store, depth + 1):
                yield ("value", o.value, o.pc, o.store) if o.kind == "return" else (("panic", o.msg, o.pc, o.store) if o.kind == "panic" else ("unreachable", None, o.pc, o.store))
            return
        b = self.closures.get(clo.loc)
        if b is None:
            raise Unsupported("closure body not found: " + clo.loc)
        first_ty = b.params[0][1]
        first = Ref(self.world.new(store, clo)) if first_ty.startswith("&") else clo
        # closure arguments are passed as a tuple by the Fn* traits but appear spread in the body's parameters
        for o in self.run(b, [first] + list(args), pc, store, depth + 1):
            if o.kind == "return":
                yield ("value", o.value, o.pc, o.store)
            elif o.kind == "panic":
                yield ("panic", o.msg, o.pc, o.store)
            else:
                yield ("unreachable", None, o.pc, o.store)

    # -- iterator protocol over Iter values (concrete length): returns list of results per path
    def iter_items(self, it, pc, store, depth):
        """Generator of (items: list of values, pc, store): runs the iterator to exhaustion on every path."""
        if it.kind == "range":
            lo = self.concretize(it.lo.t, pc, "range start")
            branches = self.value_branches(it.hi.t, pc, "range end")
            for k, (hi, c) in enumerate(branches):
                st = store if k == len(branches) - 1 else dict(store)
                yield ([BV(z3.BitVecVal(i, 64), 64, False) for i in range(lo, hi)], pc + ([c] if c is not None else []), st)
        elif it.kind == "vec":
            yield ([store[c] for c in it.cells], pc, store)
        elif it.kind == "refs":
            yield ([Ref(c) for c in it.cells], pc, store)
        elif it.kind == "chain":
            for a, pc1, st1 in self.iter_items(it.a, pc, store, depth):
                for b, pc2, st2 in self.iter_items(it.b, pc1, st1, depth):
                    yield (a + b, pc2, st2)
        elif it.kind == "repeat":
            raise Unsupported("unbounded repeat consumed")
        elif it.kind == "take":
            branches = self.value_branches(it.n.t, pc, "take count")
            for k, (n, c) in enumerate(branches):
                st = store if k == len(branches) - 1 else dict(store)
                pcn = pc + ([c] if c is not None else [])
                if it.inner.kind == "repeat":
                    yield ([self.world.copy_value(st, it.inner.value) for _ in range(n)], pcn, st)
                else:
                    for a, pc1, st1 in self.iter_items(it.inner, pcn, st, depth):
                        yield (a[:n], pc1, st1)
        elif it.kind == "rev":
            for a, pc1, st1 in self.iter_items(it.inner, pc, store, depth):
                yield (list(reversed(a)), pc1, st1)
        elif it.kind == "map":
            for a, pc1, st1 in self.iter_items(it.inner, pc, store, depth):
                def go(k, acc, pcx, stx):
                    if k == len(a):
                        yield (acc, pcx, stx)
                        return
                    results = list(self.call_closure(it.f, [a[k]], pcx, stx, depth))
                    for j, (kind, val, pcy, sty) in enumerate(results):
                        if kind != "value":
                            yield (("abort", kind, val), pcy, sty)
                        else:
                            yield from go(k + 1, acc + [val], pcy, sty)
                yield from go(0, [], pc1, st1)
        else:
            raise Unsupported("iterator kind " + it.kind)


# ---------------------------------------------------------------------------------------------------------------
# models of core / alloc functions (documented semantics; trusted)

class Models:
    def __init__(self):
        self.table = []

    def add(self, pattern):
        def deco(f):
            self.table.append((re.compile(pattern), f))
            return f
        return deco

    def lookup(self, callee):
        for rx, f in self.table:
            if rx.search(callee):
                return f
        return None


MODELS = Models()


def deref_all(store, v):
    while isinstance(v, Ref):
        v = store[v.cell]
    return v


def vec_of(ex, store, v):
    """The VecV behind a (reference to a) vector or slice, with the cell that holds it."""
    cell = None
    while isinstance(v, (Ref, Slice)):
        cell = v.cell if isinstance(v, Ref) else v.vec_cell
        v = store[cell]
    if not isinstance(v, VecV):
        raise Unsupported("vector expected, got %r" % (v,))
    return v, cell


def some(ex, store, v):
    return Enum("Option", 1, {1: [ex.world.new(store, v)]})


NONE = Enum("Option", 0, {})


def ok(ex, store, v):
    return Enum("Result", 0, {0: [ex.world.new(store, v)]})


def err(ex, store, what):
    return Enum("Result", 1, {1: [ex.world.new(store, Opaque(what))]})


@MODELS.add(r"^<&?&?(str|String|std::string::String) as PartialEq(<&?&?(str|String|std::string::String)>)?>::(eq|ne)$")
def m_str_eq(ex, callee, args, pc, store, depth):
    a, b = deref_all(store, args[0]), deref_all(store, args[1])
    if not (isinstance(a, Str) and isinstance(b, Str)):
        raise Unsupported("str eq on %r %r" % (a, b))
    t = a.t == b.t
    yield ("value", Bool(t if callee.endswith("eq") else z3.Not(t)), pc, store)


@MODELS.add(r"^<&?&?(i8|i16|i32|i64|isize|u8|u16|u32|u64|usize) as Partial(Eq|Ord)(<.*>)?>::(eq|ne|lt|le|gt|ge)$")
def m_int_cmp(ex, callee, args, pc, store, depth):
    a, b = deref_all(store, args[0]), deref_all(store, args[1])
    op = {"eq": "Eq", "ne": "Ne", "lt": "Lt", "le": "Le", "gt": "Gt", "ge": "Ge"}[callee.rsplit("::", 1)[1]]
    yield ("value", ex.binop(op, a, b), pc, store)


@MODELS.add(r"^<&?bool as PartialEq(<.*>)?>::(eq|ne)$")
def m_bool_cmp(ex, callee, args, pc, store, depth):
    a, b = deref_all(store, args[0]), deref_all(store, args[1])
    yield ("value", ex.binop("Eq" if callee.endswith("eq") else "Ne", a, b), pc, store)


@MODELS.add(r"^<&?(u8|u16|u32|u64|usize) as (Add|Sub|Mul)(<.*>)?>::(add|sub|mul)$")
@MODELS.add(r"^<&?(i8|i16|i32|i64|isize) as (Add|Sub|Mul|Div|Rem)(<.*>)?>::(add|sub|mul|div|rem)$")
def m_checked_arith(ex, callee, args, pc, store, depth):
    """`a op b` on signed primitives as compiled with overflow checks on (the profile Kani and `cargo test` use):
    + - * panic on overflow; / % panic on a zero divisor and on MIN / -1 in every profile."""
    a, b = ex.as_bv(deref_all(store, args[0])), ex.as_bv(deref_all(store, args[1]))
    meth = callee.rsplit("::", 1)[1]
    w = a.width
    mn = z3.BitVecVal(-(2 ** (w - 1)), w)
    if meth in ("add", "sub", "mul"):
        _, val, ovb = ex.binop({"add": "AddWithOverflow", "sub": "SubWithOverflow", "mul": "MulWithOverflow"}[meth], a, b)
        ov = ovb.t
        word = {"add": "add", "sub": "subtract", "mul": "multiply"}[meth]
        f1, f2 = ex.feasible(pc + [ov]), ex.feasible(pc + [z3.Not(ov)])
        if f1:
            yield ("panic", "attempt to %s with overflow" % word, pc + [ov], dict(store) if f2 else store)
        if f2:
            yield ("value", val, pc + [z3.Not(ov)], store)
        return
    zero = b.t == 0
    ovf = z3.And(a.t == mn, b.t == -1)
    if meth == "div":
        msgs = ("attempt to divide by zero", "attempt to divide with overflow")
        val = BV(a.t / b.t, w, True)
    else:
        msgs = ("attempt to calculate the remainder with a divisor of zero", "attempt to calculate the remainder with overflow")
        val = BV(z3.SRem(a.t, b.t), w, True)
    if ex.feasible(pc + [zero]):
        yield ("panic", msgs[0], pc + [zero], dict(store))
    if ex.feasible(pc + [z3.Not(zero), ovf]):
        yield ("panic", msgs[1], pc + [z3.Not(zero), ovf], dict(store))
    okc = [z3.Not(zero), z3.Not(ovf)]
    if ex.feasible(pc + okc):
        yield ("value", val, pc + okc, store)


@MODELS.add(r"^core::num::<impl (i8|i16|i32|i64|isize)>::(wrapping_add|wrapping_sub|wrapping_mul|wrapping_div|wrapping_rem|wrapping_neg|"
            r"checked_add|checked_sub|checked_mul|checked_div|checked_rem|saturating_add|saturating_sub|overflowing_add|overflowing_sub|"
            r"overflowing_mul|div_euclid|rem_euclid)$")
def m_int_methods(ex, callee, args, pc, store, depth):
    meth = callee.rsplit("::", 1)[1]
    a = ex.as_bv(args[0])
    w = a.width
    mn = z3.BitVecVal(-(2 ** (w - 1)), w)
    if meth == "wrapping_neg":
        yield ("value", BV(-a.t, w, True), pc, store)
        return
    b = ex.as_bv(args[1])
    if meth in ("wrapping_add", "wrapping_sub", "wrapping_mul"):
        yield ("value", ex.binop({"wrapping_add": "Add", "wrapping_sub": "Sub", "wrapping_mul": "Mul"}[meth], a, b), pc, store)
        return
    if meth in ("wrapping_div", "wrapping_rem"):
        zero = b.t == 0
        if ex.feasible(pc + [zero]):
            yield ("panic", "attempt to divide by zero" if meth == "wrapping_div" else "attempt to calculate the remainder with a divisor of zero", pc + [zero], dict(store))
        if ex.feasible(pc + [z3.Not(zero)]):
            ovf = z3.And(a.t == mn, b.t == -1)
            val = z3.If(ovf, mn if meth == "wrapping_div" else z3.BitVecVal(0, w), (a.t / b.t) if meth == "wrapping_div" else z3.SRem(a.t, b.t))
            yield ("value", BV(val, w, True), pc + [z3.Not(zero)], store)
        return
    if meth.startswith("overflowing_"):
        _, val, ov = ex.binop({"add": "AddWithOverflow", "sub": "SubWithOverflow", "mul": "MulWithOverflow"}[meth.split("_")[1]], a, b)
        yield ("value", Tup([ex.world.new(store, val), ex.world.new(store, ov)]), pc, store)
        return
    if meth.startswith("checked_") and meth.split("_")[1] in ("add", "sub", "mul"):
        _, val, ovb = ex.binop({"add": "AddWithOverflow", "sub": "SubWithOverflow", "mul": "MulWithOverflow"}[meth.split("_")[1]], a, b)
        ov = ovb.t
        if ex.feasible(pc + [ov]):
            yield ("value", NONE, pc + [ov], dict(store))
        if ex.feasible(pc + [z3.Not(ov)]):
            yield ("value", some(ex, store, val), pc + [z3.Not(ov)], store)
        return
    if meth in ("checked_div", "checked_rem"):
        bad = z3.Or(b.t == 0, z3.And(a.t == mn, b.t == -1))
        if ex.feasible(pc + [bad]):
            yield ("value", NONE, pc + [bad], dict(store))
        if ex.feasible(pc + [z3.Not(bad)]):
            val = BV((a.t / b.t) if meth == "checked_div" else z3.SRem(a.t, b.t), w, True)
            yield ("value", some(ex, store, val), pc + [z3.Not(bad)], store)
        return
    if meth in ("saturating_add", "saturating_sub"):
        _, val, ovb = ex.binop("AddWithOverflow" if meth.endswith("add") else "SubWithOverflow", a, b)
        mx = z3.BitVecVal(2 ** (w - 1) - 1, w)
        neg_result = (b.t < 0) if meth.endswith("add") else (b.t > 0)
        yield ("value", BV(z3.If(ovb.t, z3.If(neg_result, mn, mx), val.t), w, True), pc, store)
        return
    if meth in ("div_euclid", "rem_euclid"):
        zero = b.t == 0
        ovf = z3.And(a.t == mn, b.t == -1)
        if ex.feasible(pc + [zero]):
            yield ("panic", "attempt to divide by zero", pc + [zero], dict(store))
        if ex.feasible(pc + [z3.Not(zero), ovf]):
            yield ("panic", "attempt to divide with overflow", pc + [z3.Not(zero), ovf], dict(store))
        okc = [z3.Not(zero), z3.Not(ovf)]
        if ex.feasible(pc + okc):
            q, r = a.t / b.t, z3.SRem(a.t, b.t)
            adj = r < 0
            qe = z3.If(adj, z3.If(b.t > 0, q - 1, q + 1), q)
            re_ = z3.If(adj, z3.If(b.t > 0, r + b.t, r - b.t), r)
            yield ("value", BV(qe if meth == "div_euclid" else re_, w, True), pc + okc, store)
        return
    raise Unsupported("model for %s not written" % meth)


@MODELS.add(r"^<&(.+) as PartialEq(<.*>)?>::(eq|ne)$")
def m_ref_eq(ex, callee, args, pc, store, depth):
    """core's blanket impl for references: compares the referents with the referent type's own PartialEq."""
    m = re.match(r"^<&(?:mut )?(.+) as PartialEq(?:<.*>)?>::(eq|ne)$", callee)
    inner, meth = m.group(1), m.group(2)
    a, b = store[args[0].cell], store[args[1].cell]
    for kind, val, pcx, stx in ex.call("<%s as PartialEq>::eq" % inner, [a, b], pc, store, depth):
        if kind == "value" and meth == "ne":
            if not isinstance(val, Bool):
                raise Unsupported("PartialEq::eq of %s returned %r" % (inner, val))
            val = Bool(z3.Not(val.t))
        yield (kind, val, pcx, stx)


@MODELS.add(r"^<(?!&)(?!i8|i16|i32|i64|isize|u8|u16|u32|u64|usize|str|bool|std::string::String|String)([\w:]+) as PartialEq(<.*>)?>::ne$")
def m_derived_ne(ex, callee, args, pc, store, depth):
    """`!=` on a type whose PartialEq is derived: `ne` is the trait's default method, the negation of the impl's `eq`."""
    inner = re.match(r"^<([\w:]+) as PartialEq", callee).group(1)
    body = ex.find_body("<%s as PartialEq>::eq" % inner, 2)
    if body is None:
        raise Unsupported("no PartialEq::eq found for " + inner)
    for o in ex.run(body, list(args), pc, store, depth + 1):
        if o.kind == "return":
            if not isinstance(o.value, Bool):
                raise Unsupported("PartialEq::eq of %s returned %r" % (inner, o.value))
            yield ("value", Bool(z3.Not(o.value.t)), o.pc, o.store)
        else:
            yield (o.kind, o.msg, o.pc, o.store)


def lex_compare(ex, store, a, b):
    """(less, equal) as z3 terms for two values of the same shape, compared lexicographically by field order —
    the documented semantics of #[derive(PartialOrd)] on structs (every PartialOrd of /repo's types is derived)."""
    a, b = deref_all(store, a), deref_all(store, b)
    if isinstance(a, BV) and isinstance(b, BV):
        return (a.t < b.t) if a.signed else z3.ULT(a.t, b.t), a.t == b.t
    if isinstance(a, Bool) and isinstance(b, Bool):
        return z3.And(z3.Not(a.t), b.t), a.t == b.t
    if isinstance(a, Tup) and isinstance(b, Tup) and len(a.cells) == len(b.cells):
        less, equal = z3.BoolVal(False), z3.BoolVal(True)
        for ca, cb in zip(a.cells, b.cells):
            l, e = lex_compare(ex, store, store[ca], store[cb])
            less = z3.Or(less, z3.And(equal, l))
            equal = z3.And(equal, e)
        return less, equal
    raise Unsupported("ordering of %r and %r" % (a, b))


@MODELS.add(r"^<&?&?(?!i8|i16|i32|i64|isize|u8|u16|u32|u64|usize|str|bool)([\w:]+) as PartialOrd(<.*>)?>::(lt|le|gt|ge)$")
def m_derived_ord(ex, callee, args, pc, store, depth):
    less, equal = lex_compare(ex, store, args[0], args[1])
    meth = callee.rsplit("::", 1)[1]
    t = {"lt": less, "le": z3.Or(less, equal), "gt": z3.Not(z3.Or(less, equal)), "ge": z3.Not(less)}[meth]
    yield ("value", Bool(t), pc, store)


# ---- vectors and slices (concrete length)

@MODELS.add(r"^(std::vec::)?Vec::<.*>::len$|^core::slice::<impl \[.*\]>::len$")
def m_len(ex, callee, args, pc, store, depth):
    v, _ = vec_of(ex, store, args[0])
    yield ("value", BV(z3.BitVecVal(len(v.cells), 64), 64, False), pc, store)


@MODELS.add(r"^(std::vec::)?Vec::<.*>::is_empty$|^core::slice::<impl \[.*\]>::is_empty$")
def m_is_empty(ex, callee, args, pc, store, depth):
    v, _ = vec_of(ex, store, args[0])
    yield ("value", Bool(z3.BoolVal(len(v.cells) == 0)), pc, store)


@MODELS.add(r"^<(std::vec::)?Vec<.*> as (std::ops::)?Deref(Mut)?>::deref(_mut)?$")
def m_vec_deref(ex, callee, args, pc, store, depth):
    _, cell = vec_of(ex, store, args[0])
    yield ("value", Ref(ex.world.new(store, Slice(cell))), pc, store)


@MODELS.add(r"^core::slice::<impl \[.*\]>::(last|first|last_mut|first_mut)$|^(std::vec::)?Vec::<.*>::(last|first|last_mut)$")
def m_slice_end(ex, callee, args, pc, store, depth):
    v, _ = vec_of(ex, store, args[0])
    if not v.cells:
        yield ("value", NONE, pc, store)
    else:
        c = v.cells[-1] if "last" in callee.rsplit("::", 1)[1] else v.cells[0]
        yield ("value", some(ex, store, Ref(c)), pc, store)


@MODELS.add(r"^(std::vec::)?Vec::<.*>::push$")
def m_vec_push(ex, callee, args, pc, store, depth):
    v, cell = vec_of(ex, store, args[0])
    store[cell] = VecV(list(v.cells) + [ex.world.new(store, args[1])])
    yield ("value", Unit(), pc, store)


@MODELS.add(r"^(std::vec::)?Vec::<.*>::pop$")
def m_vec_pop(ex, callee, args, pc, store, depth):
    v, cell = vec_of(ex, store, args[0])
    if not v.cells:
        yield ("value", NONE, pc, store)
    else:
        store[cell] = VecV(v.cells[:-1])
        yield ("value", some(ex, store, store[v.cells[-1]]), pc, store)


@MODELS.add(r"^(std::vec::)?Vec::<.*>::(new|with_capacity)$")
def m_vec_new(ex, callee, args, pc, store, depth):
    yield ("value", VecV([]), pc, store)


@MODELS.add(r"^core::slice::<impl \[.*\]>::reverse$")
def m_reverse(ex, callee, args, pc, store, depth):
    v, cell = vec_of(ex, store, args[0])
    store[cell] = VecV(tuple(reversed(v.cells)))
    yield ("value", Unit(), pc, store)


def index_paths(ex, v, idx, pc, store, what):
    """Forks on the concrete positions a symbolic index can take; out of range is a panic."""
    n = len(v.cells)
    idx = ex.as_bv(idx)
    feas = [(i, idx.t == i) for i in range(n) if ex.feasible(pc + [idx.t == i])]
    oob = z3.UGE(idx.t, z3.BitVecVal(n, idx.width))
    oob_f = ex.feasible(pc + [oob])
    total = len(feas) + (1 if oob_f else 0)
    k = 0
    for i, c in feas:
        k += 1
        yield ("cell", v.cells[i], pc + [c], store if k == total else dict(store))
    if oob_f:
        yield ("panic", "index out of bounds (%s)" % what, pc + [oob], store)


@MODELS.add(r"^<(std::vec::)?Vec<.*> as (std::ops::)?Index(Mut)?<usize>>::index(_mut)?$|^<\[.*\] as (std::ops::)?Index(Mut)?<usize>>::index(_mut)?$")
def m_index(ex, callee, args, pc, store, depth):
    v, _ = vec_of(ex, store, args[0])
    for kind, x, pcx, stx in index_paths(ex, v, args[1], pc, store, "Vec index"):
        yield ("value", Ref(x), pcx, stx) if kind == "cell" else ("panic", x, pcx, stx)


@MODELS.add(r"^core::slice::<impl \[.*\]>::get(_mut)?::<usize>$|^(std::vec::)?Vec::<.*>::get(_mut)?::<usize>$")
def m_get(ex, callee, args, pc, store, depth):
    v, _ = vec_of(ex, store, args[0])
    for kind, x, pcx, stx in index_paths(ex, v, args[1], pc, store, "get"):
        yield ("value", some(ex, stx, Ref(x)), pcx, stx) if kind == "cell" else ("value", NONE, pcx, stx)


@MODELS.add(r"^(std::boxed::)?Box::<.*>::new_uninit$")
def m_box_new_uninit(ex, callee, args, pc, store, depth):
    """`vec![a, b]` lowers to Box::new_uninit + a write through the raw pointer + box_assume_init_into_vec_unsafe."""
    payload = ex.world.new(store, None)
    nonnull = ex.world.new(store, Ref(payload))
    unique = ex.world.new(store, Tup([nonnull], "Unique"))
    yield ("value", Tup([unique], "Box"), pc, store)


@MODELS.add(r"box_assume_init_into_vec_unsafe::<")
def m_box_into_vec(ex, callee, args, pc, store, depth):
    v = store[store[args[0].cells[0]].cells[0]]  # Box.0 (Unique) .0 (NonNull) = Ref(payload)
    payload = store[v.cell]
    # MaybeUninit { uninit: (), value: ManuallyDrop { value: MaybeDangling { value: [T; N] } } }: the array is the innermost field
    while isinstance(payload, Tup):
        inner = [store[c] for c in payload.cells if store[c] is not None]
        if not inner:
            raise Unsupported("uninitialised box payload")
        payload = inner[-1]
    if not isinstance(payload, VecV):
        raise Unsupported("box payload is %r" % (payload,))
    yield ("value", VecV(payload.cells), pc, store)


@MODELS.add(r"^<(std::vec::)?Vec<.*> as Clone>::clone$")
def m_vec_clone(ex, callee, args, pc, store, depth):
    v, _ = vec_of(ex, store, args[0])
    yield ("value", ex.world.copy_value(store, v), pc, store)


# ---- Option / Result combinators

@MODELS.add(r"Option::<.*>::(unwrap|expect)$")
def m_option_unwrap(ex, callee, args, pc, store, depth):
    o = args[0]
    if not isinstance(o, Enum) or not isinstance(o.disc, int):
        raise Unsupported("unwrap of %r" % (o,))
    if o.disc == 0:
        yield ("panic", "called `Option::unwrap()` on a `None` value", pc, store)
    else:
        yield ("value", store[o.payload[1][0]], pc, store)


@MODELS.add(r"Result::<.*>::(unwrap|expect)$")
def m_result_unwrap(ex, callee, args, pc, store, depth):
    o = args[0]
    if not isinstance(o, Enum) or not isinstance(o.disc, int):
        raise Unsupported("unwrap of %r" % (o,))
    if o.disc == 1:
        yield ("panic", "called `Result::unwrap()` on an `Err` value", pc, store)
    else:
        yield ("value", store[o.payload[0][0]], pc, store)


@MODELS.add(r"^<(std::result::)?Result<.*> as (std::ops::)?Try>::branch$")
def m_try_branch(ex, callee, args, pc, store, depth):
    r = args[0]
    if not isinstance(r, Enum) or not isinstance(r.disc, int):
        raise Unsupported("Try::branch on %r" % (r,))
    if r.disc == 0:
        yield ("value", Enum("ControlFlow", 0, {0: [r.payload[0][0]]}), pc, store)
    else:
        yield ("value", Enum("ControlFlow", 1, {1: [ex.world.new(store, Enum("Result", 1, {1: [r.payload[1][0]]}))]}), pc, store)


@MODELS.add(r"^<(std::option::)?Option<.*> as (std::ops::)?Try>::branch$")
def m_try_branch_opt(ex, callee, args, pc, store, depth):
    r = args[0]
    if r.disc == 1:
        yield ("value", Enum("ControlFlow", 0, {0: [r.payload[1][0]]}), pc, store)
    else:
        yield ("value", Enum("ControlFlow", 1, {1: [ex.world.new(store, NONE)]}), pc, store)


@MODELS.add(r"as (std::ops::)?FromResidual<.*>>::from_residual$")
def m_from_residual(ex, callee, args, pc, store, depth):
    r = args[0]
    if isinstance(r, Enum) and r.adt == "Result" and r.disc == 1:
        yield ("value", Enum("Result", 1, {1: [r.payload[1][0]]}), pc, store)
    elif isinstance(r, Enum) and r.adt == "Option":
        yield ("value", NONE, pc, store)
    else:
        raise Unsupported("from_residual of %r" % (r,))


@MODELS.add(r"Result::<.*>::map::<")
def m_result_map(ex, callee, args, pc, store, depth):
    r, f = args[0], args[1]
    if not isinstance(r.disc, int):
        raise Unsupported("Result::map on symbolic result")
    if r.disc == 1:
        yield ("value", r, pc, store)
        return
    for kind, val, pcx, stx in ex.call_closure(f, [store[r.payload[0][0]]], pc, store, depth):
        yield (kind, ok(ex, stx, val), pcx, stx) if kind == "value" else (kind, val, pcx, stx)


@MODELS.add(r"Option::<.*>::map::<")
def m_option_map(ex, callee, args, pc, store, depth):
    r, f = args[0], args[1]
    if r.disc == 0:
        yield ("value", r, pc, store)
        return
    for kind, val, pcx, stx in ex.call_closure(f, [store[r.payload[1][0]]], pc, store, depth):
        yield (kind, some(ex, stx, val), pcx, stx) if kind == "value" else (kind, val, pcx, stx)


@MODELS.add(r"^<(std::option::)?Option<.*> as (anyhow::)?Context<.*>>::(with_context|context)")
def m_opt_context(ex, callee, args, pc, store, depth):
    o = args[0]
    if o.disc == 1:
        yield ("value", Enum("Result", 0, {0: [o.payload[1][0]]}), pc, store)
    else:
        yield ("value", err(ex, store, "context error"), pc, store)


@MODELS.add(r"^<(std::result::)?Result<.*> as (anyhow::)?Context<.*>>::(with_context|context)")
def m_res_context(ex, callee, args, pc, store, depth):
    yield ("value", args[0], pc, store)


@MODELS.add(r"Option::<.*>::unwrap_or$")
def m_opt_unwrap_or(ex, callee, args, pc, store, depth):
    o = args[0]
    if not isinstance(o, Enum) or not isinstance(o.disc, int):
        raise Unsupported("unwrap_or of %r" % (o,))
    yield ("value", args[1] if o.disc == 0 else store[o.payload[1][0]], pc, store)


@MODELS.add(r"Option::<(i8|i16|i32|i64|isize|u8|u16|u32|u64|usize)>::unwrap_or_default$")
def m_opt_unwrap_or_default(ex, callee, args, pc, store, depth):
    o = args[0]
    ty = re.search(r"Option::<(\w+)>", callee).group(1)
    w, sg = INT_TYPES[ty]
    yield ("value", BV(z3.BitVecVal(0, w), w, sg) if o.disc == 0 else store[o.payload[1][0]], pc, store)


@MODELS.add(r"Option::<.*>::unwrap_or_else::<")
def m_opt_unwrap_or_else(ex, callee, args, pc, store, depth):
    o = args[0]
    if o.disc == 1:
        yield ("value", store[o.payload[1][0]], pc, store)
    else:
        yield from ex.call_closure(args[1], [], pc, store, depth)


@MODELS.add(r"Option::<.*>::(is_none|is_some)$")
def m_opt_is(ex, callee, args, pc, store, depth):
    o = deref_all(store, args[0])
    yield ("value", Bool(z3.BoolVal((o.disc == 0) == callee.endswith("is_none"))), pc, store)


@MODELS.add(r"Option::<.*>::as_ref$")
def m_opt_as_ref(ex, callee, args, pc, store, depth):
    o = deref_all(store, args[0])
    if o.disc == 0:
        yield ("value", NONE, pc, store)
    else:
        yield ("value", some(ex, store, Ref(o.payload[1][0])), pc, store)


# ---- strings

@MODELS.add(r"^<str as ToOwned>::to_owned$|^<str as ToString>::to_string$|^<(std::string::)?String as Clone>::clone$|"
            r"^<(std::string::)?String as (std::ops::)?Deref>::deref$|^(std::string::)?String::as_str$|^<&str as Into<(std::string::)?String>>::into$|"
            r"^<(std::string::)?String as From<&str>>::from$|^<(std::string::)?String as Borrow<str>>::borrow$|^<&?str as ToString>::to_string$")
def m_str_id(ex, callee, args, pc, store, depth):
    v = deref_all(store, args[0])
    if not isinstance(v, Str):
        raise Unsupported("string expected in %s, got %r" % (callee, v))
    yield ("value", v, pc, store)


# ---- iterators of concrete length

@MODELS.add(r"^<(std::vec::)?Vec<.*> as IntoIterator>::into_iter$")
def m_vec_into_iter(ex, callee, args, pc, store, depth):
    v, _ = vec_of(ex, store, args[0]) if isinstance(args[0], (Ref, Slice)) else (args[0], None)
    yield ("value", Iter("vec", cells=v.cells), pc, store)


@MODELS.add(r"^core::slice::<impl \[.*\]>::iter$|^(std::vec::)?Vec::<.*>::iter$")
def m_slice_iter(ex, callee, args, pc, store, depth):
    v, _ = vec_of(ex, store, args[0])
    yield ("value", Iter("refs", cells=v.cells), pc, store)


@MODELS.add(r" as Iterator>::chain::<")
def m_chain(ex, callee, args, pc, store, depth):
    yield ("value", Iter("chain", a=args[0], b=args[1]), pc, store)


@MODELS.add(r" as Iterator>::map::<")
def m_map(ex, callee, args, pc, store, depth):
    inner = args[0]
    if isinstance(inner, Tup) and inner.adt == "Range":
        inner = Iter("range", lo=store[inner.cells[0]], hi=store[inner.cells[1]])
    yield ("value", Iter("map", inner=inner, f=args[1]), pc, store)


@MODELS.add(r" as Iterator>::rev$")
def m_rev(ex, callee, args, pc, store, depth):
    yield ("value", Iter("rev", inner=args[0]), pc, store)


@MODELS.add(r"^(std::iter::)?repeat::<")
def m_repeat(ex, callee, args, pc, store, depth):
    yield ("value", Iter("repeat", value=args[0]), pc, store)


@MODELS.add(r" as Iterator>::take$")
def m_take(ex, callee, args, pc, store, depth):
    yield ("value", Iter("take", inner=args[0], n=args[1]), pc, store)


@MODELS.add(r" as Iterator>::collect::<(std::vec::)?Vec<")
def m_collect_vec(ex, callee, args, pc, store, depth):
    for items, pcx, stx in ex.iter_items(args[0], pc, store, depth):
        if isinstance(items, tuple) and items[0] == "abort":
            yield (items[1], items[2], pcx, stx)
        else:
            yield ("value", VecV([ex.world.new(stx, v) for v in items]), pcx, stx)


@MODELS.add(r" as Iterator>::collect::<(std::result::)?Result<(std::vec::)?Vec<")
def m_collect_result_vec(ex, callee, args, pc, store, depth):
    """collect::<Result<Vec<T>, E>>: stops at the first Err (items after it are not evaluated)."""
    it = args[0]
    if it.kind != "map":
        raise Unsupported("collect::<Result<Vec>> over " + it.kind)
    for base, pc1, st1 in ex.iter_items(it.inner, pc, store, depth):
        def go(k, acc, pcx, stx):
            if k == len(base):
                yield ("value", ok(ex, stx, VecV([ex.world.new(stx, v) for v in acc])), pcx, stx)
                return
            for kind, val, pcy, sty in list(ex.call_closure(it.f, [base[k]], pcx, stx, depth)):
                if kind != "value":
                    yield (kind, val, pcy, sty)
                elif not isinstance(val, Enum) or not isinstance(val.disc, int):
                    raise Unsupported("collect::<Result<..>> item with symbolic discriminant")
                elif val.disc == 1:
                    yield ("value", Enum("Result", 1, {1: [val.payload[1][0]]}), pcy, sty)
                else:
                    yield from go(k + 1, acc + [sty[val.payload[0][0]]], pcy, sty)
        yield from go(0, [], pc1, st1)


# ---- maps with concrete keys (HashMap<String, V>, IndexMap<String, V>)

@MODELS.add(r"(HashMap|IndexMap)::<.*>::get::<")
def m_map_get(ex, callee, args, pc, store, depth):
    m = deref_all(store, args[0])
    k = deref_all(store, args[1])
    if not isinstance(m, MapV) or not isinstance(k, Str):
        raise Unsupported("map get on %r with key %r" % (m, k))
    rest = []
    branches = []
    for key, cell in m.entries:
        c = z3.And(k.t == z3.StringVal(key), *rest)
        rest.append(k.t != z3.StringVal(key))
        if ex.feasible(pc + [c]):
            branches.append((c, cell))
    miss = z3.And(*rest) if rest else z3.BoolVal(True)
    miss_f = ex.feasible(pc + [miss])
    total = len(branches) + (1 if miss_f else 0)
    n = 0
    for c, cell in branches:
        n += 1
        st = store if n == total else dict(store)
        yield ("value", some(ex, st, Ref(cell)), pc + [c], st)
    if miss_f:
        yield ("value", NONE, pc + [miss], store)



# ---- Iterator::next on iterator cells (for-loops): the iterator is materialised once, then advanced

def materialise(ex, it, pc, store, depth):
    if it.kind == "list":
        return it
    if it.kind == "map":
        raise Unsupported("for-loop over a mapped iterator (closure calls would be reordered)")
    res = list(ex.iter_items(it, pc, store, depth))
    if len(res) != 1 or res[0][1] is not pc and len(res[0][1]) != len(pc):
        raise Unsupported("for-loop over an iterator whose length depends on the path")
    return Iter("list", items=tuple(res[0][0]), pos=0)


@MODELS.add(r" as Iterator>::next$")
def m_iter_next(ex, callee, args, pc, store, depth):
    cell = args[0].cell
    it = store[cell]
    if isinstance(it, Tup) and it.adt == "Range":
        it = Iter("range", lo=store[it.cells[0]], hi=store[it.cells[1]])
    if not isinstance(it, Iter):
        raise Unsupported("next() on %r" % (it,))
    it = materialise(ex, it, pc, store, depth)
    if it.pos >= len(it.items):
        store[cell] = it
        yield ("value", NONE, pc, store)
    else:
        store[cell] = Iter("list", items=it.items, pos=it.pos + 1)
        yield ("value", some(ex, store, it.items[it.pos]), pc, store)


@MODELS.add(r" as IntoIterator>::into_iter$")
def m_iter_identity(ex, callee, args, pc, store, depth):
    """IntoIterator for iterators is the identity; for maps it yields (key, value) pairs in insertion order."""
    v = args[0]
    if isinstance(v, Iter):
        yield ("value", v, pc, store)
    elif isinstance(v, MapV):
        items = [Tup([ex.world.new(store, Str(z3.StringVal(k))), c]) for k, c in v.entries]
        yield ("value", Iter("vec", cells=tuple(ex.world.new(store, t) for t in items)), pc, store)
    elif isinstance(v, Tup) and v.adt == "Range":
        yield ("value", Iter("range", lo=store[v.cells[0]], hi=store[v.cells[1]]), pc, store)
    elif isinstance(v, (Ref, Slice)) and isinstance(deref_all(store, v) if isinstance(v, Ref) else store[v.vec_cell], (VecV, Slice)):
        vv, _ = vec_of(ex, store, v)   # `for x in &vec` / `for x in slice`: references to the elements
        yield ("value", Iter("refs", cells=vv.cells), pc, store)
    else:
        raise Unsupported("into_iter of %r" % (v,))


@MODELS.add(r" as Iterator>::sum::<(usize|u64|u32)>$")
def m_iter_sum(ex, callee, args, pc, store, depth):
    for items, pcx, stx in ex.iter_items(args[0], pc, store, depth):
        if isinstance(items, tuple) and items[0] == "abort":
            yield (items[1], items[2], pcx, stx)
            continue
        total = z3.BitVecVal(0, 64)
        for v in items:
            total = total + ex.as_bv(v).t
        yield ("value", BV(total, 64, False), pcx, stx)


# ---- maps: construction, insertion, iteration (concrete keys, insertion order = IndexMap's documented order)

def concrete_key(k):
    while isinstance(k, Ref):
        raise Unsupported("map key behind a reference (needs the store)")
    sv = z3.simplify(k.t)
    if not z3.is_string_value(sv):
        raise Unsupported("map key is not a concrete string")
    return sv.as_string()


@MODELS.add(r"(HashMap|IndexMap)::<.*>::new$")
def m_map_new(ex, callee, args, pc, store, depth):
    yield ("value", MapV([]), pc, store)


@MODELS.add(r"(HashMap|IndexMap)::<.*>::insert$")
def m_map_insert(ex, callee, args, pc, store, depth):
    cell = args[0].cell
    m = store[cell]
    key = concrete_key(deref_all(store, args[1]))
    for i, (k, c) in enumerate(m.entries):
        if k == key:
            old = store[c]
            entries = list(m.entries)
            entries[i] = (k, ex.world.new(store, args[2]))
            store[cell] = MapV(entries)
            yield ("value", some(ex, store, old), pc, store)
            return
    store[cell] = MapV(list(m.entries) + [(key, ex.world.new(store, args[2]))])
    yield ("value", NONE, pc, store)


@MODELS.add(r"(HashMap|IndexMap)::<.*>::(keys|values)$")
def m_map_keys_values(ex, callee, args, pc, store, depth):
    m = deref_all(store, args[0])
    if not isinstance(m, MapV):
        raise Unsupported("%s on %r" % (callee, m))
    def key_value(k):
        if isinstance(k, tuple):
            return Tup([ex.world.new(store, key_value(x)) for x in k])
        if isinstance(k, int):
            return BV(z3.BitVecVal(k, 64), 64, False)
        return Str(z3.StringVal(k))
    if callee.endswith("::keys"):
        items = [Ref(ex.world.new(store, key_value(k))) for k, _ in m.entries]
    else:
        items = [Ref(c) for _, c in m.entries]
    yield ("value", Iter("vec", cells=tuple(ex.world.new(store, x) for x in items)), pc, store)


@MODELS.add(r"Option::<&.*>::(cloned|copied)$")
def m_opt_cloned(ex, callee, args, pc, store, depth):
    o = args[0]
    if not isinstance(o, Enum) or not isinstance(o.disc, int):
        raise Unsupported("Option::cloned on %r" % (o,))
    if o.disc == 0:
        yield ("value", NONE, pc, store)
    else:
        yield ("value", some(ex, store, ex.world.copy_value(store, deref_all(store, store[o.payload[1][0]]))), pc, store)


@MODELS.add(r"(HashMap|IndexMap)::<.*>::(iter|len|is_empty)$")
def m_map_misc(ex, callee, args, pc, store, depth):
    m = deref_all(store, args[0])
    meth = callee.rsplit("::", 1)[1]
    if meth == "len":
        yield ("value", BV(z3.BitVecVal(len(m.entries), 64), 64, False), pc, store)
    elif meth == "is_empty":
        yield ("value", Bool(z3.BoolVal(not m.entries)), pc, store)
    else:
        pairs = [Tup([ex.world.new(store, Ref(ex.world.new(store, Str(z3.StringVal(k))))), ex.world.new(store, Ref(c))]) for k, c in m.entries]
        yield ("value", Iter("vec", cells=tuple(ex.world.new(store, t) for t in pairs)), pc, store)


@MODELS.add(r" as Iterator>::collect::<(indexmap::)?(map::)?(IndexMap|HashMap|std::collections::HashMap)<")
def m_collect_map(ex, callee, args, pc, store, depth):
    for items, pcx, stx in ex.iter_items(args[0], pc, store, depth):
        if isinstance(items, tuple) and items[0] == "abort":
            yield (items[1], items[2], pcx, stx)
            continue
        entries = []
        for t in items:
            k = concrete_key(deref_all(stx, stx[t.cells[0]]))
            entries = [(kk, c) for kk, c in entries if kk != k] + [(k, t.cells[1])]
        yield ("value", MapV(entries), pcx, stx)


@MODELS.add(r"^(std::string::)?String::len$|^core::str::<impl str>::len$")
def m_str_len(ex, callee, args, pc, store, depth):
    v = deref_all(store, args[0])
    sv = z3.simplify(v.t)
    if z3.is_string_value(sv):
        yield ("value", BV(z3.BitVecVal(len(sv.as_string().encode("utf-8")), 64), 64, False), pc, store)  # byte length
    else:
        n = z3.simplify(z3.Length(v.t))     # a string built from a concrete number of symbolic characters has a concrete length
        if z3.is_int_value(n):
            yield ("value", BV(z3.BitVecVal(n.as_long(), 64), 64, False), pc, store)
        else:
            yield ("value", BV(z3.Int2BV(z3.Length(v.t), 64), 64, False), pc, store)


SIZEOF = {}


@MODELS.add(r"^(std::mem::|core::mem::)?size_of::<")
def m_size_of(ex, callee, args, pc, store, depth):
    """The size of a type is a positive constant that depends on the type only (its value is the platform's, not FML's)."""
    ty = callee[callee.index("<") + 1:callee.rindex(">")]
    if ty not in SIZEOF:
        SIZEOF[ty] = z3.BitVec("sizeof_" + re.sub(r"\W+", "_", ty), 64)
    v = SIZEOF[ty]
    ax = [z3.UGE(v, 1), z3.ULE(v, 4096)]
    if not any(a.eq(ax[0]) for a in ex.axioms):
        ex.axioms += ax
    yield ("value", BV(v, 64, False), pc + ax, store)


@MODELS.add(r"^(core::)?slice::<impl \[.*\]>::sort$|^(core::)?slice::<impl \[.*\]>::sort_unstable$")
def m_slice_sort(ex, callee, args, pc, store, depth):
    """Sorting a vector whose elements are concrete strings or integers (shape-level data such as member names)."""
    v, cell = vec_of(ex, store, args[0])
    keys = []
    for c in v.cells:
        x = deref_all(store, store[c])
        sv = z3.simplify(x.t) if isinstance(x, (Str, BV)) else None
        if sv is not None and z3.is_string_value(sv):
            keys.append(sv.as_string())
        elif sv is not None and z3.is_bv_value(sv):
            keys.append(sv.as_signed_long() if x.signed else sv.as_long())
        else:
            yield from _sort_symbolic(ex, v, cell, pc, store)
            return
    order = sorted(range(len(keys)), key=lambda i: keys[i])
    store[cell] = VecV([v.cells[i] for i in order])
    yield ("value", Unit(), pc, store)


def int_leaf(store, x):
    x = deref_all(store, x)
    while isinstance(x, Tup) and len(x.cells) == 1:
        x = deref_all(store, store[x.cells[0]])
    return x if isinstance(x, BV) else None


def _sort_symbolic(ex, v, cell, pc, store):
    """Sorting up to 4 symbolic integers (or newtypes of one): one path per feasible stable permutation."""
    import itertools
    xs = [int_leaf(store, store[c]) for c in v.cells]
    if any(x is None for x in xs) or len(xs) > 4:
        raise Unsupported("sort of a vector with symbolic elements")
    lt = lambda a, b_: (a.t < b_.t) if a.signed else z3.ULT(a.t, b_.t)
    paths = []
    for perm in itertools.permutations(range(len(xs))):
        conds = []
        for k in range(len(perm) - 1):
            i, j = perm[k], perm[k + 1]
            conds.append(z3.Or(lt(xs[i], xs[j]), z3.And(xs[i].t == xs[j].t, z3.BoolVal(i < j))))
        c = z3.simplify(z3.And(conds)) if conds else z3.BoolVal(True)
        if ex.feasible(pc + [c]):
            paths.append((perm, c))
    for n, (perm, c) in enumerate(paths):
        st = store if n == len(paths) - 1 else dict(store)
        st[cell] = VecV([v.cells[i] for i in perm])
        yield ("value", Unit(), pc + [c], st)


@MODELS.add(r"^(std::vec::)?Vec::<.*>::dedup$")
def m_vec_dedup(ex, callee, args, pc, store, depth):
    """Vec::dedup on integers (or newtypes of one): consecutive equal elements collapse; forks on symbolic equalities."""
    v, cell = vec_of(ex, store, args[0])
    xs = [int_leaf(store, store[c]) for c in v.cells]
    if any(x is None for x in xs) or len(xs) > 5:
        raise Unsupported("dedup of %d elements that are not integers" % len(xs))

    def go(k, kept, pcx):
        if k == len(xs):
            yield kept, pcx
            return
        if not kept:
            yield from go(k + 1, [k], pcx)
            return
        eq = z3.simplify(xs[kept[-1]].t == xs[k].t)
        if ex.feasible(pcx + [eq]):
            yield from go(k + 1, kept, pcx + [eq])
        if ex.feasible(pcx + [z3.Not(eq)]):
            yield from go(k + 1, kept + [k], pcx + [z3.Not(eq)])
    results = list(go(0, [], pc))
    for n, (kept, pcx) in enumerate(results):
        st = store if n == len(results) - 1 else dict(store)
        st[cell] = VecV([v.cells[i] for i in kept])
        yield ("value", Unit(), pcx, st)


@MODELS.add(r"^(core::)?slice::<impl \[.*\]>::windows$")
def m_slice_windows(ex, callee, args, pc, store, depth):
    v, _ = vec_of(ex, store, args[0])
    n = ex.concretize(args[1].t, pc, "window size")
    wins = [Slice(ex.world.new(store, VecV(v.cells[i:i + n]))) for i in range(0, max(0, len(v.cells) - n + 1))]
    yield ("value", Iter("vec", cells=tuple(ex.world.new(store, w) for w in wins)), pc, store)


@MODELS.add(r" as Iterator>::find::<")
def m_iter_find(ex, callee, args, pc, store, depth):
    """Iterator::find with a predicate closure (takes a reference to the item): forks on symbolic verdicts."""
    it, f = args[0], args[1]
    if isinstance(it, Ref):
        it = store[it.cell]
    for items, pc0, st0 in ex.iter_items(it, pc, store, depth):
        def go(k, pcx, stx):
            if k == len(items):
                yield ("value", NONE, pcx, stx)
                return
            for kind, val, pcy, sty in ex.call_closure(f, [Ref(ex.world.new(stx, items[k]))], pcx, stx, depth):
                if kind != "value":
                    yield (kind, val, pcy, sty)
                    continue
                bt = z3.simplify(val.t)
                if z3.is_true(bt):
                    yield ("value", some(ex, sty, items[k]), pcy, sty)
                elif z3.is_false(bt):
                    yield from go(k + 1, pcy, sty)
                else:
                    hit, miss = ex.feasible(pcy + [bt]), ex.feasible(pcy + [z3.Not(bt)])
                    if hit:
                        st_hit = dict(sty) if miss else sty
                        yield ("value", some(ex, st_hit, items[k]), pcy + [bt], st_hit)
                    if miss:
                        yield from go(k + 1, pcy + [z3.Not(bt)], sty)
        yield from go(0, pc0, st0)


@MODELS.add(r"^(std::vec::)?Vec::<.*>::extend::<|^<(std::vec::)?Vec<.*> as Extend<.*>>::extend::<")
def m_vec_extend(ex, callee, args, pc, store, depth):
    cell = args[0].cell
    src = args[1]
    if isinstance(src, VecV):
        src = Iter("vec", cells=src.cells)
    for items, pcx, stx in ex.iter_items(src, pc, store, depth):
        v = stx[cell]
        stx[cell] = VecV(list(v.cells) + [ex.world.new(stx, x) for x in items])
        yield ("value", Unit(), pcx, stx)


@MODELS.add(r"^(std::vec::)?Vec::<.*>::as_slice$|^(std::vec::)?Vec::<.*>::as_mut_slice$")
def m_vec_as_slice(ex, callee, args, pc, store, depth):
    v, cell = vec_of(ex, store, args[0])
    yield ("value", Slice(cell), pc, store)


def _predicate_fork(ex, f, item_arg, pcx, stx, depth):
    """Calls a predicate closure; yields (verdict: True | False, pc, store) for every feasible outcome."""
    for kind, val, pcy, sty in ex.call_closure(f, [item_arg], pcx, stx, depth):
        if kind != "value":
            yield (kind, val), pcy, sty
            continue
        bt = z3.simplify(val.t)
        if z3.is_true(bt):
            yield True, pcy, sty
        elif z3.is_false(bt):
            yield False, pcy, sty
        else:
            hit, miss = ex.feasible(pcy + [bt]), ex.feasible(pcy + [z3.Not(bt)])
            if hit:
                yield True, pcy + [bt], (dict(sty) if miss else sty)
            if miss:
                yield False, pcy + [z3.Not(bt)], sty


@MODELS.add(r" as Iterator>::position::<")
def m_iter_position(ex, callee, args, pc, store, depth):
    """Iterator::position with a predicate closure: the first index whose element satisfies it (forks on symbolic verdicts)."""
    it, f = args[0], args[1]
    if isinstance(it, Ref):
        it = store[it.cell]
    for items, pc0, st0 in ex.iter_items(it, pc, store, depth):
        def go(k, pcx, stx):
            if k == len(items):
                yield ("value", NONE, pcx, stx)
                return
            for verdict, pcy, sty in _predicate_fork(ex, f, items[k], pcx, stx, depth):
                if isinstance(verdict, tuple):
                    yield (verdict[0], verdict[1], pcy, sty)
                elif verdict:
                    yield ("value", some(ex, sty, BV(z3.BitVecVal(k, 64), 64, False)), pcy, sty)
                else:
                    yield from go(k + 1, pcy, sty)
        yield from go(0, pc0, st0)


@MODELS.add(r"^(core::)?slice::<impl \[(std::vec::)?Vec<.*>\]>::concat::<")
def m_slice_concat(ex, callee, args, pc, store, depth):
    """[Vec<T>]::concat: the elements of the inner vectors in order (copied)."""
    outer, _ = vec_of(ex, store, args[0])
    cells = []
    for c in outer.cells:
        inner = deref_all(store, store[c])
        if not isinstance(inner, VecV):
            raise Unsupported("concat of %r" % (inner,))
        cells += [ex.world.new(store, ex.world.copy_value(store, store[x])) for x in inner.cells]
    yield ("value", VecV(cells), pc, store)


def structural_eq(store, a, b):
    """z3 formula: two values of the same type are equal, field by field (what a derived PartialEq computes)."""
    a, b = deref_all(store, a), deref_all(store, b)
    if isinstance(a, (BV, Str, Bool)) and type(a) is type(b):
        return a.t == b.t
    if isinstance(a, Tup) and isinstance(b, Tup) and len(a.cells) == len(b.cells):
        return z3.And([structural_eq(store, store[x], store[y]) for x, y in zip(a.cells, b.cells)]) if a.cells else z3.BoolVal(True)
    if isinstance(a, VecV) and isinstance(b, VecV):
        if len(a.cells) != len(b.cells):
            return z3.BoolVal(False)
        return z3.And([structural_eq(store, store[x], store[y]) for x, y in zip(a.cells, b.cells)]) if a.cells else z3.BoolVal(True)
    if isinstance(a, Enum) and isinstance(b, Enum) and isinstance(a.disc, int) and isinstance(b.disc, int):
        if a.disc != b.disc:
            return z3.BoolVal(False)
        pa, pb = a.payload.get(a.disc, ()), b.payload.get(b.disc, ())
        return z3.And([structural_eq(store, store[x], store[y]) for x, y in zip(pa, pb)]) if pa else z3.BoolVal(True)
    raise Unsupported("equality of %r and %r" % (a, b))


@MODELS.add(r"^<(std::vec::)?Vec<.*> as PartialEq(<.*>)?>::(eq|ne)$")
def m_vec_partial_eq(ex, callee, args, pc, store, depth):
    t = z3.simplify(structural_eq(store, args[0], args[1]))
    yield ("value", Bool(z3.Not(t) if callee.endswith("::ne") else t), pc, store)


@MODELS.add(r" as Iterator>::(any|all)::<")
def m_iter_any_all(ex, callee, args, pc, store, depth):
    """Iterator::any / all with a predicate closure (short-circuits; forks on symbolic verdicts)."""
    it, f = args[0], args[1]
    want = " as Iterator>::any::<" in callee
    if isinstance(it, Ref):
        it = store[it.cell]
    for items, pc0, st0 in ex.iter_items(it, pc, store, depth):
        def go(k, pcx, stx):
            if k == len(items):
                yield ("value", Bool(z3.BoolVal(not want)), pcx, stx)
                return
            for verdict, pcy, sty in _predicate_fork(ex, f, items[k], pcx, stx, depth):
                if isinstance(verdict, tuple):
                    yield (verdict[0], verdict[1], pcy, sty)
                elif verdict == want:
                    yield ("value", Bool(z3.BoolVal(want)), pcy, sty)
                else:
                    yield from go(k + 1, pcy, sty)
        yield from go(0, pc0, st0)


@MODELS.add(r"Option::<.*>::filter::<")
def m_option_filter(ex, callee, args, pc, store, depth):
    """Option::filter: None stays None; Some(x) stays Some(x) exactly when the predicate holds of &x (forks on a symbolic verdict)."""
    o, f = args[0], args[1]
    if not isinstance(o, Enum) or not isinstance(o.disc, int):
        raise Unsupported("Option::filter on %r" % (o,))
    if o.disc == 0:
        yield ("value", o, pc, store)
        return
    for verdict, pcy, sty in _predicate_fork(ex, f, Ref(o.payload[1][0]), pc, store, depth):
        if isinstance(verdict, tuple):
            yield (verdict[0], verdict[1], pcy, sty)
        else:
            yield ("value", o if verdict else NONE, pcy, sty)


@MODELS.add(r"Result::<.*>::map_or::<")
def m_result_map_or(ex, callee, args, pc, store, depth):
    r, default, f = args[0], args[1], args[2]
    if not isinstance(r, Enum) or not isinstance(r.disc, int):
        raise Unsupported("Result::map_or on %r" % (r,))
    if r.disc == 1:
        yield ("value", default, pc, store)
        return
    yield from ex.call_closure(f, [store[r.payload[0][0]]], pc, store, depth)


@MODELS.add(r" as Iterator>::partition::<")
def m_iter_partition(ex, callee, args, pc, store, depth):
    """Iterator::partition into two Vecs with a predicate closure that takes a reference to the item."""
    it, f = args[0], args[1]
    em = re.search(r"::partition::<(?:std::vec::)?Vec<([^,>]+)", callee)
    by_value = bool(em) and not em.group(1).strip().startswith("&")   # Vec<T>: Extend<&T> copies the referents

    def own(stx, v):
        return ex.world.copy_value(stx, deref_all(stx, v)) if by_value and isinstance(v, Ref) else v
    for items, pc0, st0 in ex.iter_items(it, pc, store, depth):
        def go(k, yes, no, pcx, stx):
            if k == len(items):
                pair = Tup([ex.world.new(stx, VecV([ex.world.new(stx, own(stx, v)) for v in yes])), ex.world.new(stx, VecV([ex.world.new(stx, own(stx, v)) for v in no]))])
                yield ("value", pair, pcx, stx)
                return
            for verdict, pcy, sty in _predicate_fork(ex, f, Ref(ex.world.new(stx, items[k])), pcx, stx, depth):
                if isinstance(verdict, tuple):
                    yield (verdict[0], verdict[1], pcy, sty)
                elif verdict:
                    yield from go(k + 1, yes + [items[k]], no, pcy, sty)
                else:
                    yield from go(k + 1, yes, no + [items[k]], pcy, sty)
        yield from go(0, [], [], pc0, st0)


# ---- message / error construction: opaque

@MODELS.add(r"^core::fmt::rt::Argument::|^Arguments::<.*>::(new|from_str)|^std::fmt::Arguments::|^format$|^std::fmt::format$|^must_use::|"
            r"^anyhow::private::|^anyhow::__private::|^anyhow::Error::|^std::hint::must_use|^core::hint::must_use")
def m_opaque(ex, callee, args, pc, store, depth):
    yield ("value", Opaque("message / error construction: " + callee[:60]), pc, store)
