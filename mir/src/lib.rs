//! Include-only crate: /repo's parser and bytecode modules, unchanged, with the real containers.
//! Its only purpose is `cargo +nightly rustc -- -Zunpretty=mir` (smt/mirsym.py).
#![allow(dead_code, unused_imports, unused_macros, unused_variables)]
#[path = "/repo/src/parser/mod.rs"]
pub mod parser;
#[path = "/repo/src/bytecode/mod.rs"]
pub mod bytecode;
