// Switches the guarded verification hooks of kondziu/FML on for this crate only.
fn main() {
    println!("cargo:rustc-cfg=kondziu_fml_verif");
    println!("cargo:rerun-if-changed=build.rs");
}
