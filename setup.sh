#!/bin/bash
# Builds what the checks need from files on disk only (offline): the dependency cache of every Kani worker slot,
# the replay twin, and the lalrpop helper. Sources of /repo are compiled by the checks themselves on every run.
set -e
cd "$(dirname "$0")"
export CARGO_NET_OFFLINE=true
SLOTS=${VERIF_SLOTS:-12}
[ -f kani/Cargo.lock ] || cp /repo/Cargo.lock kani/Cargo.lock
[ -f replay/Cargo.lock ] || cp /repo/Cargo.lock replay/Cargo.lock
mkdir -p kani/target out
# slot 0 compiles the dependencies (serde, anyhow, the models) once; the other slots get a copy
(cd kani && cargo kani -Z stubbing -Z unstable-options --no-codegen --target-dir target/w0 >/dev/null 2>out_setup.log) || { tail -20 kani/out_setup.log; exit 1; }
rm -f kani/out_setup.log
for k in $(seq 1 $((SLOTS-1))); do
  [ -d kani/target/w$k ] || cp -r kani/target/w0 kani/target/w$k
done
echo 'fn main() {}' > replay/src/main.rs
(cd replay && cargo build --offline --bins >/dev/null 2>&1 && cargo build --offline --release --bins >/dev/null 2>&1) || { echo "replay twin failed to build"; exit 1; }
if [ -d lalr ]; then (cd lalr && cargo build --offline >/dev/null 2>&1) || { echo "lalrpop helper failed to build"; exit 1; }; fi
echo "setup done"
