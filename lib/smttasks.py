"""Solver tasks outside Kani: each is a script under /verif/smt that regenerates its encoding from /repo's current
sources, discharges its queries with z3, replays any counterexample against the real code, and prints one JSON
object: {name, queries, discharged, nontrivial, violations:[{id, what, reproduced, ...}], inconclusive:[...],
samples:[...], solver_s, ...}."""
import json
import os
import subprocess

ROOT = os.path.dirname(os.path.dirname(os.path.abspath(__file__)))
PY = "python3-vt"  # the tooling venv holds z3-solver


class SmtTask:
    def __init__(self, name, script, quick=True, timeout=1800, args=None, thorough_args=None):
        self.name, self.script, self.quick, self.timeout = name, script, quick, timeout
        self.args = args or []
        self.thorough_args = thorough_args if thorough_args is not None else self.args

    def run(self, tier):
        cmd = [PY, os.path.join(ROOT, "smt", self.script)] + (self.thorough_args if tier == "thorough" else self.args)
        env = dict(os.environ, CARGO_NET_OFFLINE="true")
        try:
            p = subprocess.run(cmd, cwd=ROOT, env=env, stdout=subprocess.PIPE, stderr=subprocess.PIPE, text=True, timeout=self.timeout)
        except subprocess.TimeoutExpired:
            return {"name": self.name, "queries": 0, "discharged": 0, "nontrivial": 0, "violations": [],
                    "inconclusive": ["solver task exceeded its cap of %ds" % self.timeout], "samples": []}
        try:
            res = json.loads(p.stdout.strip().splitlines()[-1])
        except Exception:
            return {"name": self.name, "queries": 0, "discharged": 0, "nontrivial": 0, "violations": [],
                    "inconclusive": ["solver task produced no result: " + (p.stderr or p.stdout)[-600:]], "samples": []}
        res["name"] = self.name
        return res


def replay(p):
    """`check --replay` for a counterexample found by a solver task: re-run its native command."""
    if "replay_argv" in p and p.get("replay_bin"):
        exe_dir = os.path.join(ROOT, "replay")
        rc = 0
        for profile, flag in (("dev", []), ("release", ["--release"])):
            b = subprocess.run(["cargo", "build", "--offline", "--bin", p["replay_bin"]] + flag, cwd=exe_dir,
                               env=dict(os.environ, CARGO_NET_OFFLINE="true"), stdout=subprocess.PIPE, stderr=subprocess.STDOUT, text=True)
            if b.returncode:
                print(profile, "build failed")
                continue
            exe = os.path.join(exe_dir, "target", "release" if flag else "debug", p["replay_bin"])
            r = subprocess.run([exe] + p["replay_argv"], stdout=subprocess.PIPE, stderr=subprocess.STDOUT, text=True)
            print("%s: %s   (expected by the documented table: %s)" % (profile, r.stdout.strip(), p.get("expected")))
        print("REPLAY: see the observed outcome against the expectation above; recorded at detection time: %s" % p.get("observed"))
        return 1 if p.get("reproduced") else 0
    if "replay_cmd" in p:
        r = subprocess.run(p["replay_cmd"], shell=True, cwd=ROOT)
        return r.returncode
    print(json.dumps(p, indent=1))
    return 1 if p.get("reproduced") else 0
