"""Run Kani harnesses over /repo's current sources, parse CBMC's verdicts, replay counterexamples.

Every harness is one `cargo kani --harness <name> --exact` process under a wall-clock cap and an
address-space cap (DESIGN R7). Nothing here decides a property: the verdict is CBMC's.
"""
import json
import os
import re
import resource
import shutil
import subprocess
import sys
import time
from concurrent.futures import ThreadPoolExecutor

ROOT = os.path.dirname(os.path.dirname(os.path.abspath(__file__)))
KANI_DIR = os.path.join(ROOT, "kani")
REPLAY_DIR = os.path.join(ROOT, "replay")
OUT_DIR = os.path.join(ROOT, "out")
REPO = "/repo"

R9_ALLOWED = (
    "attempt to divide by zero",
    "attempt to calculate the remainder with a divisor of zero",
    "attempt to divide with overflow",
    "attempt to calculate the remainder with overflow",
)

KANI_BASE = [
    "cargo", "kani", "-Z", "stubbing", "-Z", "unstable-options",
    "--no-memory-safety-checks", "--no-assertion-reach-checks",
]
# Concrete playback switches formula slicing off (4x the variables), so it is only requested on the second
# run of a harness that has already failed.
PLAYBACK = ["-Z", "concrete-playback", "--concrete-playback=print"]


def env():
    e = dict(os.environ)
    e["CARGO_NET_OFFLINE"] = "true"
    e.pop("RUSTFLAGS", None)
    return e


class Harness:
    """One harness of a tier. `name` is the fully qualified path inside the harness crate."""

    def __init__(self, name, quick=False, timeout=900, mem_gb=12, cbmc_args=None, termination=False,
                 drives=None, bound=None, weight=1, allow=None):
        self.name = name
        self.quick = quick
        self.timeout = timeout
        self.mem_gb = mem_gb
        self.cbmc_args = cbmc_args or []
        self.termination = termination  # an unwinding-assertion failure IS the property here
        self.r9 = name.endswith("_r9")
        self.drives = drives or []
        self.bound = bound or ""
        self.weight = weight  # scheduling weight (memory-hungry harnesses count for more)
        self.allow = allow or []  # failed-check descriptions that ARE the documented behaviour (a rejecting panic)


def _limits(mem_gb):
    def f():
        b = int(mem_gb * 1024 * 1024 * 1024)
        resource.setrlimit(resource.RLIMIT_AS, (b, b))
        os.setsid()
    return f


_NOISE = re.compile(r"aborting path|^Unwinding |^Not unwinding|^\s*$")


SLOTS = int(os.environ.get("VERIF_SLOTS", "12"))
TARGET_ROOT = os.path.join(KANI_DIR, "target")


def slot_dir(k):
    return os.path.join(TARGET_ROOT, "w%d" % k)


class Slot:
    """A worker slot = one cargo target directory, held through an flock so that concurrent `check` processes
    share the machine instead of oversubscribing it (one cargo build lock per directory)."""

    def __init__(self):
        self.k = None
        self.fd = None

    def __enter__(self):
        import fcntl
        os.makedirs(TARGET_ROOT, exist_ok=True)
        while True:
            for k in range(SLOTS):
                fd = os.open(os.path.join(TARGET_ROOT, "w%d.lock" % k), os.O_CREAT | os.O_RDWR)
                try:
                    fcntl.flock(fd, fcntl.LOCK_EX | fcntl.LOCK_NB)
                    self.k, self.fd = k, fd
                    return slot_dir(k)
                except OSError:
                    os.close(fd)
            time.sleep(0.5)

    def __exit__(self, *a):
        import fcntl
        # drop this run's per-harness goto artifacts (about 20 MB each); dependencies stay cached
        build = os.path.join(slot_dir(self.k), "kani", "x86_64-unknown-linux-gnu", "debug", "build", "fmlverif")
        shutil.rmtree(build, ignore_errors=True)
        fcntl.flock(self.fd, fcntl.LOCK_UN)
        os.close(self.fd)


def ensure_lock_copy():
    lock = os.path.join(KANI_DIR, "Cargo.lock")
    if not os.path.exists(lock):
        shutil.copy(os.path.join(REPO, "Cargo.lock"), lock)


def compile_check(log_dir):
    """One serial `--only-codegen --no-codegen`-style build so that compiler errors (the tree no longer fits
    the harness crate) are reported once, as inconclusive, instead of once per harness."""
    ensure_lock_copy()
    t0 = time.time()
    with Slot() as td:
        cmd = ["cargo", "kani", "-Z", "stubbing", "-Z", "unstable-options", "--no-codegen", "--target-dir", td]
        p = subprocess.run(cmd, cwd=KANI_DIR, env=env(), stdout=subprocess.PIPE, stderr=subprocess.STDOUT, text=True)
    with open(os.path.join(log_dir, "_compile.log"), "w") as f:
        f.write(p.stdout)
    ok = p.returncode == 0
    errors = [l for l in p.stdout.splitlines() if l.startswith("error")]
    return ok, errors[:5], time.time() - t0


def run_one(h, log_dir):
    with Slot() as td:
        return _run_one(h, td, log_dir)


def _run_one(h, td, log_dir):
    res = _kani(h, td, log_dir, playback=False)
    classify(h, res)
    if res["status"] == "violation_candidate":
        again = _kani(h, td, log_dir, playback=True)
        res["concrete_vals"] = again["concrete_vals"]
        res["playbacks"] = again.get("playbacks", [])
        res["playback_wall_s"] = again["wall_s"]
    return res


def _kani(h, td, log_dir, playback):
    cmd = list(KANI_BASE) + (PLAYBACK if playback else []) + ["--target-dir", td, "--harness", h.name, "--exact"]
    if h.cbmc_args:
        cmd += ["--cbmc-args"] + h.cbmc_args
    log_path = os.path.join(log_dir, h.name.replace("::", "__") + (".playback" if playback else "") + ".log")
    t0 = time.time()
    timed_out = False
    cap = h.timeout * (3 if playback else 1)
    with open(log_path + ".raw", "w") as raw:
        p = subprocess.Popen(cmd, cwd=KANI_DIR, env=env(), stdout=raw, stderr=subprocess.STDOUT,
                             preexec_fn=_limits(h.mem_gb * (2 if playback else 1)))
        try:
            p.wait(timeout=cap)
        except subprocess.TimeoutExpired:
            timed_out = True
            try:
                os.killpg(p.pid, 9)
            except ProcessLookupError:
                pass
            p.wait()
    wall = time.time() - t0
    # filter the raw log (it can hold megabytes of unwinding chatter) and drop it
    kept = []
    with open(log_path + ".raw", errors="replace") as raw:
        for line in raw:
            if not _NOISE.search(line):
                kept.append(line)
    os.remove(log_path + ".raw")
    text = "".join(kept)
    with open(log_path, "w") as f:
        f.write(text)
    res = parse_log(text)
    res.update(name=h.name, wall_s=round(wall, 1), timed_out=timed_out, rc=p.returncode, log=log_path)
    return res


def _iter_checks(text):
    """Yields (name, status, description, location) for every `Check N:` block of Kani's regular output."""
    lines = text.splitlines()
    i, n = 0, len(lines)
    while i < n:
        m = re.match(r"^Check \d+: (.+)$", lines[i])
        if not m:
            i += 1
            continue
        name, status, desc, loc = m.group(1), "", "", ""
        i += 1
        while i < n and not lines[i].startswith("Check ") and not lines[i].startswith("SUMMARY"):
            l = lines[i]
            if l.startswith("\t - Status: "):
                status = l[len("\t - Status: "):].strip()
            elif l.startswith("\t - Description: "):
                desc = l[len("\t - Description: "):]
                # multi-line descriptions run until the closing quote
                while not desc.rstrip().endswith('"') and i + 1 < n and not lines[i + 1].startswith("\t - "):
                    i += 1
                    desc += "\n" + lines[i]
                desc = desc.strip().strip('"')
            elif l.startswith("\t - Location: "):
                loc = l[len("\t - Location: "):].strip()
            i += 1
        yield name, status, desc, loc


def parse_log(text):
    res = {
        "verdict": None, "failed": [], "covers": [], "checks_total": None, "checks_failed": None,
        "symex_s": None, "solver_s": 0.0, "variables": None, "clauses": None, "verification_s": None,
        "status_error": "Status: ERROR" in text, "cbmc_failed": None, "concrete_vals": None,
        "compile_error": False, "out_of_memory": "run out of memory" in text or "ran out of memory" in text,
    }
    m = re.search(r"^VERIFICATION:- (\w+)", text, re.M)
    if m:
        res["verdict"] = m.group(1)
    m = re.search(r"CBMC failed with status (\d+)", text)
    if m:
        res["cbmc_failed"] = int(m.group(1))
    if re.search(r"^error(\[E\d+\])?: ", text, re.M) and res["verdict"] is None:
        res["compile_error"] = True
    for name, status, desc, loc in _iter_checks(text):
        if ".cover." in name or desc.startswith(("W: ", "W@", "W!", "U: ")):
            res["covers"].append({"desc": desc, "status": status})
        elif status == "FAILURE":
            res["failed"].append({"check": name, "desc": desc, "loc": (loc or "").strip()})
    m = re.search(r"\*\* (\d+) of (\d+) failed", text)
    if m:
        res["checks_failed"], res["checks_total"] = int(m.group(1)), int(m.group(2))
    m = re.search(r"Runtime Symex: ([0-9.e+-]+)s", text)
    if m:
        res["symex_s"] = float(m.group(1))
    for m in re.finditer(r"Runtime Solver: ([0-9.e+-]+)s", text):
        res["solver_s"] += float(m.group(1))
    res["solver_s"] = round(res["solver_s"], 3)
    m = re.search(r"^(\d+) variables, (\d+) clauses", text, re.M)
    if m:
        res["variables"], res["clauses"] = int(m.group(1)), int(m.group(2))
    m = re.search(r"Verification Time: ([0-9.]+)s", text)
    if m:
        res["verification_s"] = float(m.group(1))
    # concrete playback: Kani prints one unit test per satisfied cover and per failed check; keep those of failed
    # checks (the comment `Check for `<kind>`: "<description>"` above each test says which it is)
    playbacks = []
    kind, desc, vals, in_vals = None, None, [], False
    for line in text.splitlines():
        m = re.match(r"^/// Check for `(\w+)`: (.*)$", line)
        if m:
            kind, desc = m.group(1), m.group(2).strip('"')
            continue
        if "let concrete_vals" in line:
            in_vals, vals = True, []
            continue
        if in_vals:
            t = line.strip()
            if t.startswith("vec!["):
                body = t[len("vec!["):t.rindex("]")]
                vals.append([int(x) for x in body.split(",") if x.strip()])
            elif t.startswith("];"):
                in_vals = False
                playbacks.append({"kind": kind, "desc": desc, "vals": vals})
    # failed checks first; Kani sometimes prints only the test of a satisfied cover although an assertion failed on the same
    # values (seen on the short-write harnesses), so cover tests are kept as further candidates
    failing = [p for p in playbacks if p["kind"] != "cover"] + [p for p in playbacks if p["kind"] == "cover"]
    res["playbacks"] = failing
    res["concrete_vals"] = failing[0]["vals"] if failing else None
    return res


def classify(h, res):
    """status: pass | violation_candidate | inconclusive ; reason: text."""
    reasons = []
    if res["compile_error"]:
        res["status"], res["reason"] = "inconclusive", "harness crate does not compile against the current tree"
        return
    if res["timed_out"]:
        res["status"], res["reason"] = "inconclusive", "wall-clock cap of %ds exceeded" % h.timeout
        return
    if res["verdict"] is None or res["cbmc_failed"] is not None or res["status_error"] or res.get("out_of_memory"):
        res["status"], res["reason"] = "inconclusive", "no verdict (CBMC status %s, memory cap %d GB)" % (res["cbmc_failed"], h.mem_gb)
        return
    failed = res["failed"]
    unexpected = []
    for f in failed:
        if h.r9 and f["desc"] in R9_ALLOWED:
            continue
        if any(a in f["desc"] for a in h.allow):
            continue
        unexpected.append(f)
    unwinding = [f for f in unexpected if "unwinding assertion" in f["desc"] or "recursion unwinding" in f["desc"]]
    real = [f for f in unexpected if f not in unwinding]
    res["unexpected"] = unexpected
    if real or (unwinding and h.termination):
        res["status"], res["reason"] = "violation_candidate", "; ".join(sorted(set(f["desc"] for f in unexpected)))
        return
    if unwinding:
        res["status"], res["reason"] = "inconclusive", "unwinding bound too small for the current tree: " + "; ".join(sorted(set(f["check"] for f in unwinding)))
        return
    if res["verdict"] == "FAILED" and not failed:
        res["status"], res["reason"] = "inconclusive", "FAILED without a parsed failed check"
        return
    # vacuity witnesses
    for c in res["covers"]:
        d = c["desc"]
        required = d.startswith("W: ")
        if d.startswith("W@"):  # `W@tag: text` is required only in harnesses whose name contains the tag
            required = d[2:d.index(":")] in h.name
        if d.startswith("W!"):  # `W!tag: text` is required except in harnesses whose name contains the tag
            required = d[2:d.index(":")] not in h.name
        if required and c["status"] != "SATISFIED":
            reasons.append("witness not satisfied: " + d)
        if c["desc"].startswith("U: ") and c["status"] == "SATISFIED":
            res["status"], res["reason"] = "violation_candidate", "forbidden outcome reachable: " + c["desc"]
            res["unexpected"] = [{"check": "cover", "desc": c["desc"], "loc": ""}]
            return
    if reasons:
        res["status"], res["reason"] = "inconclusive", "; ".join(reasons)
        return
    res["status"], res["reason"] = "pass", ""


def run_all(prop, harnesses, jobs, log_dir):
    os.makedirs(log_dir, exist_ok=True)
    ok, errors, secs = compile_check(log_dir)
    if not ok:
        return None, {"compile_ok": False, "errors": errors, "compile_s": round(secs, 1)}
    results = []
    # heavier harnesses first so the tail is short
    order = sorted(harnesses, key=lambda h: -h.timeout * h.weight)
    with ThreadPoolExecutor(max_workers=jobs) as ex:
        for r in ex.map(lambda h: run_one(h, log_dir), order):
            results.append(r)
            sys.stderr.write("  [%s] %-55s %6.1fs %s\n" % (r["status"], r["name"], r["wall_s"], r["reason"][:100]))
            sys.stderr.flush()
    return results, {"compile_ok": True, "compile_s": round(secs, 1)}


# ---------------------------------------------------------------------------------------------
# Replay (DESIGN R10): run the harness natively, real containers, recorded values.

MAIN_TEMPLATE = """// generated by lib/kanirun.py — replays one harness with recorded values
fn main() {
    let vals: Vec<Vec<u8>> = vec![%s];
    kani::load(vals);
    let r = std::panic::catch_unwind(|| fmlverif::%s());
    if let Err(e) = r {
        if !kani::assumption_broken() { std::panic::resume_unwind(e); }
    }
    if kani::assumption_broken() {
        eprintln!("REPLAY: an assumption of the harness does not hold for the recorded values");
        std::process::exit(3);
    }
    println!("REPLAY: harness ran to completion without a failure");
}
"""


def replay_native(harness, vals, timeout=120):
    """Returns dict(profile -> outcome) with outcome in reproduced|clean|assume_broken|build_failed."""
    os.makedirs(os.path.join(REPLAY_DIR, "src"), exist_ok=True)
    lock = os.path.join(REPLAY_DIR, "Cargo.lock")
    if not os.path.exists(lock):
        shutil.copy(os.path.join(REPO, "Cargo.lock"), lock)
    body = ", ".join("vec![%s]" % ", ".join(str(b) for b in v) for v in (vals or []))
    with open(os.path.join(REPLAY_DIR, "src", "main.rs"), "w") as f:
        f.write(MAIN_TEMPLATE % (body, harness))
    out = {}
    for profile, flag in (("dev", []), ("release", ["--release"])):
        b = subprocess.run(["cargo", "build", "--offline", "--bin", "replay"] + flag, cwd=REPLAY_DIR, env=env(),
                           stdout=subprocess.PIPE, stderr=subprocess.STDOUT, text=True)
        if b.returncode != 0:
            out[profile] = {"outcome": "build_failed", "detail": b.stdout[-2000:]}
            continue
        exe = os.path.join(REPLAY_DIR, "target", "release" if flag else "debug", "replay")
        try:
            r = subprocess.run([exe], stdout=subprocess.PIPE, stderr=subprocess.STDOUT, text=True, timeout=timeout)
            rc, txt = r.returncode, r.stdout
        except subprocess.TimeoutExpired:
            rc, txt = -999, "timeout after %ds (non-termination)" % timeout
        if rc == 0:
            outcome = "clean"
        elif rc == 3:
            outcome = "assume_broken"
        else:
            outcome = "reproduced"  # panic (101), abort / stack overflow (negative), timeout
        out[profile] = {"outcome": outcome, "rc": rc, "detail": txt[-1500:]}
    return out
