#!/usr/bin/env python3
"""Native smoke run of harnesses with biased pseudo-random inputs (real containers, no solver).
Development aid only: it validates harnesses and oracles before solver time is spent on them; nothing it
reports is evidence."""
import os, subprocess, sys
sys.path.insert(0, os.path.dirname(os.path.abspath(__file__)))
import kanirun, props

def main():
    pid = sys.argv[1]
    only = sys.argv[2] if len(sys.argv) > 2 else ""
    iters = int(os.environ.get("SMOKE_ITERS", "3000"))
    cfg = props.get(pid)
    names = [h.name for h in cfg.harnesses if only in h.name]
    arms = "\n".join('        ("%s", fmlverif::%s as fn()),' % (n, n) for n in names)
    src = """use std::panic;
fn main() {
    let hs: Vec<(&str, fn())> = vec![
%s
    ];
    panic::set_hook(Box::new(|_| {}));
    let mut bad = 0;
    for (name, f) in hs {
        let mut ran = 0; let mut failed = 0; let mut first = None;
        for seed in 1..=%du64 {
            kani::load_random(seed);
            let r = panic::catch_unwind(|| f());
            if kani::assumption_broken() { continue; }
            ran += 1;
            if r.is_err() { failed += 1; if first.is_none() { first = Some(seed); } }
        }
        println!("{:<50} ran {:>5}  failed {:>5} {}", name, ran, failed, first.map(|s| format!("first seed {}", s)).unwrap_or_default());
        if failed > 0 || ran == 0 { bad += 1; }
    }
    std::process::exit(if bad > 0 { 1 } else { 0 });
}
""" % (arms, iters)
    open(os.path.join(kanirun.REPLAY_DIR, "src", "main.rs"), "w").write(src)
    b = subprocess.run(["cargo", "build", "--offline", "--bin", "replay"], cwd=kanirun.REPLAY_DIR, env=kanirun.env())
    if b.returncode: sys.exit(2)
    sys.exit(subprocess.run([os.path.join(kanirun.REPLAY_DIR, "target", "debug", "replay")]).returncode)
main()
