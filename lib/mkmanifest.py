#!/usr/bin/env python3
"""Regenerates /verif/MANIFEST.json from the property registry (lib/props.py) and the texts below."""
import json
import os
import sys

sys.path.insert(0, os.path.dirname(os.path.abspath(__file__)))
import props  # noqa: E402

ROOT = os.path.dirname(os.path.dirname(os.path.abspath(__file__)))

TEXT = {
    "C03": ("Bounded model checking of the real serializer and loader (Kani/CBMC over /repo/src, recompiled on every run): for every "
            "content of each stated shape, from_bytes(serialize(v)) == v, all input is consumed and re-serialization is byte-identical. "
            "Inverse-ness is a for-all-inputs statement; the solver quantifies over every operand, string and header value of a shape "
            "where the suite fixes one. Whole programs with mixed constant pools and the label table the loader derives are decided on the MIR of "
            "Program::serialize / from_bytes (shape concrete, every number symbolic).",
            "5E (C03)", "Kani/CBMC bounded model checking of serialize/from_bytes per shape + MIR/z3 whole-program round trip"),
    "C04": ("Differential bounded model checking against an independent reference codec written from the documented layout: the real "
            "writer equals the reference encoder byte for byte and the real reader decodes every buffer of the documented layout to the "
            "value it denotes, for all contents of each shape; undocumented tags are rejected. A symmetric writer/reader change passes "
            "every round trip and fails here. Whole programs with mixed pools: the MIR of the real writer against an independent reference encoder "
            "byte for byte, and the MIR of the real reader on the reference bytes.",
            "5E (C04)", "Kani/CBMC differential check: real codec vs reference codec + MIR/z3 whole-program layout and decode"),
    "C08": ("Bounded model checking with the sink's behaviour symbolic: a Write impl accepts a solver-chosen non-empty prefix of every "
            "request; for every serializer level and every content, Ok implies that exactly the reference bytes arrived. Every short-write "
            "schedule is covered in one query per shape, which no fixed sink can do.",
            "5 (C08)", "Kani/CBMC with a nondeterministic short-writing sink"),
    "C09": ("Bounded model checking of eval_call_method over the full 2^32 x 2^32 operand space for every built-in name, spelling and "
            "cross-kind pair against a reference table, plus an SMT (z3) check of the dispatch functions' MIR for the numeric result of "
            "* / % and for method names of any length. Build independence follows from the absence of any reachable profile-dependent "
            "check (overflow, debug assertion) in the kernels.",
            "5 (C09)", "Kani/CBMC over eval_call_method + z3 over the MIR of the dispatch tables"),
}

TEXT.update({
    "C02": ("Bounded model checking of the real compile_into, one AST node at a time: the emitted instruction schema, its net operand-stack "
            "effect for keep_result both ways (the discard path the suite never takes), constant-pool references of the right kind, in "
            "three frame kinds, for every literal value and variable name assignment. The arms with several children are decided on the MIR of "
            "compile_into (shape of the AST concrete, literals and keep_result symbolic): 50 templates x 4 contexts, each path's program checked for "
            "references, kinds, labels, method ranges, frame sizes and one operand-stack depth per instruction; the executor's output is compared "
            "with the natively compiled program on every run.",
            "5C (C02)", "Kani/CBMC over compile_into per AST arm + MIR/z3 symbolic execution of the whole compiler on AST templates"),
    "C05": ("Step refinement by bounded model checking: for each VM kernel, from an arbitrary small pre-state (every Pointer symbolic, "
            "operands selecting right kind / wrong kind / out of range) the post-state equals the documented instruction semantics and the "
            "kernel fails exactly where they are undefined. One step from every state of the shape covers histories of any length whose "
            "states stay inside the shape. The kernels CBMC cannot hold (array built-ins, function and method calls with parent-chain dispatch, "
            "array / object creation, field get / set) are decided on their MIR by a symbolic executor with z3, counterexamples replayed natively.",
            "5A (C05)", "Kani/CBMC per eval_* kernel + MIR/z3 symbolic execution of the call / heap kernels against the instruction semantics"),
    "C07": ("z3 over the LALR tables lalrpop generates from the current grammar (merged symbolic execution of the LR automaton: every operator "
            "tuple up to the bound groups as the documented precedence and left associativity prescribe; else-binding and chain templates), z3 "
            "regular-expression equivalence for the lexer's skip and token languages (no length bound), and Kani for the operator fold "
            "(a op b = a.op(b), left fold); the string and identifier token actions of the generated parser are executed symbolically from their MIR "
            "on every ASCII token text of the token's regex up to a length bound (z3 strings). Counterexamples are replayed through /repo's real lexer and parser.",
            "5, 5F (C07)", "z3 over generated LALR tables and lexer regexes + Kani operator fold + MIR/z3 symbolic execution of the generated parser's token actions"),
    "C10": ("The kernel harnesses double as failure checks: on every state where the documented step is undefined the kernel returns Err (or a "
            "listed Rust arithmetic panic), no other panic / unwrap / index / unreachable is reachable from any state of the shape, the fetch loop "
            "stops at the first failure, and a failing print writes nothing. print is executed from its MIR over every value graph of a 5-cell heap "
            "shape, cyclic graphs included: unbounded native recursion on a value that reaches itself is found by the solver, replayed natively (SIGABRT) "
            "and listed as a known finding. Partial: exit status and stderr are main.rs; native stack depth on long acyclic chains is not decided.",
            "5, 5G (C10)", "Kani/CBMC failure conjuncts of the VM kernels + MIR/z3 symbolic execution of dispatch, print and value rendering over arbitrary value graphs"),
    "C11": ("Per-kernel noninterference by bounded model checking: a cross-section of serializer, compiler and VM kernels equals a reference "
            "that is a function of the harness inputs only; reachable clock / environment / randomness would be a Kani failure, and with overflow "
            "checks on, the absence of any failing arithmetic check makes debug and release compute the same function (the MIR/z3 task models "
            "Rust's overflow panics explicitly).", "5 (C11)", "Kani/CBMC kernel = reference function of inputs; z3 over MIR with overflow panics"),
    "C12": ("Bounded model checking of the scope kernel through the public compiler API: for each sequence of let / read / assign / enter / leave "
            "(kinds are the shape, every name symbolic over two names) in three frame kinds, every access resolves to the slot the README's block "
            "scoping rules give (innermost visible definition, fresh slot per shadowing let, left scopes invisible, top-level lets are globals). "
            "Run-time observation: the whole compiler is executed on its MIR for scope templates (shadowing, sibling blocks, function isolation, parameters, "
            "methods) whose variable reads are printed; the values the emitted code prints on a reference stack machine equal those of the README's scoping.",
            "5C (C12)", "Kani/CBMC scope-operation sequences vs a reference resolver + MIR/z3 compiler scope templates"),
    "C13": ("VM side by bounded model checking: operands are popped exactly once and in the pushed order (branch, array, set slot), the value of "
            "a let / assignment is compiled before the store; argument order of function / method calls and member order of object creation are "
            "decided on the kernels' MIR with z3. Compiler side: compile_into is executed on its MIR for 50 templates whose operand positions hold "
            "self-identifying calls; the trace of the emitted code on a reference stack machine must equal the trace the README's semantics "
            "prescribe (left to right, initializer per element, taken branch only, loop condition once more at exit) for the listed run-time choices.",
            "5C (C13)", "Kani/CBMC VM-side operand order + MIR/z3 call / object kernels + MIR/z3 compiler templates against a reference evaluator"),
    "C14": ("Bounded model checking of field access through heap references (in-place update visible through the reference, non-objects rejected) "
            "and z3 over the MIR of the built-in dispatch tables, of field get / set on object cells and of method dispatch through a parent "
            "chain (own method first, then the parent's, built-ins at the chain end, arity checked).",
            "5A (C14)", "Kani/CBMC field kernels + MIR/z3 dispatch, parent-chain and field kernels"),
    "C15": ("Bounded model checking of the print state machine for every ASCII format string up to 5 bytes (escapes, copied characters, "
            "placeholder without argument fails, nothing written on failure, null pushed), a two-byte character copied unchanged, and z3 inclusion "
            "both ways between the lexer's string-literal language and the escapes print accepts. Prints with arguments and the rendering of "
            "values are decided on the MIR of eval_print and evaluate_as_string: every argument and heap leaf a symbolic Pointer, the sink a "
            "token list, verdict and output compared with the property's own definition per path.",
            "5D (C15)", "Kani/CBMC print state machine + z3 lexer/print escape agreement + MIR/z3 print with arguments and value rendering"),
    "C16": ("Bounded model checking of Heap::allocate accounting (returns the old length, appends one cell, adds exactly size() > 0, size depends "
            "on shape only) through a guarded read accessor, exactly one allocation per successful array creation and none on failure or in any "
            "other kernel, under an arbitrary --heap-size; array and object creation are decided on their MIR with z3 (one cell appended, "
            "limit respected); on the compiler side the emitted code of every AST template executes as many array / object instructions as the README's "
            "evaluator creates arrays / objects (MIR/z3 compiler task). Partial: the CSV file is I/O.",
            "5A, 5C (C16)", "Kani/CBMC allocation accounting per kernel + MIR/z3 array / object creation + MIR/z3 compiler templates with allocation counts"),
})

TEXT["C17"] = (
    "SMT (z3) over the MIR of every Display impl `fml disassemble` prints with: write! becomes a token list (literal text, one token per {} "
    "with the term of the value printed), and four families of queries decide that the listing determines the program — a rendering splits "
    "into its tokens in one way only (exact ambiguity query on regular languages), the tokens of a path determine every payload field "
    "(bit-vectors / strings over two copies of the value), renderings of different kinds or program shapes are disjoint languages, and every "
    "element is listed on a line starting with its index. Injectivity is a statement about all pairs of programs; the six *_print tests pin "
    "one other pretty-printer on a few programs. Counterexamples are two concrete values printed by the real code.",
    "5A (C17)", "z3 over MIR-extracted Display token sequences: unique decomposition, payload determinacy, language disjointness")

TRUSTED = ("Trusted: rustc MIR -> Kani GOTO translation, CBMC, CaDiCaL, z3; the Vec-backed models of HashMap/HashSet/IndexMap "
           "(counterexamples are replayed with the real containers); the stubs listed in the evidence file. Bounded: see "
           "coverage.bounds / outside_the_bounds in the evidence.")

NOT_APPLICABLE = {
    "C01": "quantifies over all closed programs: a closed program leaves nothing symbolic (one execution decides it), and the space of programs means a "
           "symbolic source through the regex lexer and LALR driver or an AST of unbounded shape through compiler and an interpreter loop of "
           "program-dependent length - no meaningful bound. Each mechanism of the pipeline is decided separately for all contents of stated shapes "
           "(C02-C05, C07, C09, C10, C12-C16; the compiler templates of C02/C12/C13 compare the emitted code's trace with a README evaluator); their "
           "composition is an argument on paper, not a solver verdict (DESIGN 7)",
    "C06": "lives in main.rs (clap, files, processes) and in serde_json / serde_yaml / serde-lexpr text codecs: I/O, FFI and third-party "
           "parsers whose loops grow with input are not encodable for CBMC or z3 (DESIGN 5, 7)",
}

PENDING = "check not built yet in this session (planned, see DESIGN.md section 5)"


def main():
    all_ids = ["C%02d" % i for i in range(1, 18)]
    checks = []
    for pid in all_ids:
        if pid not in props.REGISTRY or pid not in TEXT:
            continue
        text, ref, technique = TEXT[pid]
        checks.append({
            "property_id": pid,
            "quick_cmd": "./check %s quick" % pid,
            "thorough_cmd": "./check %s thorough" % pid,
            "evidence_file": "/verif/evidence/%s.json" % pid,
            "replay_cmd_template": "./check --replay {path}",
            "engine": "kani-cbmc" if props.get(pid).harnesses else "z3-encoders",
            "level_claimed": {"category": "model_checking", "text": text, "design_ref": "DESIGN.md section " + ref},
            "level_note": TRUSTED,
            "technique": technique,
        })
    na = []
    for pid in all_ids:
        if pid in [c["property_id"] for c in checks]:
            continue
        na.append({"property_id": pid, "reason": NOT_APPLICABLE.get(pid, PENDING)})
    manifest = {
        "version": 1,
        "setup_cmd": "./setup.sh",
        "hooks": {
            "guard": "--cfg kondziu_fml_verif",
            "enable": "the harness crates' build.rs emits cargo:rustc-cfg=kondziu_fml_verif; /repo's own build never sets it",
            "baseline_off_cmd": "cd /repo && cargo test --workspace --no-fail-fast --offline",
            "source_commits": ["48755db"],
            "add_only": True,
        },
        "engines": [
            {"name": "kani-cbmc", "path": "/verif/kani", "serves_properties": [c["property_id"] for c in checks if props.get(c["property_id"]).harnesses],
             "kind_free_text": "Kani 0.68 / CBMC 6.11 harness crate that #[path]-includes /repo/src unchanged; replay twin in /verif/replay"},
            {"name": "z3-encoders", "path": "/verif/smt", "serves_properties": [c["property_id"] for c in checks if props.get(c["property_id"]).smt_tasks],
             "kind_free_text": "z3 encoders regenerated from /repo sources on every run: symbolic executor over the nightly MIR dump (VM kernels, "
                               "dispatch tables, Display impls), lexer regexes, generated LALR tables; native replay binaries in /verif/replay and /verif/lalr"},
        ],
        "checks": checks,
        "notes": "All checks are solver-based (Kani/CBMC, z3) over the real code; see DESIGN.md. Exit 2 = inconclusive, never counted as held.",
        "not_applicable": na,
    }
    with open(os.path.join(ROOT, "MANIFEST.json"), "w") as f:
        json.dump(manifest, f, indent=1)
    print("MANIFEST.json: %d checks, %d not applicable" % (len(checks), len(na)))


main()
