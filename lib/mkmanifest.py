#!/usr/bin/env python3
"""Regenerates /verif/MANIFEST.json from the property registry (lib/props.py) and the texts below."""
import json
import os
import sys

sys.path.insert(0, os.path.dirname(os.path.abspath(__file__)))
import props  # noqa: E402

ROOT = os.path.dirname(os.path.dirname(os.path.abspath(__file__)))

TEXT = {
    "C03": ("Bounded model checking of the real serializer and loader (Kani/CBMC over /repo/src, recompiled on every run): for every "
            "content of each stated shape, from_bytes(serialize(v)) == v, all input is consumed and re-serialization is byte-identical. "
            "Inverse-ness is a for-all-inputs statement; the solver quantifies over every operand, string and header value of a shape "
            "where the suite fixes one.",
            "5 (C03)", "Kani/CBMC bounded model checking of serialize/from_bytes per shape"),
    "C04": ("Differential bounded model checking against an independent reference codec written from the documented layout: the real "
            "writer equals the reference encoder byte for byte and the real reader decodes every buffer of the documented layout to the "
            "value it denotes, for all contents of each shape; undocumented tags are rejected. A symmetric writer/reader change passes "
            "every round trip and fails here.",
            "5 (C04)", "Kani/CBMC differential check: real codec vs reference codec"),
    "C08": ("Bounded model checking with the sink's behaviour symbolic: a Write impl accepts a solver-chosen non-empty prefix of every "
            "request; for every serializer level and every content, Ok implies that exactly the reference bytes arrived. Every short-write "
            "schedule is covered in one query per shape, which no fixed sink can do.",
            "5 (C08)", "Kani/CBMC with a nondeterministic short-writing sink"),
    "C09": ("Bounded model checking of eval_call_method over the full 2^32 x 2^32 operand space for every built-in name, spelling and "
            "cross-kind pair against a reference table, plus an SMT (z3) check of the dispatch functions' MIR for the numeric result of "
            "* / % and for method names of any length. Build independence follows from the absence of any reachable profile-dependent "
            "check (overflow, debug assertion) in the kernels.",
            "5 (C09)", "Kani/CBMC over eval_call_method + z3 over the MIR of the dispatch tables"),
}

TRUSTED = ("Trusted: rustc MIR -> Kani GOTO translation, CBMC, CaDiCaL, z3; the Vec-backed models of HashMap/HashSet/IndexMap "
           "(counterexamples are replayed with the real containers); the stubs listed in the evidence file. Bounded: see "
           "coverage.bounds / outside_the_bounds in the evidence.")

NOT_APPLICABLE = {
    "C01": "whole `fml run` pipeline (regex lexer + LALR parser + compiler + VM on a closed program) cannot be encoded for a solver within reach; "
           "its mechanisms are decided per kernel under C02, C05, C09, C12-C15 (DESIGN 5, 7)",
    "C06": "lives in main.rs (clap, files, processes) and in serde_json / serde_yaml / serde-lexpr text codecs: I/O, FFI and third-party "
           "parsers whose loops grow with input are not encodable for CBMC or z3 (DESIGN 5, 7)",
}

PENDING = "check not built yet in this session (planned, see DESIGN.md section 5)"


def main():
    all_ids = ["C%02d" % i for i in range(1, 18)]
    checks = []
    for pid in all_ids:
        if pid not in props.REGISTRY or pid not in TEXT:
            continue
        text, ref, technique = TEXT[pid]
        checks.append({
            "property_id": pid,
            "quick_cmd": "./check %s quick" % pid,
            "thorough_cmd": "./check %s thorough" % pid,
            "evidence_file": "/verif/evidence/%s.json" % pid,
            "replay_cmd_template": "./check --replay {path}",
            "engine": "kani-cbmc",
            "level_claimed": {"category": "model_checking", "text": text, "design_ref": "DESIGN.md section " + ref},
            "level_note": TRUSTED,
            "technique": technique,
        })
    na = []
    for pid in all_ids:
        if pid in [c["property_id"] for c in checks]:
            continue
        na.append({"property_id": pid, "reason": NOT_APPLICABLE.get(pid, PENDING)})
    manifest = {
        "version": 1,
        "setup_cmd": "./setup.sh",
        "hooks": {
            "guard": "--cfg kondziu_fml_verif",
            "enable": "the harness crates' build.rs emits cargo:rustc-cfg=kondziu_fml_verif; /repo's own build never sets it",
            "baseline_off_cmd": "cd /repo && cargo test --workspace --no-fail-fast --offline",
            "source_commits": [],
            "add_only": True,
        },
        "engines": [
            {"name": "kani-cbmc", "path": "/verif/kani", "serves_properties": [c["property_id"] for c in checks],
             "kind_free_text": "Kani 0.68 / CBMC 6.11 harness crate that #[path]-includes /repo/src unchanged; replay twin in /verif/replay"},
            {"name": "z3-encoders", "path": "/verif/smt", "serves_properties": ["C07", "C09", "C15"],
             "kind_free_text": "z3 encoders regenerated from /repo sources: MIR of loop-free kernels, lexer regexes, LALR tables"},
        ],
        "checks": checks,
        "notes": "All checks are solver-based (Kani/CBMC, z3) over the real code; see DESIGN.md. Exit 2 = inconclusive, never counted as held.",
        "not_applicable": na,
    }
    with open(os.path.join(ROOT, "MANIFEST.json"), "w") as f:
        json.dump(manifest, f, indent=1)
    print("MANIFEST.json: %d checks, %d not applicable" % (len(checks), len(na)))


main()
