"""Per-property configuration: which harnesses and solver tasks make up each tier, and the text that
goes into the evidence (functions encoded, bounds, what lies outside them, stubs, assumptions)."""
from kanirun import Harness

STD_STUBS = [
    "std::fmt::format -> String::new() on harnesses whose subject is not message text (R4)",
    "<anyhow::Error as Drop>::drop -> no-op (R4)",
    "std::collections::{HashMap,HashSet} and indexmap::IndexMap replaced by association-list models through Cargo "
    "dependency substitution (R5); counterexamples are replayed with the real containers",
    "memory-safety and assertion-reachability instrumentation off (the repository contains no unsafe code); "
    "overflow, panic, unreachable, unwinding and user assertions stay on (R6/R7)",
]
STD_ASSUMPTIONS = [
    "rustc MIR -> Kani GOTO translation, CBMC 6.11 and CaDiCaL are sound",
    "the container models are contract-equivalent to std HashMap/HashSet and indexmap::IndexMap",
    "every claim is bounded by the shapes listed under coverage.bounds",
]


class Prop:
    def __init__(self, pid):
        self.pid = pid
        self.harnesses = []
        self.smt_tasks = []
        self.jobs = {"quick": 12, "thorough": 12}
        self.functions = []
        self.bounds = []
        self.outside = []
        self.not_covered = []
        self.stubs = list(STD_STUBS)
        self.assumptions = list(STD_ASSUMPTIONS)

    def add(self, name, **kw):
        self.harnesses.append(Harness(name, **kw))


def c09():
    p = Prop("C09")
    ops = ["add", "sub", "mul", "div", "mod", "le", "ge", "lt", "gt", "eq", "neq", "and", "or"]
    quick = {("int", o, "sym") for o in ("add", "sub", "mul", "div", "mod", "lt", "eq", "and")}
    quick |= {("int", "add", "feeny"), ("int", "mul", "feeny"), ("bool", "and", "sym"), ("bool", "or", "feeny"),
              ("bool", "eq", "sym"), ("bool", "add", "sym"), ("null", "eq", "sym"), ("null", "neq", "feeny"), ("null", "lt", "sym")}
    for recv in ("int", "bool", "null"):
        for op in ops:
            for sp in ("sym", "feeny"):
                p.add("h_c09::c09_%s_%s_%s" % (recv, op, sp), quick=(recv, op, sp) in quick, timeout=600,
                      drives=["interpreter::eval_call_method", "interpreter::dispatch_method",
                              "interpreter::dispatch_%s_method" % {"int": "integer", "bool": "boolean", "null": "null"}[recv],
                              "state::OperandStack::pop_sequence"],
                      bound="receiver payload, argument kind (null/int/bool/reference) and argument payload symbolic: full "
                            "2^32 x 2^32 operand space; name spelling concrete")
    for op in ("div", "mod"):
        for sp in ("sym", "feeny"):
            p.add("h_c09::c09_int_%s_%s_r9" % (op, sp), quick=(sp == "sym"), timeout=600,
                  drives=["interpreter::dispatch_integer_method"],
                  bound="zero divisor (all dividends) and MIN / -1: only Rust's division panics or Err accepted")
    for recv in ("int", "bool", "null"):
        for n in (1, 2, 3):
            p.add("h_c09::c09_unknown_%s_len%d" % (recv, n), quick=(n == 1), timeout=900,
                  bound="all printable-ASCII method names of length %d outside the documented set" % n)
        for a in (1, 3):
            p.add("h_c09::c09_arity%d_%s" % (a, recv), quick=(recv == "int"), timeout=600,
                  bound="call arity %d (built-ins take exactly one argument)" % a)
    p.add("h_c09::c09_ref_division_semantics", quick=True, timeout=300, bound="oracle self-check, 8-bit operands")
    p.add("h_c09::c09_ref_multiplication_semantics", quick=True, timeout=300, bound="oracle self-check, 16-bit operands")
    p.functions = ["bytecode::interpreter::eval_call_method", "dispatch_method", "dispatch_null_method",
                   "dispatch_integer_method", "dispatch_boolean_method", "state::OperandStack::{push,pop,pop_sequence}",
                   "state::InstructionPointer::bump", "program::ConstantPool::get", "ProgramObject::as_str"]
    p.bounds = ["operands: all 2^32 x 2^32 integer pairs, both booleans, null, any heap reference",
                "method names: the 13 documented operations in both spellings; unknown names of length 1-3 (printable ASCII)",
                "operand stack: sentinel + receiver + arguments; one constant; two instructions"]
    p.outside = ["unknown method names longer than 3 bytes or non-ASCII (Kani side)",
                 "MIN % -1 (documented don't-care, DESIGN 4.1)",
                 "running two differently built binaries: build independence is argued from the absence of any reachable "
                 "profile-dependent check (overflow / debug assertion) in the kernels"]
    return p


REGISTRY = {"C09": c09}


def get(pid):
    f = REGISTRY.get(pid)
    return f() if f else None
