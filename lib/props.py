"""Per-property configuration: which harnesses and solver tasks make up each tier, and the text that
goes into the evidence (functions encoded, bounds, what lies outside them, stubs, assumptions)."""
from kanirun import Harness
from smttasks import SmtTask

STD_STUBS = [
    "std::fmt::format -> String::new() on harnesses whose subject is not message text (R4)",
    "<anyhow::Error as Drop>::drop -> no-op (R4)",
    "std::collections::{HashMap,HashSet} and indexmap::IndexMap replaced by association-list models through Cargo "
    "dependency substitution (R5); counterexamples are replayed with the real containers",
    "memory-safety and assertion-reachability instrumentation off (the repository contains no unsafe code); "
    "overflow, panic, unreachable, unwinding and user assertions stay on (R6/R7)",
]
STD_ASSUMPTIONS = [
    "rustc MIR -> Kani GOTO translation, CBMC 6.11 and CaDiCaL are sound",
    "the container models are contract-equivalent to std HashMap/HashSet and indexmap::IndexMap",
    "every claim is bounded by the shapes listed under coverage.bounds",
]


class Prop:
    def __init__(self, pid):
        self.pid = pid
        self.harnesses = []
        self.smt_tasks = []
        self.jobs = {"quick": 12, "thorough": 12}
        self.functions = []
        self.bounds = []
        self.outside = []
        self.not_covered = []
        self.stubs = list(STD_STUBS)
        self.assumptions = list(STD_ASSUMPTIONS)

    def add(self, name, **kw):
        self.harnesses.append(Harness(name, **kw))


def c09():
    p = Prop("C09")
    ops = ["add", "sub", "mul", "div", "mod", "le", "ge", "lt", "gt", "eq", "neq", "and", "or"]
    quick = {("int", o, "sym") for o in ("add", "mul", "div", "lt", "eq")}
    quick |= {("int", "sub", "feeny"), ("bool", "and", "sym"), ("bool", "eq", "feeny"), ("null", "eq", "sym"), ("null", "lt", "sym")}
    for recv in ("int", "bool", "null"):
        for op in ops:
            for sp in ("sym", "feeny"):
                p.add("h_c09::c09_%s_%s_%s" % (recv, op, sp), quick=(recv, op, sp) in quick, timeout=600,
                      drives=["interpreter::eval_call_method", "interpreter::dispatch_method",
                              "interpreter::dispatch_%s_method" % {"int": "integer", "bool": "boolean", "null": "null"}[recv],
                              "state::OperandStack::pop_sequence"],
                      bound="receiver payload, argument kind (null/int/bool/reference) and argument payload symbolic: full "
                            "2^32 x 2^32 operand space; name spelling concrete")
    for op in ("div", "mod"):
        for sp in ("sym", "feeny"):
            p.add("h_c09::c09_int_%s_%s_r9" % (op, sp), quick=(sp == "sym"), timeout=600,
                  drives=["interpreter::dispatch_integer_method"],
                  bound="zero divisor (all dividends) and MIN / -1: only Rust's division panics or Err accepted")
    for recv in ("int", "bool", "null"):
        for n in (1, 2, 3):
            p.add("h_c09::c09_unknown_%s_len%d" % (recv, n), quick=(n == 2 and recv == "int"), timeout=900,
                  bound="all printable-ASCII method names of length %d outside the documented set" % n)
        for a in (1, 3):
            p.add("h_c09::c09_arity%d_%s" % (a, recv), quick=(recv == "int" and a == 1), timeout=600,
                  bound="call arity %d (built-ins take exactly one argument)" % a)
    p.add("h_c09::c09_ref_division_semantics", quick=True, timeout=300, bound="oracle self-check, 8-bit operands")
    p.add("h_c09::c09_ref_multiplication_semantics", quick=True, timeout=300, bound="oracle self-check, 16-bit operands")
    p.smt_tasks.append(SmtTask("c09_dispatch_mir", "c09_dispatch.py", quick=True, timeout=900))
    p.functions = ["bytecode::interpreter::eval_call_method", "dispatch_method", "dispatch_null_method",
                   "dispatch_integer_method", "dispatch_boolean_method", "state::OperandStack::{push,pop,pop_sequence}",
                   "state::InstructionPointer::bump", "program::ConstantPool::get", "ProgramObject::as_str"]
    p.bounds = ["operands: all 2^32 x 2^32 integer pairs, both booleans, null, any heap reference",
                "method names: the 13 documented operations in both spellings; unknown names of length 1-3 (printable ASCII)",
                "operand stack: sentinel + receiver + arguments; one constant; two instructions"]
    p.stubs = p.stubs + ["MIR/z3 engine: core functions called by the dispatch tables are modelled from their documented semantics "
                         "(str ==, integer comparison, checked + - * / % with Rust's panics, wrapping_*/checked_*/saturating_*/euclid "
                         "variants, Vec::len, slice last/first, Option::unwrap); message and anyhow::Error construction is opaque"]
    p.outside = ["unknown method names longer than 3 bytes or non-ASCII on the Kani side (the MIR/z3 task covers names of any length)",
                 "more than 3 call arguments on the MIR/z3 side",
                 "MIN % -1 (documented don't-care, DESIGN 4.1)",
                 "running two differently built binaries: build independence is argued from the absence of any reachable "
                 "profile-dependent check (overflow / debug assertion) in the kernels"]
    return p


SER_SHAPES = (["prim", "opcode", "int", "bool", "null", "slot"] + ["utf8_%d" % n for n in range(5)] + ["string%d" % n for n in range(5)]
              + ["class%d" % n for n in range(4)] + ["method%d" % n for n in range(4)] + ["framing", "framing_repeated"])
SER_QUICK = {"prim", "opcode", "int", "bool", "slot", "utf8_2", "string0", "string3", "class2", "method2", "framing", "framing_repeated"}
SER_FUNCS = ["bytecode::serializable::{write_u8,write_bool,write_u16,write_u32,write_i32,write_utf8,write_u16_vector,"
             "read_u8,read_bool,read_u16,read_u32,read_i32,read_utf8,read_u16_vector}",
             "<OpCode as Serializable>::{serialize,from_bytes}", "OpCode::{write_opcode_vector,read_opcode_vector,to_hex}",
             "<ProgramObject as SerializableWithContext>::{serialize,from_bytes}", "ProgramObject::tag",
             "<ConstantPool as SerializableWithContext>::{serialize,from_bytes}", "<Globals as Serializable>", "<Entry as Serializable>",
             "<Program as Serializable>::{serialize,from_bytes}", "Code::{materialize,append,labels,label_addresses}", "Labels::from",
             "ConstantPoolIndex::{read_cpi_vector,write_cpi_vector}", "Arity/Size/ConstantPoolIndex/LocalFrameIndex Serializable impls"]
SER_BOUNDS = ["primitives: every u8, bool, u16, u32, i32 value",
              "strings: byte length 0-4, every valid UTF-8 content of that length (multi-byte characters included)",
              "instructions: all 17 kinds (kind symbolic) x every u16 / u8 operand value",
              "constants: integer/boolean/null/slot (kind symbolic, all payloads); string 0-4 bytes; class of 0-3 members; "
              "method of 0-3 instructions with symbolic kinds, name, arity, locals",
              "program framing: pool of two concrete integers (different, and the same constant twice), two globals and the entry index "
              "symbolic (count prefixes, pool order, pool/globals/entry order); decode direction with symbolic integer payloads"]
SER_NOT_COVERED = ["whole programs with a mixed constant pool (string + method + slot ...) and the label table that Program::from_bytes "
                   "derives: an enum read back from a Vec of different variants loses its discriminant for CBMC and the run exhausts "
                   "8-24 GB (DESIGN 2); composition is checked on a homogeneous concrete pool only"]
SER_OUTSIDE = ["strings longer than 4 bytes, classes of more than 3 members, methods of more than 3 instructions, pools of more than 5 constants",
               "programs whose method address ranges are not contiguous in pool order (no compiler output has that shape)",
               "NamedSink in main.rs (one-line delegation to the wrapped writer) and the real stdout pipe"]


SMIR = lambda which: SmtTask("c03_serial_mir", "c03_serial.py", quick=True, timeout=900, args=[which])
SMIR_FUNCS = ["MIR/z3: <Program as Serializable>::{serialize,from_bytes} and everything below it (ConstantPool, ProgramObject, OpCode, Globals, Entry, the primitive "
              "readers / writers, write_cpi_vector / read_cpi_vector, Code::{materialize,labels,label_addresses,extend}, Labels::from) from their own MIR"]
SMIR_BOUNDS = ["MIR/z3 serializer task: 5 whole-program shapes with mixed constant pools (every constant kind together with a method that holds a label; two methods with "
               "labels, jump, branch, a repeated string, a repeated integer and a three-member class; all 17 instruction kinds in one method; empty pool; empty method "
               "and empty class) - every integer, boolean, index, arity, frame size, class member, global and entry symbolic; string contents and counts concrete. "
               "LAY: bytes written = reference encoder byte for byte; RT: from_bytes(serialize(p)) = p, all input consumed, label table = label names -> addresses; "
               "DEC: from_bytes(reference bytes) = p"]
SMIR_STUBS = ["serializer task: the sink is a vector of byte terms, the source a cursor over one (write_all / read_exact), to_le_bytes / from_le_bytes are Extract / Concat; "
              "String::from_utf8 and str::bytes on concrete contents; sort / dedup of up to 4 symbolic integers fork one path per outcome"]


def ser_shape_timeout(shape):
    return 900


def ser_shape_mem(shape):
    return 12


def c03():
    p = Prop("C03")
    for sh in SER_SHAPES:
        p.add("h_ser::ser_%s_roundtrip" % sh, quick=sh in SER_QUICK, timeout=ser_shape_timeout(sh), mem_gb=ser_shape_mem(sh), 
              drives=["serialize", "from_bytes"], bound="shape %s: sizes concrete, every content symbolic" % sh)
    p.smt_tasks.append(SMIR("C03"))
    p.functions, p.bounds, p.outside = SER_FUNCS + SMIR_FUNCS, SER_BOUNDS + SMIR_BOUNDS, SER_OUTSIDE
    p.not_covered = ["whole programs with a mixed constant pool under Kani (8-24 GB); decided by the MIR task for the 5 listed shapes"]
    p.stubs = p.stubs + SMIR_STUBS
    return p


def c04():
    p = Prop("C04")
    for sh in SER_SHAPES:
        p.add("h_ser::ser_%s_layout" % sh, quick=sh in SER_QUICK, timeout=ser_shape_timeout(sh), mem_gb=ser_shape_mem(sh), 
              drives=["serialize"], bound="shape %s: real writer = reference encoder, byte for byte" % sh)
    dec = ["prim", "opcode", "int", "bool", "null", "slot"] + ["string%d" % n for n in range(5)] + \
          ["class%d" % n for n in range(4)] + ["method%d" % n for n in range(4)]
    for sh in dec:
        p.add("h_ser::ser_%s_decode" % sh, quick=sh in ("prim", "opcode", "int", "bool", "string2", "class2", "method2"), timeout=900,
              drives=["from_bytes"], bound="shape %s: every buffer of the documented layout (structure concrete, payload symbolic)" % sh)
    p.add("h_ser::ser_framing_decode", quick=True, timeout=900, drives=["Program::from_bytes"],
          bound="framing decode: two integer constants (all values, equal or not), two globals, entry")
    p.add("h_ser::ser_length_prefix_widths", quick=True, timeout=600, drives=["write_usize_as_u16", "write_usize_as_u32"],
          bound="every count <= 65535 and every length <= 2^32 - 1")
    p.add("h_ser::ser_opcode_reject", quick=True, timeout=600, allow=["Cannot deserialize opcode: unknown tag"],
          bound="opcode numbers 0x11-0xff: rejected (the reader's rejection is a panic)")
    p.add("h_ser::ser_utf8_predicate_exact", quick=False, timeout=900, bound="harness-side UTF-8 predicate = std::str::from_utf8 on all inputs of 0-4 bytes")
    p.add("h_ser::ser_constant_reject", quick=True, timeout=600,
          allow=["Cannot deserialize value: unrecognized value tag", "Problem reading boolfrom data stream"],
          bound="constant tags 0x07-0xff (the bytes after the tag zero): rejected")
    p.add("h_ser::ser_boolean_reject", quick=True, timeout=600,
          allow=["Cannot deserialize value: unrecognized value tag", "Problem reading boolfrom data stream"],
          bound="boolean payload bytes 2-255 (six further symbolic bytes): rejected")
    p.smt_tasks.append(SMIR("C04"))
    p.functions, p.bounds, p.outside = SER_FUNCS + SMIR_FUNCS, SER_BOUNDS + SMIR_BOUNDS, SER_OUTSIDE
    p.not_covered = ["whole programs with a mixed constant pool under Kani (8-24 GB); decided by the MIR task for the 5 listed shapes"]
    p.stubs = p.stubs + SMIR_STUBS
    return p


def c08():
    p = Prop("C08")
    for sh in SER_SHAPES:
        if sh in ("bool", "null"):
            continue  # every write of these shapes is a single byte: no short write exists
        p.add("h_ser::ser_%s_shortwrite" % sh, quick=sh in SER_QUICK, timeout=ser_shape_timeout(sh), mem_gb=ser_shape_mem(sh), 
              drives=["serialize"], bound="shape %s under every short-write schedule: each write call accepts a solver-chosen k, 1 <= k <= len" % sh)
    p.functions, p.outside, p.not_covered = SER_FUNCS, SER_OUTSIDE, SER_NOT_COVERED
    p.bounds = SER_BOUNDS + ["sink: std::io::Write impl that accepts an independently solver-chosen non-empty prefix at every call and "
                             "never errors; this subsumes every per-call limit k and a short write at each individual call"]
    return p


VM_FUNCS = ["bytecode::interpreter::{eval_literal,eval_get_local,eval_set_local,eval_get_global,eval_set_global,eval_drop,eval_label,"
            "eval_jump,eval_branch,eval_return,eval_array,eval_get_field,eval_set_field,eval_call_method,eval_opcode,evaluate_with}",
            "interpreter::{dispatch_method,dispatch_array_method,dispatch_array_get_method,dispatch_array_set_method}",
            "state::{OperandStack,Frame,FrameStack,GlobalFrame,InstructionPointer}::*", "heap::{Heap::allocate,Heap::dereference,"
            "Heap::dereference_mut,HeapObject,ArrayInstance,ObjectInstance,Pointer}::*", "program::{ConstantPool::get,Labels::get,Code::next,Code::get}"]
VM_BOUNDS = ["pre-state: operand stack = sentinel (+ the instruction's operands), one frame of two locals (two frames for return), "
             "heap of 0-2 cells, one global, one label; every Pointer symbolic in kind and payload, references range over the cells "
             "plus one dangling index; operand indices symbolic (right kind / wrong kind / out of range)",
             "array sizes <= 2; names of one byte (get/set: three); --heap-size any value below 2^40 MB"]
VM_OUTSIDE = ["stacks deeper than 4, more than 2 frames, more than 2 heap cells, longer names, arrays longer than 2",
              "the fetch loop over programs longer than 3 instructions", "--heap-size >= 2^44 MB (set_size's own multiplication overflows)"]
VM_NOT_COVERED = ["under CBMC: eval_call_function, object-method invocation, eval_object, eval_set_field and array get/set (12-50 GB); they are decided on "
                  "their MIR by the z3 tasks vm_kernels_mir / vm_heap_kernels_mir instead",
                  "State::from (initial state) is not covered by any engine",
                  "eval_opcode's 17-way routing and a fetch loop that runs several instructions to the end (vm_routing, vm_loop_runs_to_end): "
                  "every kernel is reachable from them, 12 GB exhausted; the loop's stop-at-first-failure harness fits",
                  "eval_set_field under CBMC: 15.5 M variables / 68.8 M clauses, out of memory at 12 GB in propositional reduction (three harness shapes tried)",
                  "eval_call_function, object-method invocation and eval_object: their iterator chains (veccat!, collect, IndexMap builds) exhaust "
                  "16-50 GB under CBMC (DESIGN 2); see the MIR/z3 tasks for what is decided about them"]
VM_ALL = ["literal", "get_local", "set_local", "get_global", "set_global", "drop_label", "jump", "branch", "return", "array",
          "get_field", "loop_stops_at_failure"]


# quick tier: the kernels that bear on the property (args); thorough tier: all kernels of the task
VMK = lambda *quick_kernels: SmtTask("vm_kernels_mir", "vm_kernels.py", quick=True, timeout=1200, args=list(quick_kernels), thorough_args=[])
VMH = lambda *quick_kernels: SmtTask("vm_heap_kernels_mir", "vm_heap_kernels.py", quick=True, timeout=1800, args=list(quick_kernels), thorough_args=[])
VMK_FUNCS = ["interpreter::{eval_array,eval_object,eval_get_field,eval_set_field} with Heap::allocate, HeapObject::{size,new_object,from_pointers}, "
             "ObjectInstance::{get_field,set_field}, Heap::dereference(_mut): MIR/z3",
             "interpreter::{eval_call_method,dispatch_method,dispatch_object_method,eval_call_object_method} on object receivers: MIR/z3",
             "interpreter::{dispatch_array_method,dispatch_array_get_method,dispatch_array_set_method,eval_call_function} and everything they call in "
             "/repo (ArrayInstance::{get_element,set_element}, Pointer::as_usize, ConstantPool::get, GlobalFunctions::get, OperandStack::pop_sequence "
             "with its closures, Size::make_vector, Frame::from, FrameStack::push, InstructionPointer::{bump,get,set}, Code::next): MIR/z3"]
VMK_BOUNDS = ["MIR/z3: array creation on heaps of 0-1 cells with sizes <= 2; object creation for classes of 0-2 slots with and without a method; field "
              "get/set on an object of two fields with any receiver; method calls on a two-object parent chain ending in null / any integer / "
              "any boolean, method name any string, 1-2 arguments",
              "MIR/z3: arrays of length 0-2 with 0-3 arguments of any kind; function calls with 0-2 parameters, 0 or 2 locals, operand stack of "
              "parameters(+1) values, call-site argument count 0-4; every Pointer, constant index, address and method name symbolic"]
VMK_STUBS = ["MIR/z3 engine (smt/mirx.py): core/alloc functions are modelled from their documented semantics — Vec/slice (len, push, pop, get, "
             "index, first/last, reverse, iter, into_iter), iterator adapters over concrete lengths (map, chain, rev, take, repeat, collect into "
             "Vec and Result<Vec>), Option/Result combinators (?, map, unwrap, with_context), derived PartialEq/PartialOrd, HashMap/IndexMap "
             "lookups with concrete keys; message and anyhow::Error construction is opaque"]


def vm_prop(pid, quick, extra_all=()):
    p = Prop(pid)
    for h in VM_ALL:
        if h in quick or h in extra_all:
            p.add("h_vm::vm_" + h, quick=h in quick, timeout=900, drives=["eval_" + h], bound="one step of the kernel from every state of the shape")
    p.functions, p.bounds, p.outside, p.not_covered = VM_FUNCS + VMK_FUNCS, VM_BOUNDS + VMK_BOUNDS, VM_OUTSIDE, VM_NOT_COVERED
    p.stubs = p.stubs + VMK_STUBS
    p.smt_tasks.append(VMK())
    p.smt_tasks.append(VMH())
    return p


def c05():
    p = vm_prop("C05", {"literal", "get_local", "set_local", "get_global", "set_global", "drop_label", "jump", "branch", "return",
                           "loop_stops_at_failure"}, VM_ALL)
    p.smt_tasks.append(SmtTask("c09_dispatch_mir", "c09_dispatch.py", quick=True, timeout=900))
    return p


PRINT_SHAPES = [(0, 0), (1, 0), (2, 0), (3, 0), (4, 0), (5, 0)]
PRINT_FUNCS = ["bytecode::interpreter::eval_print", "state::OperandStack::pop_reverse_sequence", "heap::Pointer::evaluate_as_string (concrete integers)"]
PRINT_BOUNDS = ["format strings: every ASCII byte string of length 0-5 (bytecode level: any byte after a backslash), plus one two-byte "
                "character between two ASCII bytes", "arguments: none (a `~` is then a failure)",
                "output sink: fixed buffer recording every character and the number of write calls"]
PRINT_OUTSIDE = ["format strings longer than 5 bytes", "a lone trailing backslash (DESIGN 4.1)",
                 "rendering of integers of more than one digit, booleans, arrays and objects: value-dependent output length (R1); see not_covered"]
PRINT_NOT_COVERED = ["prints with arguments (substitution order, too many arguments): the popped argument's kind is solver-unknown and rendering it "
                     "explores the whole recursive renderer; 12 GB exhausted with one concrete integer argument",
                     "recursive rendering of arrays and objects (evaluate_as_string with real format!/join and std's stable sort): timed out at "
                     "900 s / 7-14 GB in probing (DESIGN 2); field ordering and nested rendering are not decided by the solver"]


PMIR = lambda: SmtTask("c15_print_mir", "c15_print.py", quick=True, timeout=1500, args=["quick"], thorough_args=[])
PMIR_FUNCS = ["MIR/z3: interpreter::eval_print, heap::{Pointer,HeapObject,ArrayInstance,ObjectInstance}::evaluate_as_string, Heap::dereference, "
              "OperandStack::{pop_reverse_sequence,push}, InstructionPointer::bump"]
PMIR_BOUNDS = ["MIR/z3 print task: 11 (quick) / 18 (thorough) concrete format strings (0-3 placeholders, every escape, unknown escapes, two- and three-byte characters, "
               "too few / too many arguments) x 0-3 arguments; one argument: any Pointer, references to any of 5 heap cells (array of two leaves, object with fields "
               "declared b then a and any primitive parent, object whose parent is that object, empty array, array holding an array), leaf kinds and values symbolic; "
               "several arguments: primitives, the array of two integers, the empty array; the output is compared token by token with the property's definition"]
PMIR_STUBS = ["print task: the sink is a token list (write_char / write_str append literal text or one token per rendered integer / boolean with its z3 term); core's "
              "decimal rendering of i32 / bool is trusted; format! is evaluated to tokens; sort_by_key is a stable sort on the concrete field names"]


def c15():
    p = Prop("C15")
    quick = {(0, 0), (1, 0), (2, 0), (3, 0)}
    for (n, a) in PRINT_SHAPES:
        p.add("h_print::print_len%d_args%d" % (n, a), quick=(n, a) in quick, timeout=1200,
              drives=["eval_print"], bound="all ASCII format strings of %d bytes x all %d-argument lists" % (n, a))
    p.add("h_print::print_two_byte_character", quick=True, timeout=900, bound="a, <any U+0080..U+07FF>, z")
    p.add("h_print::print_bad_constant", quick=True, timeout=900, bound="non-string format constant, missing constant")
    p.add("h_print::print_short_stack", quick=False, timeout=900, bound="operand stack shorter than the argument count")
    p.smt_tasks.append(SmtTask("lexer_regex_c15", "c07_lexer.py", quick=True, timeout=300, args=["C15"]))
    p.smt_tasks.append(PMIR())
    p.functions, p.bounds = PRINT_FUNCS + ["fml.lalrpop STRING_LITERAL regex (z3)"] + PMIR_FUNCS, PRINT_BOUNDS + PMIR_BOUNDS
    p.outside = ["format strings longer than 5 bytes under Kani / other than the listed ones on the MIR", "a lone trailing backslash (DESIGN 4.1)",
                 "heaps other than the 5-cell shape; rendering of values nested deeper than array-in-array / object-in-object; cyclic values (known finding, DESIGN 6)"]
    p.not_covered = ["rendering under Kani (value-dependent output length); it is decided by the MIR task instead"]
    p.stubs = p.stubs + PMIR_STUBS
    return p


SCOPE_SEQS = ["r", "l", "a", "lr", "la", "ll", "elr", "lelr", "elxr", "lelxr", "lelxa", "elxelr", "lelar", "elxer", "elxea"]
# measured on the pinned tree: out of memory at the 12 GB cap (two global definitions in one sequence, or three lets)
SCOPE_DO_NOT_FIT = {("la", "top"), ("ll", "top"), ("lelr", "top"), ("lelxr", "top"), ("lelxa", "local"), ("lelxa", "top"),
                    ("lelar", "local"), ("lelar", "top"), ("lelar", "block")}
COMPILE_FUNCS = ["bytecode::compiler::<AST as Compiled>::compile_into (arms Integer, Boolean, Null, Variable, AccessVariable, AssignVariable)",
                 "compiler::Environment::{new,enter_scope,leave_scope,register_new_local,register_local,has_local,in_outermost_scope,count_locals}",
                 "program::{ConstantPool::register,ConstantPool::find,Globals::register,Code::emit,Code::emit_unless}"]
COMPILE_BOUNDS = ["one AST node per step: literals (all values), let / assign with a null value, variable read; keep_result symbolic",
                  "frames: Local, Top at the outermost scope, Top inside a block",
                  "scope sequences (shape = operation kinds, content = names symbolic over {x, y}): " + ", ".join(s.upper() for s in SCOPE_SEQS) +
                  "  (L let, R read, A assign, E enter block, X leave block)"]
COMPILE_OUTSIDE = ["nesting deeper than one node (composition is by the syntax-directed structure, not machine-checked)",
                   "sequences longer than 6 operations, more than two names, a second let of a name in the same scope"]
COMPILE_NOT_COVERED = ["scope sequences with two global definitions or three lets (LA, LL, LELR, LELXR, LELXA at top level; LELAR): out of memory at 12 GB",
                       "arms with several children (calls, print, object, array, block, conditional, loop, function, top): each recursive compile_into call "
                       "explores all 23 arms, the cost is exponential in depth (Conditional with literal children: 652 s; two levels: > 8 GB); "
                       "label uniqueness, jump targets, frame sizes of nested functions and the compound-array rewrite are not decided"]


CMIR = lambda which: SmtTask("c02_compile_mir", "c02_compile.py", quick=True, timeout=1800, args=[which])
CMIR_FUNCS = ["MIR/z3: <AST as Compiled>::compile_into (all 23 arms, recursively), compile_function_definition, LabelGenerator / LabelGroup, "
              "Environment::*, ConstantPool::{register,find,push}, Globals::register, Code::{emit,emit_unless,extend}, AST constructors used by the compound-array rewrite"]
CMIR_BOUNDS = ["MIR/z3 compiler task: 53 expression templates covering every arm with several children (calls, print, object, array with simple / compound / "
               "nested initializers, conditional, loop, block, field and array access / assignment, let / assign, shadowing), nesting depth <= 3, each in 4 "
               "contexts (value kept / discarded at top level, in a block, in a function); integer and boolean literals symbolic, names and shapes concrete; "
               "the enumerated paths are proved to cover all literal values (z3), the executor's output is compared with the natively compiled program on every template"]
CMIR_STUBS = ["compiler task: the AST's shape is concrete in the executor's value tree (only the matching arm of compile_into runs); format! is evaluated to a "
              "string, HashMap<(Scope, String), _> / HashSet<String> are association lists with concrete keys, Box is a cell; the references (well-formedness, "
              "stack discipline, README evaluator, stack machine) are smt/fmlref.py, written from the README and the documented instruction set"]


def compile_prop(pid, quick_literals, quick_seqs):
    p = Prop(pid)
    for lit in ("integer_local", "integer_top", "integer_top_block", "boolean_local", "boolean_top", "null_local", "null_top_block"):
        p.add("h_compile::compile_%s" % lit, quick=lit in quick_literals, timeout=900, drives=["compile_into"], bound="literal arm %s: every value, keep_result both ways" % lit)
    for sq in SCOPE_SEQS:
        for fk in ("local", "top", "block"):
            if (sq, fk) in SCOPE_DO_NOT_FIT:
                continue
            p.add("h_compile::scope_%s_%s" % (sq, fk), quick=(sq, fk) in quick_seqs, timeout=1500, mem_gb=(16 if len(sq) >= 4 else 12),
                  weight=(2 if len(sq) >= 4 else 1), drives=["compile_into", "Environment"],
                  bound="sequence %s in frame %s, every name assignment" % (sq.upper(), fk))
    p.functions, p.bounds, p.outside, p.not_covered = COMPILE_FUNCS, COMPILE_BOUNDS, COMPILE_OUTSIDE, COMPILE_NOT_COVERED
    return p


def c02():
    p = compile_prop("C02", {"integer_local", "null_top_block"}, {("r", "local"), ("r", "block"), ("l", "top"), ("a", "local"), ("lr", "local")})
    p.smt_tasks.append(CMIR("C02"))
    p.functions = p.functions + CMIR_FUNCS
    p.bounds = p.bounds + CMIR_BOUNDS + ["W: constant references exist and have the required kind, labels defined once and targeted inside the same method, locals fit the "
                                         "frame, every instruction in exactly one method, entry / globals well-typed; S: one operand-stack depth per instruction over all "
                                         "control-flow edges, never negative, exactly one at every return"]
    p.stubs = p.stubs + CMIR_STUBS
    p.not_covered = ["scope sequences with two global definitions or three lets under Kani (out of memory at 12 GB); covered at template level by the MIR task",
                     "programs outside the template family (deeper nesting, other combinations): the claim is per template, composition is by the syntax-directed structure"]
    return p


def c12():
    p = compile_prop("C12", set(), {("lr", "local"), ("lr", "top"), ("elr", "block"), ("elxr", "local"), ("elxer", "local"), ("elxea", "top"), ("lelr", "block")})
    p.smt_tasks.append(CMIR("C12"))
    p.functions = p.functions + CMIR_FUNCS
    p.bounds = p.bounds + CMIR_BOUNDS + [
        "scoping observed at run time (MIR/z3 compiler task, templates scope-*): shadowing in a nested block, sibling blocks, assignment to an outer variable before and "
        "after an inner let, function bodies isolated from the caller's locals, a parameter shadowing a global, a global assigned from a function, lets in a loop body "
        "and in both branches of a conditional, `this` and a parameter in a method; every variable read is printed and the printed values of the emitted code on a "
        "reference stack machine must equal those of the README's block scoping on a reference evaluator, literal values symbolic"]
    p.stubs = p.stubs + CMIR_STUBS
    p.not_covered = ["scope sequences with two global definitions or three lets under Kani (out of memory at 12 GB); covered at template level by the MIR task",
                     "programs outside the sequences and templates"]
    return p


def c07():
    p = Prop("C07")
    p.smt_tasks.append(SmtTask("c07_grammar_tables", "c07_grammar.py", quick=True, timeout=1200, args=["3"], thorough_args=["5"]))
    p.smt_tasks.append(SmtTask("lexer_regex_c07", "c07_lexer.py", quick=True, timeout=300, args=["C07"]))
    p.smt_tasks.append(SmtTask("c07_token_actions_mir", "c07_actions.py", quick=True, timeout=900, args=["6"], thorough_args=["6"]))   # lengths 8 and 10 were probed and did not finish within 3 and 5 minutes (z3's sequence solver); not registered
    for h, q in (("fold_len1", True), ("operation_names", True)):
        p.add("h_parse::parse_" + h, quick=q, timeout=900, drives=["AST::from_binary_expression", "AST::operation", "Identifier::from(Operator)"],
              bound="operator fold over 3 one-character operators (symbolic); method names of all 13 operators")
    p.functions = ["fml.lalrpop: LALR tables generated by lalrpop 0.18.1 (__ACTION, __EOF_ACTION, __GOTO, __reduceN), match-block regexes",
                   "generated parser: the __actionN functions of `String = STRING_LITERAL` and `Ident = IDENTIFIER` (from their MIR)", "<Identifier as From<&str>>::from",
                   "parser::AST::{from_binary_expression,operation}", "parser::Operator::as_str", "<Identifier as From<Operator>>::from"]
    p.bounds = ["precedence / associativity: all 13^n operator tuples, n <= 3 (quick) / n <= 5 (thorough), on the generated tables",
                "templates: dangling else, field/call/index chain, index chain, array and field assignment, parentheses; atoms symbolic "
                "over identifier / number / true / false / null / this",
                "lexer: regular-language equivalence, inclusion and disjointness queries without a length bound",
                "token actions (MIR/z3 on the generated parser's __actionN functions): `String = STRING_LITERAL` yields the literal without its two delimiting "
                "quotes and `Ident = IDENTIFIER` the identifier named by the token, for every ASCII token text of the token's regex up to 6 "
                "characters, one run per length with every character symbolic; no panic reachable"]
    p.outside = ["the semantic actions of productions other than the operator fold and the string / identifier token actions (Rust closures the tables do not contain)",
                 "non-ASCII token texts in the token-action task (character and byte positions differ); the number token's action (`i32::from_str(..).unwrap()`)",
                 "printing an AST back to source and re-parsing; redundant-parenthesis insertion; sentences outside the templates",
                 "operator runs longer than 5"]
    p.stubs = p.stubs + ["lalrpop's LR driver is re-implemented by the symbolic executor (shift / reduce / goto on the generated tables); it is "
                         "validated on every run against /repo's real parser on all 169 operator pairs",
                         "regex crate semantics as given to z3 (Unicode white space for \\s, `.` excludes LF, negated classes include LF)"]
    return p


def c10():
    p = Prop("C10")
    for h, q in (("loop_stops_at_failure", True), ("drop_label", True), ("get_field", True), ("literal", False),
                 ("get_local", False), ("set_local", False), ("get_global", False), ("set_global", False), ("jump", False), ("branch", True),
                 ("return", False), ("array", False)):
        p.add("h_vm::vm_" + h, quick=q, timeout=900, drives=["eval_" + h], bound="failure conjuncts: Err exactly where the step is undefined, no other panic reachable")
    for n in range(0, 6):
        p.add("h_print::print_len%d_args0" % n, quick=n in (1, 3), timeout=1200, drives=["eval_print"], bound="failing print writes nothing; format strings of %d bytes" % n)
    p.add("h_print::print_bad_constant", quick=True, timeout=900)
    p.add("h_print::print_short_stack", quick=False, timeout=900)
    for op in ("div", "mod"):
        p.add("h_c09::c09_int_%s_sym_r9" % op, quick=(op == "div"), timeout=600, bound="zero divisor / MIN / -1: Rust's division panic or Err")
    p.add("h_c09::c09_unknown_int_len2", quick=False, timeout=900)
    p.smt_tasks.append(SmtTask("c09_dispatch_mir", "c09_dispatch.py", quick=True, timeout=900))
    p.smt_tasks.append(VMK())
    p.smt_tasks.append(VMH())
    p.smt_tasks.append(PMIR())
    p.smt_tasks.append(SmtTask("c10_print_graph_mir", "c15_print.py", quick=True, timeout=1500, args=["graph"], thorough_args=["graph"]))   # the wider shape `graph-thorough` (all five leaves, references to all five cells) exists in the task but its running time is not measured yet
    p.stubs = p.stubs + VMK_STUBS + PMIR_STUBS
    p.functions = VM_FUNCS + VMK_FUNCS + PRINT_FUNCS + PMIR_FUNCS
    p.bounds = VM_BOUNDS + PRINT_BOUNDS + PMIR_BOUNDS + ["print task: a print that fails (count mismatch, unknown escape) has written nothing, whatever its arguments are"]
    p.outside = VM_OUTSIDE + ["process exit status and stderr/stdout separation (main.rs), lexer/parser rejections",
                              "FML call depth 10^5 and source nesting depth 200 (CBMC cannot unwind that far)"]
    p.bounds = p.bounds + [
        "value graphs (MIR/z3 task c10_print_graph_mir): print(\"~\", v) for every Pointer v over the 5-cell heap of the print task whose leaves e0, f0, p1 are any Pointer too, references included — every graph of that shape, cyclic ones included: the print terminates without a "
        "native crash (a value that reaches itself may fail or print anything; more than 3 * 5 + 1 nested evaluate_as_string activations on a value the reference "
        "finds cyclic is `unbounded recursion`, replayed natively: the process aborts on stack exhaustion), acyclic values print what C15 prescribes"]
    p.not_covered = VM_NOT_COVERED + ["acyclic chains of 10^3 links, FML call depth 10^5, source nesting depth 200 (native stack depth is not a bounded-shape question)"]
    return p


def c13():
    p = Prop("C13")
    for h, q in (("branch", True), ("array", True), ("drop_label", False), ("return", False)):
        p.add("h_vm::vm_" + h, quick=q, timeout=900, bound="operands popped exactly once and in the pushed order")
    for sq, fk in (("la", "local"), ("l", "top")):
        p.add("h_compile::scope_%s_%s" % (sq, fk), quick=True, timeout=1500, bound="value compiled before the store")
    p.smt_tasks.append(VMK("call", "object"))
    p.smt_tasks.append(VMH("object"))
    p.smt_tasks.append(CMIR("C13"))
    p.smt_tasks.append(PMIR())
    p.stubs = p.stubs + VMK_STUBS + CMIR_STUBS + PMIR_STUBS
    p.functions = VM_FUNCS + VMK_FUNCS + COMPILE_FUNCS + CMIR_FUNCS + PMIR_FUNCS
    p.bounds = VM_BOUNDS + VMK_BOUNDS + COMPILE_BOUNDS + CMIR_BOUNDS + PMIR_BOUNDS + [
        "O: every operand position of a template holds a self-identifying call m<k>(); the trace of those calls and of prints that the README's semantics "
        "prescribe (left to right, initializer re-executed per element, only the taken branch, loop condition once more at exit) equals the trace of the "
        "emitted code on a reference stack machine, for the run-time choices listed per template (sizes 0-3, both branch outcomes, 0-2 loop iterations)"]
    p.outside = VM_OUTSIDE + COMPILE_OUTSIDE + ["run-time choices other than the listed ones; the trace comparison runs the references on concrete choices (the compile step is symbolic)"]
    p.not_covered = VM_NOT_COVERED + ["expression shapes outside the 50 templates"]
    return p


def c14():
    p = Prop("C14")
    for h, q in (("get_field", True),):
        p.add("h_vm::vm_" + h, quick=q, timeout=900, bound="fields are read and updated in place through a heap reference")
    p.smt_tasks.append(SmtTask("c09_dispatch_mir", "c09_dispatch.py", quick=True, timeout=900))
    p.smt_tasks.append(VMK("array", "object"))
    p.smt_tasks.append(VMH("object", "fields"))
    p.stubs = p.stubs + VMK_STUBS
    p.functions = VM_FUNCS + VMK_FUNCS
    p.bounds = VM_BOUNDS + VMK_BOUNDS
    p.outside = VM_OUTSIDE
    p.not_covered = VM_NOT_COVERED + ["parent-chain dispatch and overriding (needs about 20 GB per chain shape under CBMC)"]
    return p


def c16():
    p = Prop("C16")
    for h, q in (("array", True), ("literal", True), ("get_local", False), ("set_local", False), ("get_global", False), ("set_global", False),
                 ("branch", False), ("get_field", True)):
        p.add("h_vm::vm_" + h, quick=q, timeout=900, bound="heap length after the step: +1 exactly for a successful array creation, unchanged otherwise; any --heap-size")
    for h in ("array0", "array2", "object", "twice_empty", "twice_mixed"):
        p.add("h_heap::heap_allocate_" + h, quick=True, timeout=900, drives=["Heap::allocate", "HeapObject::size"],
              bound="allocate returns the old length, appends one cell, adds exactly size() > 0, size depends on shape only")
    p.smt_tasks.append(VMH("array", "object", "size"))
    p.smt_tasks.append(CMIR("C16"))
    p.stubs = p.stubs + VMK_STUBS
    p.functions = VM_FUNCS + VMK_FUNCS + ["heap::Heap::{allocate,set_size,verif_size (hook)}", "heap::HeapObject::size"] + CMIR_FUNCS
    p.stubs = p.stubs + CMIR_STUBS
    p.bounds = VM_BOUNDS + VMK_BOUNDS + CMIR_BOUNDS + [
        "compiler side of `one record per created array / object` (MIR/z3 compiler task, obligation O with allocation counts): on every template and context the number "
        "of `array` and `object` instructions the emitted code executes on the reference stack machine equals the number of arrays and objects the README's "
        "evaluator creates for the same program and run-time choices (discarded arrays with literal / variable size and initializer included)"]
    p.outside = VM_OUTSIDE + ["the CSV file itself (header, S record, timestamps, one A line per allocation): File and SystemTime are FFI; "
                              "the claim stops at `heap_log!(ALLOCATE)` being invoked once per allocate, which is read, not solved"]
    p.not_covered = VM_NOT_COVERED
    return p


def c11():
    p = Prop("C11")
    for name, q in (("h_ser::ser_framing_layout", True), ("h_ser::ser_method2_layout", False), ("h_compile::scope_lr_local", True),
                    ("h_compile::scope_lelr_block", True), ("h_vm::vm_get_global", True), ("h_vm::vm_jump", False), ("h_c09::c09_int_add_sym", True),
                    ("h_c09::c09_int_mul_feeny", False)):
        p.add(name, quick=q, timeout=1500, mem_gb=(30 if "scope_lelr" in name else 12), weight=(2 if "scope_lelr" in name else 1), bound="kernel output is a function of its inputs (equals a reference computed from them); no clock / "
                                               "environment / random call and no profile-dependent check is reachable")
    p.smt_tasks.append(SmtTask("c09_dispatch_mir", "c09_dispatch.py", quick=True, timeout=900))
    p.functions = SER_FUNCS + COMPILE_FUNCS + VM_FUNCS
    p.bounds = ["a cross-section of the serializer, compiler and VM harnesses: each compares the real kernel with a reference that is a function of the "
                "harness inputs only; any reachable FFI (clock, environment, randomness) is a Kani failure by construction; overflow checks on "
                "(dev profile semantics) and no failing arithmetic check means dev and release compute the same function"]
    p.outside = ["fresh processes, real hash seeds, two differently built binaries: this is a per-kernel noninterference argument",
                 "hash-map iteration order: the kernels only look maps up by key (the Vec-backed models expose no hash order to depend on)"]
    p.not_covered = ["whole-program compile / run determinism", "object printing order (sorted fields) — rendering does not fit CBMC"]
    return p


def c17():
    p = Prop("C17")
    p.smt_tasks.append(SmtTask("c17_listing_mir", "c17_listing.py", quick=True, timeout=1500, args=["2", "3"], thorough_args=["4", "6"]))
    p.functions = ["<Program as Display>::fmt, <ConstantPool as Display>::fmt, <Globals as Display>::fmt, <Entry as Display>::fmt, <Code as Display>::fmt",
                   "<ProgramObject as Display>::fmt (7 variants, closure over class members), <OpCode as Display>::fmt (17 variants)",
                   "<Address|ConstantPoolIndex|LocalFrameIndex|Arity|Size|AddressRange as Display>::fmt, Address::{from_usize,value_usize}",
                   "all from the MIR of /repo's current sources; format_args! templates decoded as core::fmt::write decodes them"]
    p.bounds = ["items: every instruction kind and every constant kind with every payload value; strings of any length and content without CR / LF; "
                "classes of 0-3 members (quick) / 0-6 (thorough); method ranges with every start and length whose end fits an Address",
                "programs: 0-2 (quick) / 0-4 (thorough) constants x globals x instructions, each constant / instruction ranging over the whole "
                "language of its kind's renderings; every global and entry index",
                "queries: D one way to split a rendering into tokens (exact per-token ambiguity query on regular languages), V tokens determine "
                "the payload (bit-vector / string query over two copies of the value), X renderings of different kinds / shapes are disjoint "
                "languages, I every element is listed once on a line starting with its index"]
    p.outside = ["pools, global lists, code vectors and classes longer than the bound (the loops are uniform; not machine-checked beyond the bound)",
                 "a method whose start + length - 1 overflows an Address: rendering panics (assert in Address::from_usize), nothing is printed",
                 "string constants containing CR or LF (excluded by the property), characters above U+2FFFF (z3's character range)",
                 "Entry(None): a loaded program always has an entry point",
                 "the deserializer in front of the listing (C04 decides decoding) and the println! that writes the text"]
    p.not_covered = ["bytecode::debug's alternative pretty-printer (pinned by the *_print tests; not what `fml disassemble` prints)"]
    p.stubs = ["core's `{}` rendering of machine integers (canonical decimal, zero-padded to a width when the template says so), bool and str is "
               "trusted, as are alloc's ToString and [String]::join; Formatter is modelled as a token list",
               "the token model is validated on every run: for every rendering path two concrete values (large payloads; a string with quotes, "
               "colon, hash, backslash) are printed by the real Display impls and compared with the model's prediction (model_validation)",
               "MIR executor smt/mirx.py with the models it lists (iterators of concrete length, Option/Result combinators, closures)"]
    p.assumptions = ["rustc's MIR is the program; z3's regular-expression and bit-vector procedures are sound",
                     "composition (paper argument, DESIGN 5A): X gives the kind / shape, D the token strings, V the payload, so listing -> program is a function",
                     "every claim is bounded by the shapes listed under coverage.bounds"]
    return p


REGISTRY = {"C07": c07, "C10": c10, "C11": c11, "C13": c13, "C14": c14, "C16": c16, "C02": c02, "C12": c12, "C15": c15, "C05": c05, "C03": c03, "C04": c04, "C08": c08, "C09": c09, "C17": c17}


def get(pid):
    f = REGISTRY.get(pid)
    return f() if f else None
