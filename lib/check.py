#!/usr/bin/env python3
"""Driver: check <ID> <quick|thorough> | check --replay <file>

Exit 0: every harness / query of the tier was conclusive and the property held (KNOWN-FINDING lines for
        listed findings).
Exit 1: at least one violation, each confirmed natively against the real code and printed as
        `VIOLATION property=<id> replay=<path>`.
Exit 2: no violation confirmed but something was inconclusive (cap exceeded, vacuity witness not satisfied,
        counterexample that did not reproduce, harness crate does not compile against the tree).
"""
import json
import os
import sys
import time

sys.path.insert(0, os.path.dirname(os.path.abspath(__file__)))
import kanirun  # noqa: E402
import props  # noqa: E402

ROOT = kanirun.ROOT
EVIDENCE_DIR = os.path.join(ROOT, "evidence")
KNOWN = os.path.join(ROOT, "known_findings.txt")


def load_known():
    """Lines `finding: property=<id> key=<harness-substring>|<failed-check-substring> <text>` suppress exactly
    that (harness, failed check) pair; `fixed:` lines are history and suppress nothing."""
    out = []
    if not os.path.exists(KNOWN):
        return out
    for line in open(KNOWN):
        line = line.strip()
        if not line.startswith("finding:"):
            continue
        fields = dict(p.split("=", 1) for p in line.split()[1:3] if "=" in p)
        if "property" in fields and "key" in fields and "|" in fields["key"]:
            hs, cs = fields["key"].split("|", 1)
            out.append({"property": fields["property"], "harness": hs, "check": cs.replace("_", " "),
                        "text": line.split(None, 3)[3] if len(line.split(None, 3)) > 3 else ""})
    return out


def known_match(known, prop, harness, descs):
    for k in known:
        if k["property"] == prop and k["harness"] in harness and any(k["check"] in d for d in descs):
            return k
    return None


def write_replay(prop, kind, payload):
    d = os.path.join(kanirun.OUT_DIR, "replays")
    os.makedirs(d, exist_ok=True)
    path = os.path.join(d, "%s_%s.json" % (prop, payload["name"].replace("::", "__")))
    payload = dict(payload, property=prop, kind=kind)
    with open(path, "w") as f:
        json.dump(payload, f, indent=1)
    return path


def do_replay(path):
    p = json.load(open(path))
    if p["kind"] == "kani":
        out = kanirun.replay_native(p["name"], p.get("concrete_vals"))
        print(json.dumps(out, indent=1))
        reproduced = any(v["outcome"] == "reproduced" for v in out.values())
        print("REPLAY %s: %s" % (p["name"], "reproduced" if reproduced else "not reproduced"))
        return 1 if reproduced else 0
    if p["kind"] == "smt":
        import smttasks
        return smttasks.replay(p)
    print("unknown replay kind")
    return 2


def main():
    if len(sys.argv) >= 3 and sys.argv[1] == "--replay":
        sys.exit(do_replay(sys.argv[2]))
    if len(sys.argv) < 3:
        print(__doc__)
        sys.exit(2)
    prop, tier = sys.argv[1], sys.argv[2]
    if tier not in ("quick", "thorough"):
        tier = os.environ.get("VERIF_TIER", "quick")
    seed = int(os.environ.get("VERIF_SEED", "0") or 0)
    cfg = props.get(prop)
    if cfg is None:
        print("no check registered for %s" % prop)
        sys.exit(2)
    t0 = time.time()
    harnesses = [h for h in cfg.harnesses if tier == "thorough" or h.quick]
    only = os.environ.get("VERIF_ONLY")  # debugging aid: run only harnesses / tasks whose name contains this
    if only:
        harnesses = [h for h in harnesses if only in h.name]
        cfg.smt_tasks = [t for t in cfg.smt_tasks if only in t.name]
    jobs = int(os.environ.get("VERIF_JOBS", cfg.jobs.get(tier, 10)))
    log_dir = os.path.join(kanirun.OUT_DIR, "logs", "%s_%s" % (prop, tier))
    known = load_known()

    violations, inconclusive, known_hits = [], [], []
    results, build = ([], {"compile_ok": True, "compile_s": 0.0})
    if harnesses:
        sys.stderr.write("%s %s: %d Kani harnesses, %d at a time\n" % (prop, tier, len(harnesses), jobs))
        results, build = kanirun.run_all(prop, harnesses, jobs, log_dir)
        if results is None:
            results = []
            inconclusive.append({"name": "build", "reason": "harness crate does not compile against /repo: %s" % build["errors"]})

    by_name = {h.name: h for h in harnesses}
    replays = []
    for r in results:
        if r["status"] == "inconclusive":
            inconclusive.append({"name": r["name"], "reason": r["reason"]})
        elif r["status"] == "violation_candidate":
            descs = [f["desc"] for f in r.get("unexpected", [])]
            k = known_match(known, prop, r["name"], descs)
            others = [d for d in descs if not (k and k["check"] in d)]
            if k and not others:
                known_hits.append((k, r["name"]))
                continue
            h = by_name[r["name"]]
            path = write_replay(prop, "kani", {"name": r["name"], "concrete_vals": r["concrete_vals"],
                                               "failed": r.get("unexpected", []), "log": r["log"]})
            # every failed check has its own recorded values: replay them in turn until one reproduces
            candidates = [pb["vals"] for pb in r.get("playbacks", [])] or [r["concrete_vals"]]
            seen, rep, reproduced = [], {}, False
            for vals in candidates[:6]:
                if vals in seen:
                    continue
                seen.append(vals)
                rep = kanirun.replay_native(r["name"], vals, timeout=60 if h.termination else 120)
                reproduced = any(v["outcome"] == "reproduced" for v in rep.values())
                if reproduced:
                    write_replay(prop, "kani", {"name": r["name"], "concrete_vals": vals, "failed": r.get("unexpected", []), "log": r["log"]})
                    break
            replays.append({"name": r["name"], "replay": rep})
            if reproduced:
                violations.append({"name": r["name"], "reason": r["reason"], "replay": path,
                                   "profiles": {p: v["outcome"] for p, v in rep.items()}})
            else:
                inconclusive.append({"name": r["name"], "reason": "counterexample did not reproduce natively (%s): %s" % (
                    {p: v["outcome"] for p, v in rep.items()}, r["reason"])})

    # solver tasks outside Kani (z3 encoders regenerated from /repo's sources)
    smt_results = []
    for task in cfg.smt_tasks:
        if tier == "quick" and not task.quick:
            continue
        sys.stderr.write("%s %s: solver task %s\n" % (prop, tier, task.name))
        res = task.run(tier)
        smt_results.append(res)
        for v in res.get("violations", []):
            k = known_match(known, prop, task.name, [v.get("what", "")])
            if k:
                known_hits.append((k, task.name))
                v["known_finding"] = k["harness"] + "|" + k["check"]
                continue
            path = write_replay(prop, "smt", dict(v, name=task.name + "_" + v.get("id", "cex")))
            if v.get("reproduced"):
                violations.append({"name": task.name, "reason": v.get("what", ""), "replay": path})
            else:
                inconclusive.append({"name": task.name, "reason": "counterexample not reproduced against the real code: " + v.get("what", "")})
        for i in res.get("inconclusive", []):
            inconclusive.append({"name": task.name, "reason": i})

    wall = time.time() - t0
    passed = [r for r in results if r["status"] == "pass"]
    n_queries = sum(r.get("queries", 0) for r in smt_results)
    evidence = {
        "property_id": prop,
        "tier": tier,
        "seed": seed,
        "level": "model_checking",
        "coverage": {
            "evaluations": len(results) + n_queries,
            "distinct_nontrivial": len(passed) + sum(r.get("nontrivial", 0) for r in smt_results),
            "rule": "one evaluation = one solver verdict over a symbolic input space: a Kani/CBMC harness run (all values of its "
                    "symbolic inputs within the stated shape) or one z3 query; counted as distinct and non-trivial only when it was "
                    "conclusive, held, and every vacuity witness (cover point / satisfiability twin) of it was satisfied",
            "exhaustive": False,
            "samples": [{"harness": r["name"], "verdict": r["verdict"], "cbmc_properties": r["checks_total"],
                         "covers": r["covers"][:4], "variables": r["variables"], "clauses": r["clauses"]}
                        for r in results[:6]] + [s for r in smt_results for s in r.get("samples", [])[:4]],
            "engine": "Kani 0.68.0 / CBMC 6.11.0 / CaDiCaL; z3 for the encoders outside Kani",
            "functions_encoded": cfg.functions,
            "bounds": cfg.bounds,
            "outside_the_bounds": cfg.outside,
            "not_covered": cfg.not_covered,
            "stubs_and_models": cfg.stubs,
            "harnesses": [{"name": r["name"], "status": r["status"], "reason": r["reason"], "verdict": r["verdict"],
                           "cbmc_properties": r["checks_total"], "failed_checks": [f["desc"] for f in r["failed"]][:6],
                           "covers": r["covers"], "symex_s": r["symex_s"], "solver_s": r["solver_s"],
                           "variables": r["variables"], "clauses": r["clauses"], "wall_s": r["wall_s"],
                           "bound": by_name[r["name"]].bound, "drives": by_name[r["name"]].drives} for r in results],
            "queries_discharged": len(passed) + sum(r.get("discharged", 0) for r in smt_results),
            "cbmc_properties_checked": sum(r["checks_total"] or 0 for r in results),
            "solver_seconds": round(sum(r["solver_s"] or 0 for r in results) + sum(r.get("solver_s", 0) for r in smt_results), 2),
            "symex_seconds": round(sum(r["symex_s"] or 0 for r in results), 2),
            "build": build,
            # counterexamples that are instances of a listed known finding are counted (and three kept as examples), not listed one by one
            "smt_tasks": [dict({k: v for k, v in r.items() if k not in ("samples", "violations")},
                               violations=[v for v in r.get("violations", []) if "known_finding" not in v],
                               known_finding_counterexamples=sum(1 for v in r.get("violations", []) if "known_finding" in v),
                               known_finding_examples=[{"what": v.get("what", "")[:600], "reproduced": v.get("reproduced"), "replay_argv": v.get("replay_argv")}
                                                       for v in r.get("violations", []) if "known_finding" in v][:3]) for r in smt_results],
            "inconclusive": inconclusive,
            "replays": replays,
            "known_findings_hit": [{"key": key, "harness": n, "counterexamples": c} for (key, n), c in sorted(
                __import__("collections").Counter((k["harness"] + "|" + k["check"], n) for k, n in known_hits).items())],
        },
        "assumptions": cfg.assumptions,
        "wall_s": round(wall, 1),
        "violations": len(violations),
    }
    os.makedirs(EVIDENCE_DIR, exist_ok=True)
    # a filtered debugging run (VERIF_ONLY) is not a run of the check: it leaves the evidence file alone
    target = os.path.join(EVIDENCE_DIR, prop + ".json") if not only else os.path.join(kanirun.OUT_DIR, prop + ".debug-evidence.json")
    with open(target, "w") as f:
        json.dump(evidence, f, indent=1)

    for k, name in sorted({(k["text"], name) for k, name in known_hits}):   # one line per listed finding, however many paths hit it
        print("KNOWN-FINDING: property=%s %s (%s)" % (prop, k, name))
    for v in violations:
        print("VIOLATION property=%s replay=%s" % (prop, v["replay"]))
        print("  %s: %s" % (v["name"], v["reason"]))
    for i in inconclusive:
        print("INCONCLUSIVE %s: %s" % (i["name"], i["reason"]))
    print("%s %s: %d harnesses + %d solver queries, %d held, %d violations, %d inconclusive, %.0fs" % (
        prop, tier, len(results), n_queries, len(passed) + sum(r.get("discharged", 0) for r in smt_results),
        len(violations), len(inconclusive), wall))
    if violations:
        sys.exit(1)
    if inconclusive:
        sys.exit(2)
    sys.exit(0)


if __name__ == "__main__":
    main()
